(* Model of the attachment machinery of txtorcon, as the code stands:
     TorState._stream_update / _maybe_attach / issue_stream_attach / set_attacher / undo_attacher,
     TorState._circuit_update + Circuit.update + circuit_closed/failed/destroy (only what decides
       `circ.id in self.circuits`, `circ.state` and Circuit.when_built()),
     circuit._CircuitAttacher, circuit._get_circuit_attacher (module-level cache),
     TorCircuitEndpoint.connect (an inlineCallbacks coroutine = an explicit stage machine here),
     attacher.PriorityAttacher (heapq array; attach_stream iterates a copy sorted by (priority, counter)),
     TorControlProtocol.queue_command/_maybe_issue_command/_broadcast_response as a command channel
       (one command in flight, FIFO, the callback of a reply runs before the next command is written).
   Python objects are numbers: circuit objects by creation order (oid), connections by the number the
   history gives them.  No proofs here. *)
From Coq Require Import List Bool Ascii Arith NArith Lia String.
From TxVerif Require Import Lib.Bytes Lib.Dec Spec.C09.
Import ListNotations.
Open Scope N_scope.

(* Circuit._when_built: a SingleObserver; fired once, with the circuit or with a Failure *)
Inductive fres := FOk | FClosedErr | FFailedErr.
Record cobj := { c_id : N; c_st : cstatus; c_fired : option fres; c_wait : list nat (* connect()s waiting *) }.

Inductive stage :=
| KSetconf        (* yield state.set_attacher(...)            *)
| KWaitBuilt      (* yield self._circuit.when_built()         *)
| KStarted        (* socks connect begun; address not known   *)
| KLocal          (* address registered; waiting for SOCKS    *)
| KWaitAtt        (* proto there; yield attached_d            *)
| KDone.
Record conn := { k_id : nat; k_oid : nat; k_stage : stage; k_att : option cres (* attached_d, if it fired *) }.

Record pend := { p_sid : N; p_kind : akind; p_fired : bool }.
Record hent := { h_prio : N; h_cnt : N; h_att : option nat }.
Inductive satt := SCustom (j : nat) | SPrio | SCirc.

(* what runs when Tor answers a command *)
Inductive cont := KNone | KAttachCmd | KConn (k : nat).

Record st := {
  objs : list cobj;                          (* every Circuit object ever made; index = oid *)
  circs : list (N * nat);                    (* TorState.circuits: id -> object *)
  strs : list N;                             (* TorState.streams keys *)
  slot : option satt;                        (* TorState._attacher *)
  ca_made : bool;                            (* _get_circuit_attacher.attacher is not None *)
  table : list ((N * N) * (nat * nat));      (* _CircuitAttacher._circuit_targets: (ip, port) -> (oid, k) *)
  conns : list conn;
  pends : list pend;                         (* Deferreds handed out by attachers, creation order *)
  heap : list hent; cnt : N; entry : list (nat * N);      (* PriorityAttacher *)
  busy : option cont; queue : list (bytes * cont);        (* command channel *)
  oos : bool                                 (* the history left the modelled envelope *)
}.

Definition st0 : st :=
  {| objs := []; circs := []; strs := []; slot := None; ca_made := false; table := []; conns := []; pends := [];
     heap := []; cnt := 0; entry := []; busy := None; queue := []; oos := false |}.

(* ---- field updates ---- *)
Definition with_objs (s : st) (x : list cobj) : st :=
  {| objs := x; circs := circs s; strs := strs s; slot := slot s; ca_made := ca_made s; table := table s; conns := conns s;
     pends := pends s; heap := heap s; cnt := cnt s; entry := entry s; busy := busy s; queue := queue s; oos := oos s |}.
Definition with_circs (s : st) (x : list (N * nat)) : st :=
  {| objs := objs s; circs := x; strs := strs s; slot := slot s; ca_made := ca_made s; table := table s; conns := conns s;
     pends := pends s; heap := heap s; cnt := cnt s; entry := entry s; busy := busy s; queue := queue s; oos := oos s |}.
Definition with_strs (s : st) (x : list N) : st :=
  {| objs := objs s; circs := circs s; strs := x; slot := slot s; ca_made := ca_made s; table := table s; conns := conns s;
     pends := pends s; heap := heap s; cnt := cnt s; entry := entry s; busy := busy s; queue := queue s; oos := oos s |}.
Definition with_slot (s : st) (x : option satt) : st :=
  {| objs := objs s; circs := circs s; strs := strs s; slot := x; ca_made := ca_made s; table := table s; conns := conns s;
     pends := pends s; heap := heap s; cnt := cnt s; entry := entry s; busy := busy s; queue := queue s; oos := oos s |}.
Definition with_ca (s : st) : st :=
  {| objs := objs s; circs := circs s; strs := strs s; slot := slot s; ca_made := true; table := table s; conns := conns s;
     pends := pends s; heap := heap s; cnt := cnt s; entry := entry s; busy := busy s; queue := queue s; oos := oos s |}.
Definition with_table (s : st) (x : list ((N * N) * (nat * nat))) : st :=
  {| objs := objs s; circs := circs s; strs := strs s; slot := slot s; ca_made := ca_made s; table := x; conns := conns s;
     pends := pends s; heap := heap s; cnt := cnt s; entry := entry s; busy := busy s; queue := queue s; oos := oos s |}.
Definition with_conns (s : st) (x : list conn) : st :=
  {| objs := objs s; circs := circs s; strs := strs s; slot := slot s; ca_made := ca_made s; table := table s; conns := x;
     pends := pends s; heap := heap s; cnt := cnt s; entry := entry s; busy := busy s; queue := queue s; oos := oos s |}.
Definition with_pends (s : st) (x : list pend) : st :=
  {| objs := objs s; circs := circs s; strs := strs s; slot := slot s; ca_made := ca_made s; table := table s; conns := conns s;
     pends := x; heap := heap s; cnt := cnt s; entry := entry s; busy := busy s; queue := queue s; oos := oos s |}.
Definition with_prio (s : st) (h : list hent) (c : N) (e : list (nat * N)) : st :=
  {| objs := objs s; circs := circs s; strs := strs s; slot := slot s; ca_made := ca_made s; table := table s; conns := conns s;
     pends := pends s; heap := h; cnt := c; entry := e; busy := busy s; queue := queue s; oos := oos s |}.
Definition with_chan (s : st) (b : option cont) (q : list (bytes * cont)) : st :=
  {| objs := objs s; circs := circs s; strs := strs s; slot := slot s; ca_made := ca_made s; table := table s; conns := conns s;
     pends := pends s; heap := heap s; cnt := cnt s; entry := entry s; busy := b; queue := q; oos := oos s |}.
Definition with_oos (s : st) : st :=
  {| objs := objs s; circs := circs s; strs := strs s; slot := slot s; ca_made := ca_made s; table := table s; conns := conns s;
     pends := pends s; heap := heap s; cnt := cnt s; entry := entry s; busy := busy s; queue := queue s; oos := true |}.

(* ---- command lines ---- *)
Definition CRLF : bytes := [CR; LF].
Definition attach_line (sid cid : N) : bytes := str "ATTACHSTREAM " ++ dec sid ++ [SP] ++ dec cid ++ CRLF.
Definition leave_line (v : N) : bytes := str "SETCONF __LeaveStreamsUnattached=" ++ dec v ++ CRLF.

(* queue_command: append; _maybe_issue_command writes it at once when nothing is in flight *)
Definition send (s : st) (line : bytes) (c : cont) : st * list ev :=
  match busy s with
  | None => (with_chan s (Some c) (queue s), [EWrote line])
  | Some _ => (with_chan s (busy s) (queue s ++ [(line, c)]), [])
  end.

(* ---- connections ---- *)
Definition find_conn (k : nat) (l : list conn) : option conn := find (fun c => Nat.eqb (k_id c) k) l.
Definition put_conn (c : conn) (l : list conn) : list conn :=
  map (fun x => if Nat.eqb (k_id x) (k_id c) then c else x) l.
Definition set_stage (s : st) (k : nat) (g : stage) : st :=
  match find_conn k (conns s) with
  | Some c => with_conns s (put_conn {| k_id := k; k_oid := k_oid c; k_stage := g; k_att := k_att c |} (conns s))
  | None => s
  end.

(* the connect() coroutine ends *)
Definition conn_finish (s : st) (k : nat) (r : cres) : st * list ev := (set_stage s k KDone, [EConnDone k r]).
(* target_endpoint.connect(...) is called, add_endpoint waits for the address *)
Definition conn_start (s : st) (k : nat) : st * list ev := (set_stage s k KStarted, [EStarted k]).

Definition fres_kind (f : fres) : N := match f with FOk => 0 | FClosedErr => 3 | FFailedErr => 2 end.

(* yield self._circuit.when_built() *)
Definition conn_when_built (s : st) (k : nat) (oid : nat) : st * list ev :=
  match nth_error (objs s) oid with
  | None => (with_oos s, [])
  | Some c =>
      if cstatus_eqb (c_st c) CBuilt then conn_start s k
      else match c_fired c with
           | Some FOk => conn_start s k
           | Some f => conn_finish s k (RFail (fres_kind f))
           | None =>
               let c' := {| c_id := c_id c; c_st := c_st c; c_fired := None; c_wait := c_wait c ++ [k] |} in
               (set_stage (with_objs s (set_nth oid c' (objs s))) k KWaitBuilt, [])
           end
  end.

(* attached_d fires *)
Definition att_fire (s : st) (k : nat) (r : cres) : st * list ev :=
  match find_conn k (conns s) with
  | Some c =>
      match k_stage c with
      | KWaitAtt => conn_finish s k r
      | KDone => (s, [])
      | _ => (with_conns s (put_conn {| k_id := k; k_oid := k_oid c; k_stage := k_stage c; k_att := Some r |} (conns s)), [])
      end
  | None => (s, [])
  end.

(* ---- issue_stream_attach ---- *)
Definition issue (s : st) (sid : N) (a : akind) : st * list ev :=
  match a with
  | AKDoNot => (s, [])
  | AKNone => send s (attach_line sid 0) KAttachCmd
  | AKNotCirc _ | AKRaise => (s, [EReported])          (* not isinstance(circ, Circuit), whatever its truth value *)
  | AKForeign =>
      match lookup 9000 (circs s) with
      | None => (s, [EReported])
      | Some _ => send s (attach_line sid 9000) KAttachCmd     (* the foreign object says BUILT *)
      end
  | AKCirc oid =>
      match nth_error (objs s) oid with
      | None => send s (attach_line sid 0) KAttachCmd          (* harness: no such object = None *)
      | Some c =>
          match lookup (c_id c) (circs s) with
          | None => (s, [EReported])
          | Some _ => if cstatus_eqb (c_st c) CBuilt then send s (attach_line sid (c_id c)) KAttachCmd
                      else (s, [EReported])
          end
      end
  end.

(* does attach_stream return the Python value None *)
Definition returns_none (s : st) (a : answer) : bool :=
  match a_mode a, a_kind a with
  | MPlain, AKNone => true
  | MPlain, AKCirc oid => match nth_error (objs s) oid with None => true | Some _ => false end
  | _, _ => false
  end.

(* what TorState does with the object attach_stream handed back *)
Definition take_answer (s : st) (sid : N) (a : answer) : st * list ev :=
  match a_mode a with
  | MLater => (with_pends s (pends s ++ [{| p_sid := sid; p_kind := a_kind a; p_fired := false |}]), [])
  | _ => issue s sid (a_kind a)
  end.

(* sorted(self._attacher_heap, key=lambda item: item[:2]): by (priority, counter); the counters are unique *)
Definition hlt (a b : hent) : bool := (h_prio a <? h_prio b) || ((h_prio a =? h_prio b) && (h_cnt a <? h_cnt b)).
Fixpoint insert_h (x : hent) (l : list hent) : list hent :=
  match l with
  | [] => [x]
  | y :: r => if hlt y x then y :: insert_h x r else x :: l
  end.
Definition sort_hents (l : list hent) : list hent := fold_right insert_h [] l.

(* PriorityAttacher.attach_stream: a sorted copy of the heap array, in order *)
Fixpoint prio_consult (s : st) (sid : N) (answers : list answer) (h : list hent) : list ev * option answer :=
  match h with
  | [] => ([], None)
  | e :: r =>
      match h_att e with
      | None => prio_consult s sid answers r
      | Some j =>
          let a := ans answers j in
          if returns_none s a then let '(es, w) := prio_consult s sid answers r in (EAsked j sid :: es, w)
          else ([EAsked j sid], Some a)
      end
  end.

(* dict assignment / pop on _circuit_targets *)
Definition key_eqb (a b : N * N) : bool := (fst a =? fst b) && (snd a =? snd b).
Definition table_get (k : N * N) (l : list ((N * N) * (nat * nat))) : option (nat * nat) :=
  match find (fun p => key_eqb (fst p) k) l with Some p => Some (snd p) | None => None end.
Definition table_del (k : N * N) (l : list ((N * N) * (nat * nat))) := filter (fun p => negb (key_eqb (fst p) k)) l.
Definition table_set (k : N * N) (v : nat * nat) (l : list ((N * N) * (nat * nat))) :=
  match table_get k l with
  | Some _ => map (fun p => if key_eqb (fst p) k then (k, v) else p) l
  | None => l ++ [(k, v)]
  end.

Definition then_ (r : st * list ev) (f : st -> st * list ev) : st * list ev :=
  let '(s1, e1) := r in let '(s2, e2) := f s1 in (s2, e1 ++ e2).

(* _CircuitAttacher.attach_stream; an unusable registered circuit answers TorState.DO_NOT_ATTACH *)
Definition circ_attach (s : st) (sid : N) (src : source) : st * list ev :=
  match src with
  | SrcIp ip port =>
      match table_get (ip, port) (table s) with
      | None => issue s sid AKNone
      | Some (oid, k) =>
          let s1 := with_table s (table_del (ip, port) (table s)) in
          match nth_error (objs s1) oid with
          | None => (with_oos s1, [])
          | Some c =>
              let fired := if cstatus_eqb (c_st c) CBuilt then Some FOk else c_fired c in
              match fired with
              | None => (with_oos s1, [])           (* would wait for the circuit; not reachable through connect() *)
              | Some FOk =>
                  if c_terminal (c_st c) then then_ (att_fire s1 k (RFail 1)) (fun s2 => issue s2 sid AKDoNot)
                  else then_ (att_fire s1 k ROk) (fun s2 => issue s2 sid (AKCirc oid))
              | Some f => then_ (att_fire s1 k (RFail (fres_kind f))) (fun s2 => issue s2 sid AKDoNot)
              end
          end
      end
  | _ => issue s sid AKNone
  end.

(* TorState._maybe_attach *)
Definition maybe_attach (s : st) (sid : N) (host : bytes) (src : source) (answers : list answer) : st * list ev :=
  match slot s with
  | None => (s, [])
  | Some v =>
      if ends_with (str ".exit") (lower host) then (s, []) else      (* target_host.lower().endswith('.exit') *)
      match v with
      | SCustom j => then_ (s, [EAsked j sid]) (fun s1 => take_answer s1 sid (ans answers j))
      | SPrio =>
          let '(es, w) := prio_consult s sid answers (sort_hents (heap s)) in
          then_ (s, es) (fun s1 => match w with Some a => take_answer s1 sid a | None => issue s1 sid AKNone end)
      | SCirc => circ_attach s sid src
      end
  end.

(* ---- heapq ---- *)
Fixpoint siftdown (fuel : nat) (h : list hent) (x : hent) (pos : nat) : list hent :=
  match fuel, pos with
  | S f, S p' =>
      let pp := Nat.div2 p' in
      match nth_error h pp with
      | Some p => if hlt x p then siftdown f (set_nth pos p h) x pp else set_nth pos x h
      | None => set_nth pos x h
      end
  | _, _ => set_nth pos x h
  end.
Definition heappush (h : list hent) (x : hent) : list hent :=
  siftdown (S (List.length h)) (h ++ [x]) x (List.length h).

Definition assoc_set (j : nat) (v : N) (l : list (nat * N)) : list (nat * N) :=
  if existsb (fun p => Nat.eqb (fst p) j) l then map (fun p => if Nat.eqb (fst p) j then (j, v) else p) l
  else l ++ [(j, v)].
Definition assoc_get (j : nat) (l : list (nat * N)) : option N :=
  match find (fun p => Nat.eqb (fst p) j) l with Some p => Some (snd p) | None => None end.

(* ---- SingleObserver.fire on Circuit._when_built ---- *)
Fixpoint run_waiters (s : st) (ks : list nat) (f : fres) : st * list ev :=
  match ks with
  | [] => (s, [])
  | k :: r =>
      then_ (match f with FOk => conn_start s k | _ => conn_finish s k (RFail (fres_kind f)) end)
            (fun s1 => run_waiters s1 r f)
  end.

Definition fire_built (s : st) (oid : nat) (f : fres) : st * list ev :=
  match nth_error (objs s) oid with
  | Some c =>
      match c_fired c with
      | Some _ => (s, [])
      | None =>
          let c' := {| c_id := c_id c; c_st := c_st c; c_fired := Some f; c_wait := [] |} in
          run_waiters (with_objs s (set_nth oid c' (objs s))) (c_wait c) f
      end
  | None => (s, [])
  end.

(* TorState._circuit_update *)
Definition op_circ (s : st) (cid : N) (stt : cstatus) : st * list ev :=
  let '(oid, s1) :=
    match lookup cid (circs s) with
    | Some oid => (oid, s)
    | None =>
        let oid := List.length (objs s) in
        (oid, with_circs (with_objs s (objs s ++ [{| c_id := cid; c_st := stt; c_fired := None; c_wait := [] |}]))
                         (circs s ++ [(cid, oid)]))
    end in
  let s2 := match nth_error (objs s1) oid with
            | Some c => with_objs s1 (set_nth oid {| c_id := c_id c; c_st := stt; c_fired := c_fired c; c_wait := c_wait c |} (objs s1))
            | None => s1
            end in
  match stt with
  | CBuilt => fire_built s2 oid FOk
  | CClosed => then_ (fire_built s2 oid FClosedErr) (fun s3 => (with_circs s3 (remove_key cid (circs s3)), []))
  | CFailed => then_ (fire_built s2 oid FFailedErr) (fun s3 => (with_circs s3 (remove_key cid (circs s3)), []))
  | _ => (s2, [])
  end.

(* TorState._stream_update *)
Definition op_stream (s : st) (sid : N) (stt : sstatus) (host : bytes) (src : source) (answers : list answer) : st * list ev :=
  if memN sid (strs s) then
    ((if s_terminal stt then with_strs s (filter (fun x => negb (x =? sid)) (strs s)) else s), [])
  else if s_terminal stt then (s, [])
  else maybe_attach (with_strs s (strs s ++ [sid])) sid host src answers.

Definition satt_eqb (a b : satt) : bool :=
  match a, b with
  | SCustom x, SCustom y => Nat.eqb x y
  | SPrio, SPrio | SCirc, SCirc => true
  | _, _ => false
  end.
Definition att_satt (a : att) : satt := match a with AttCustom j => SCustom j | AttPrio => SPrio end.

(* TorState.set_attacher *)
Definition op_setatt (s : st) (a : option att) : st * list ev :=
  match a with
  | None => send (with_slot s None) (leave_line 0) KNone
  | Some x =>
      match slot s with
      | Some v => if satt_eqb v (att_satt x) then (s, []) else (s, [ERaised 1])
      | None => send (with_slot s (Some (att_satt x))) (leave_line 1) KNone
      end
  end.

(* TorCircuitEndpoint.connect up to its first suspension *)
Definition op_connect (s : st) (k : nat) (oid : nat) : st * list ev :=
  match find_conn k (conns s) with
  | Some _ => (s, [])
  | None =>
      if negb (Nat.ltb oid (List.length (objs s))) then (s, []) else
      let s1 := with_conns s (conns s ++ [{| k_id := k; k_oid := oid; k_stage := KSetconf; k_att := None |}]) in
      if ca_made s1 then conn_when_built s1 k oid
      else
        let s2 := with_ca s1 in
        match slot s2 with
        | Some _ => conn_finish s2 k (RFail 1)                  (* set_attacher raises *)
        | None => send (with_slot s2 (Some SCirc)) (leave_line 1) (KConn k)
        end
  end.

Definition op_local (s : st) (k : nat) (ip port : N) : st * list ev :=
  match find_conn k (conns s) with
  | Some c =>
      match k_stage c with
      | KStarted => (set_stage (with_table s (table_set (ip, port) (k_oid c, k) (table s))) k KLocal, [])
      | _ => (s, [])
      end
  | None => (s, [])
  end.

Definition op_socks (s : st) (k : nat) (ok : bool) : st * list ev :=
  match find_conn k (conns s) with
  | Some c =>
      match k_stage c with
      | KLocal =>
          if ok then match k_att c with
                     | Some r => conn_finish s k r
                     | None => (set_stage s k KWaitAtt, [])
                     end
          else conn_finish s k (RFail 5)
      | _ => (s, [])
      end
  | None => (s, [])
  end.

(* _broadcast_response: the Deferred of the command in flight fires, then the next command is written *)
Definition op_reply (s : st) (ok : bool) : st * list ev :=
  match busy s with
  | None => (s, [])
  | Some c =>
      then_ (match c with
             | KNone => (s, [])
             | KAttachCmd => (s, if ok then [] else [EReported])
             | KConn k =>
                 if ok then match find_conn k (conns s) with
                            | Some cn => conn_when_built s k (k_oid cn)
                            | None => (s, [])
                            end
                 else conn_finish s k (RFail 4)
             end)
            (fun s1 => match queue s1 with
                       | [] => (with_chan s1 None [], [])
                       | (line, c') :: q => (with_chan s1 (Some c') q, [EWrote line])
                       end)
  end.

Fixpoint flush (fuel : nat) (s : st) : st * list ev :=
  match busy s, fuel with
  | None, _ => (s, [])
  | Some _, O => (with_oos s, [])
  | Some _, S f => then_ (op_reply s true) (flush f)
  end.

Definition op_fire (s : st) (n : nat) : st * list ev :=
  match nth_error (pends s) n with
  | Some p =>
      if p_fired p then (s, [])
      else issue (with_pends s (set_nth n {| p_sid := p_sid p; p_kind := p_kind p; p_fired := true |} (pends s)))
                 (p_sid p) (p_kind p)
  | None => (s, [])
  end.

Definition op_prioadd (s : st) (j : nat) (p : N) : st * list ev :=
  (with_prio s (heappush (heap s) {| h_prio := p; h_cnt := cnt s; h_att := Some j |}) (cnt s + 1)
             (assoc_set j (cnt s) (entry s)), []).

Definition op_priorm (s : st) (j : nat) : st * list ev :=
  match assoc_get j (entry s) with
  | None => (s, [ERaised 2])
  | Some c =>
      (with_prio s (map (fun e => if h_cnt e =? c then {| h_prio := h_prio e; h_cnt := h_cnt e; h_att := None |} else e) (heap s))
                 (cnt s) (filter (fun p => negb (Nat.eqb (fst p) j)) (entry s)), [])
  end.

Definition step (s : st) (o : op) : st * list ev :=
  match o with
  | OCirc cid stt => op_circ s cid stt
  | OStream sid stt _ host _ src answers => op_stream s sid stt host src answers
  | OFire n => op_fire s n
  | OSetAtt a => op_setatt s a
  | OPrioAdd j p => op_prioadd s j p
  | OPrioRemove j => op_priorm s j
  | OConnect k oid => op_connect s k oid
  | OLocal k ip port => op_local s k ip port
  | OSocks k ok => op_socks s k ok
  | OReply ok => op_reply s ok
  | OFlush => flush (S (List.length (queue s))) s
  end.

Fixpoint run_from (s : st) (ops : list op) : list (list ev) * st :=
  match ops with
  | [] => ([], s)
  | o :: r => let '(s1, es) := step s o in let '(tr, s2) := run_from s1 r in (es :: tr, s2)
  end.

Definition run (ops : list op) : list (list ev) := fst (run_from st0 ops).
Definition run_oos (ops : list op) : bool := oos (snd (run_from st0 ops)).
