(* Model of TorControlProtocol's authentication + bootstrap over the command channel
   (connectionMade, _do_authenticate, _read_cookie, _safecookie_authchallenge,
   _do_password_authentication, _bootstrap, _auth_failed; util.unescape_quoted_string,
   compare_via_hash).  One stimulus = one step; a reply is delivered to the single command in
   flight.  The order in which methods are tested, the lengths, the HMAC keys and the bootstrap
   sequence come from Gen/AuthConsts.v.  No proofs here. *)
From Coq Require Import List Bool Ascii Arith NArith Lia String.
From TxVerif Require Import Lib.Bytes Lib.Hex Spec.C04 Gen.AuthConsts.
Import ListNotations.
Open Scope N_scope.

Definition bs (x : string) : bytes := list_ascii_of_string x.
Definition omap {A B} (f : A -> B) (x : option A) : option B :=
  match x with Some a => Some (f a) | None => None end.

(* the file-name bytes that open() sees for an octal escape of value v (< 256): with
   PDLatin1Bytes (the code re-encodes the unescaped text latin-1) the byte itself; with
   PDCodePoints the UTF-8 encoding of the code point v *)
Definition pyenc (v : N) : bytes :=
  match cookie_path_decode with
  | PDLatin1Bytes => [ch v]
  | PDCodePoints => if v <? 128 then [ch v] else [ch (192 + v / 64); ch (128 + v mod 64)]
  end.
Definition octv (a : ascii) : option N :=
  let c := code a in if (48 <=? c) && (c <=? 55) then Some (c - 48) else None.

(* unescape_quoted_string on the text between the quotes, on the image of Tor's escaper
   (backslash + one of: backslash, double quote, n, t, r; or three octal digits); anything else: None = out of scope *)
Fixpoint unescape (t : bytes) : option bytes :=
  match t with
  | [] => Some []
  | x :: t1 =>
      if Ascii.eqb x BSL then
        match t1 with
        | [] => None
        | y :: t2 =>
            let c := code y in
            if c =? 110 then omap (cons LF) (unescape t2)
            else if c =? 116 then omap (cons TAB) (unescape t2)
            else if c =? 114 then omap (cons CR) (unescape t2)
            else if (c =? 92) || (c =? 34) then omap (cons y) (unescape t2)
            else match octv y, t2 with
                 | Some d1, y2 :: y3 :: t4 =>
                     match octv y2, octv y3 with
                     | Some d2, Some d3 =>
                         if d1 <=? 3 then omap (app (pyenc (64 * d1 + 8 * d2 + d3))) (unescape t4)
                         else None
                     | _, _ => None
                     end
                 | _, _ => None
                 end
        end
      else if Ascii.eqb x DQ then None
      else omap (cons x) (unescape t1)
  end.

Inductive phase :=
| PhProto                     (* PROTOCOLINFO in flight *)
| PhChal (cookie : bytes)     (* AUTHCHALLENGE in flight *)
| PhPw                        (* waiting for the provider's Deferred *)
| PhAuth                      (* AUTHENTICATE in flight *)
| PhBoot (k : nat)            (* k-th bootstrap command in flight *)
| PhIdle.                     (* nothing in flight: post_bootstrap has fired *)

Record st := { ph : phase; lost : bool }.
Definition res := (phase * list ev)%type.

Definition line (b : bytes) : ev := EWrote (b ++ [CR; LF]).
Definition fail (k c : N) : res := (PhIdle, [EReady (RFail k c)]).

Inductive cres := CRaise | COut | CAuthNo | CAuthYes (d : bytes).

Section Model.
  Variable hmac : bytes -> bytes -> bytes.
  Variable e : env.

  Definition has (name : string) : bool := existsb (beqb (bs name)) (pi_methods (e_pi e)).
  Definition provider_set : bool := match e_provider e with PNone => false | _ => true end.
  Definition is_cookie_kind (k : akind) := match k with AKSafe | AKCookie => true | _ => false end.
  Definition is_pw_kind (k : akind) := match k with AKPassword => true | _ => false end.
  Definition any_of (f : akind -> bool) : bool :=
    existsb (fun p => f (fst p) && has (snd p)) auth_order.

  (* the COOKIEFILE block of _do_authenticate *)
  Definition read_cookie : cres :=
    if any_of is_cookie_kind then
      match pi_cookiefile (e_pi e) with
      | None => CRaise
      | Some p =>
          match unescape (esc_for_log p) with
          | None => COut
          | Some path =>
              match lookup path (e_fs e) with
              | FData d => if nlen d =? cookie_len then CAuthYes d else CRaise
              | _ => if provider_set && any_of is_pw_kind then CAuthNo else CRaise
              end
          end
      end
    else CAuthNo.

  Fixpoint select (order : list (akind * string)) (cookie : bool) : option akind :=
    match order with
    | [] => None
    | (k, name) :: r =>
        let hit := match k with
                   | AKSafe | AKCookie => cookie && has name
                   | AKPassword => provider_set && has name
                   | AKNull => has name
                   end in
        if hit then Some k else select r cookie
    end.

  Definition auth_line (arg : bytes) : ev := line (bs "AUTHENTICATE " ++ hex_lower arg).

  (* _do_password_authentication *)
  Definition do_password (pw : option bytes) (is_lost : bool) : res :=
    match pw with
    | None | Some [] => fail 1 0
    | Some p => if is_lost then fail 3 0 else (PhAuth, [auth_line p])
    end.

  Definition do_authenticate : option res :=
    if negb (pi_auth (e_pi e)) then Some (fail 1 0) else
    match read_cookie with
    | COut => None
    | CRaise => Some (fail 1 0)
    | c =>
        let cookie := match c with CAuthYes d => d | _ => [] end in
        match select auth_order (match c with CAuthYes _ => true | _ => false end) with
        | Some AKSafe =>
            let n := firstn (N.to_nat nonce_len) (e_nonce e) in
            Some (PhChal cookie, [line (bs "AUTHCHALLENGE SAFECOOKIE " ++ hex_lower n)])
        | Some AKCookie => Some (PhAuth, [auth_line cookie])
        | Some AKPassword =>
            let '(p, evs) :=
              match e_provider e with
              | PValue pw | PCoro pw => do_password (Some pw) false
              | PLater _ => (PhPw, [])
              | _ => do_password None false
              end in
            Some (p, EPwCall :: evs)
        | Some AKNull => Some (PhAuth, [line (bs "AUTHENTICATE")])
        | None => Some (fail 1 0)
        end
    end.

  (* _safecookie_authchallenge *)
  Definition do_challenge (cookie : bytes) (c : challenge) : res :=
    match ch_hash c with
    | None => fail 4 0
    | Some ht =>
        match b16decode ht with
        | None => fail 5 0
        | Some sh =>
            match ch_nonce c with
            | None => fail 4 0
            | Some nt =>
                match b16decode nt with
                | None => fail 5 0
                | Some sn =>
                    let n := firstn (N.to_nat nonce_len) (e_nonce e) in
                    let msg := cookie ++ n ++ sn in
                    let expected := hmac (bs server_key) msg in
                    if beqb (hmac (e_cmpkey e) expected) (hmac (e_cmpkey e) sh)
                    then (PhAuth, [line (bs "AUTHENTICATE " ++ hex_upper (hmac (bs client_key) msg))])
                    else fail 1 0
                end
            end
        end
    end.

  (* _bootstrap: issue the k-th command, or finish *)
  Definition start_boot (k : nat) : res :=
    match nth_error bootstrap_seq k with
    | Some (c, _, _) => (PhBoot k, [line (bs c)])
    | None => (PhIdle, [EReady ROk])
    end.
End Model.

Section Run.
  Variable hmac : bytes -> bytes -> bytes.
  Variable e : env.

  Definition in_flight (p : phase) : bool :=
    match p with PhProto | PhChal _ | PhAuth | PhBoot _ => true | _ => false end.

  (* a 250 / 5xx reply to the command in flight *)
  Definition on_reply (p : phase) (o : op) : option res :=
    match p, o with
    | PhProto, OOk DProto => do_authenticate e
    | PhProto, OOk _ => Some (fail 1 0)            (* no AUTH line in the text *)
    | PhChal cookie, OOk (DChal c) => Some (do_challenge hmac e cookie c)
    | PhChal _, OOk _ => Some (fail 4 0)           (* kw['SERVERHASH'] *)
    | PhAuth, OOk _ => Some (start_boot 0)
    | PhBoot k, OOk d =>
        match nth_error bootstrap_seq k with
        | Some (_, key, _) =>
            match key with
            | EmptyString => Some (start_boot (S k))
            | _ => match d with
                   | DInfo k' => if beqb (bs key) k' then Some (start_boot (S k)) else Some (fail 4 0)
                   | _ => Some (fail 4 0)
                   end
            end
        | None => None
        end
    | PhBoot k, OErr c =>
        match nth_error bootstrap_seq k with
        | Some (_, _, true) => Some (start_boot (S k))
        | Some (_, _, false) => Some (fail 2 c)
        | None => None
        end
    | (PhProto | PhChal _ | PhAuth), OErr c => Some (fail 2 c)
    | _, _ => None
    end.

  (* None = outside the modelled envelope *)
  Definition step (s : st) (o : op) : option (st * list ev) :=
    match o with
    | OLose =>
        if lost s then None else
        if in_flight (ph s) then Some ({| ph := PhIdle; lost := true |}, [EReady (RFail 3 0)])
        else Some ({| ph := ph s; lost := true |}, [])
    | OPwFire =>
        match ph s, e_provider e with
        | PhPw, PLater pw =>
            let '(p, evs) := do_password pw (lost s) in Some ({| ph := p; lost := lost s |}, evs)
        | _, _ => None
        end
    | OErr c =>
        if lost s || negb (in_flight (ph s)) || negb ((500 <=? c) && (c <=? 599)) then None else
        match on_reply (ph s) o with
        | Some (p, evs) => Some ({| ph := p; lost := false |}, evs)
        | None => None
        end
    | OOk _ =>
        if lost s || negb (in_flight (ph s)) then None else
        match on_reply (ph s) o with
        | Some (p, evs) => Some ({| ph := p; lost := false |}, evs)
        | None => None
        end
    end.

  Fixpoint run_ops (s : st) (ops : list op) : option (list (list ev)) :=
    match ops with
    | [] => Some []
    | o :: ops' =>
        match step s o with
        | Some (s', evs) => omap (cons evs) (run_ops s' ops')
        | None => None
        end
    end.

  (* connectionMade, then the operations *)
  Definition run (ops : list op) : option (list (list ev)) :=
    omap (cons [line (bs protocolinfo_cmd)]) (run_ops {| ph := PhProto; lost := false |} ops).
End Run.
