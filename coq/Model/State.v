(* Model of txtorcon's live replica of Tor's circuits and streams:
     TorState._circuit_update/_stream_update/_circuit_status/_stream_status/_maybe_create_circuit,
     TorState.circuit_new/circuit_launched/circuit_destroy/stream_closed/stream_failed/router_from_id,
     Circuit.update/update_path, Stream.update.
   Python objects are heap cells named by allocation-order numbers (separately for Circuit and Stream
   objects); TorState.circuits / TorState.streams are insertion-ordered dicts id -> cell number;
   Stream.circuit holds a cell number; Circuit.streams is a list of cell numbers.  A Circuit object that
   left TorState.circuits stays in the heap (a Stream may still point to it).
   A step returns None where the Python raises (KeyError from find_circuit, ValueError from
   list.remove): outside the modelled envelope.  No proofs in this file. *)
From Coq Require Import List Bool Arith NArith Lia.
From TxVerif Require Import Lib.NList Spec.C07.
Import ListNotations.
Open Scope N_scope.

Record ccell := { c_oid : N; c_id : N; c_state : option cstatus; c_purpose : option N; c_bflags : list N;
                  c_flags : kws; c_path : list (N * N); c_streams : list N }.
Record scell := { s_oid : N; s_id : N; s_state : option sstatus; s_host : option N; s_port : N;
                  s_addr : option N; s_src : option N; s_sport : N; s_circ : option N }.

(* routers: TorState.routers restricted to the $HEX keys: relay number -> nickname code *)
Record mstate := { cheap : list ccell; sheap : list scell;
                   circuits : list (N * N); streams : list (N * N);
                   routers : list (N * N) }.

Definition new_ccell (oid id : N) : ccell :=
  {| c_oid := oid; c_id := id; c_state := None; c_purpose := None; c_bflags := []; c_flags := []; c_path := [];
     c_streams := [] |}.
Definition new_scell (oid id : N) : scell :=
  {| s_oid := oid; s_id := id; s_state := None; s_host := None; s_port := 0; s_addr := None; s_src := None;
     s_sport := 0; s_circ := None |}.

Definition set_streams (c : ccell) (l : list N) : ccell :=
  {| c_oid := c_oid c; c_id := c_id c; c_state := c_state c; c_purpose := c_purpose c; c_bflags := c_bflags c;
     c_flags := c_flags c; c_path := c_path c; c_streams := l |}.
Definition set_circ (s : scell) (x : option N) : scell :=
  {| s_oid := s_oid s; s_id := s_id s; s_state := s_state s; s_host := s_host s; s_port := s_port s;
     s_addr := s_addr s; s_src := s_src s; s_sport := s_sport s; s_circ := x |}.

Definition get_c (oid : N) (s : mstate) : option ccell := kfind c_oid oid (cheap s).
Definition get_s (oid : N) (s : mstate) : option scell := kfind s_oid oid (sheap s).

Definition with_cheap (s : mstate) (h : list ccell) : mstate :=
  {| cheap := h; sheap := sheap s; circuits := circuits s; streams := streams s; routers := routers s |}.
Definition with_sheap (s : mstate) (h : list scell) : mstate :=
  {| cheap := cheap s; sheap := h; circuits := circuits s; streams := streams s; routers := routers s |}.
Definition with_circuits (s : mstate) (d : list (N * N)) : mstate :=
  {| cheap := cheap s; sheap := sheap s; circuits := d; streams := streams s; routers := routers s |}.
Definition with_streams (s : mstate) (d : list (N * N)) : mstate :=
  {| cheap := cheap s; sheap := sheap s; circuits := circuits s; streams := d; routers := routers s |}.
Definition with_routers (s : mstate) (r : list (N * N)) : mstate :=
  {| cheap := cheap s; sheap := sheap s; circuits := circuits s; streams := streams s; routers := r |}.

Definition put_c (c : ccell) (s : mstate) : mstate := with_cheap s (kset c_oid c (cheap s)).
Definition put_s (x : scell) (s : mstate) : mstate := with_sheap s (kset s_oid x (sheap s)).

(* TorState.router_from_id for a "$HEX..." LongName: a relay that is not known is created from the
   LongName (nickname = the text after the separator, '' if none) and remembered *)
Fixpoint resolve_path (rt : list (N * N)) (path : list hop) : list (N * N) * list (N * N) :=
  match path with
  | [] => (rt, [])
  | h :: t =>
      let '(rt1, name) := match kfind fst (h_rid h) rt with
                          | Some (_, n) => (rt, n)
                          | None => (rt ++ [(h_rid h, h_nick h)], h_nick h)
                          end in
      let '(rt2, rest) := resolve_path rt1 t in
      (rt2, (h_rid h, name) :: rest)
  end.

(* ---- TorState._circuit_update(line) ---- *)
(* _maybe_create_circuit; the first Circuit.update (`self.id is None`) notifies circuit_new and TorState puts
   the object into TorState.circuits *)
Definition ensure_circ (s : mstate) (id : N) : mstate * N :=
  match kfind fst id (circuits s) with
  | Some p => (s, snd p)
  | None => let oid := N.of_nat (length (cheap s)) in
            (with_circuits (with_cheap s (cheap s ++ [new_ccell oid id])) (circuits s ++ [(id, oid)]), oid)
  end.

(* Circuit.update: state, flags, purpose, build_flags, path *)
Definition upd_circ (rt : list (N * N)) (c : ccell) (st : cstatus) (path : list hop) (kw : kws)
  : list (N * N) * ccell :=
  let purpose := match kw_get K_PURPOSE kw with Some p => Some p | None => c_purpose c end in
  let bflags := match kw_get K_BUILD_FLAGS kw with Some v => build_flags_of v | None => c_bflags c end in
  (* LAUNCHED: path = []; FAILED/CLOSED: path untouched; otherwise update_path(args[2].split(','))
     when there is anything after the status (a keyword in that position stops the loop at once) *)
  let '(rt', newpath) :=
    match st with
    | CLaunched => (rt, [])
    | CFailed | CClosed => (rt, c_path c)
    | _ => match path, kw with
           | [], [] => (rt, c_path c)
           | _, _ => resolve_path rt path
           end
    end in
  (rt', {| c_oid := c_oid c; c_id := c_id c; c_state := Some st; c_purpose := purpose; c_bflags := bflags;
           c_flags := kw; c_path := newpath; c_streams := c_streams c |}).

Definition circ_event (s : mstate) (id : N) (st : cstatus) (path : list hop) (kw : kws) : option mstate :=
  let '(s1, oid) := ensure_circ s id in
  match get_c oid s1 with
  | None => None
  | Some c =>
      let '(rt, c') := upd_circ (routers s1) c st path kw in
      let s2 := with_routers (put_c c' s1) rt in
      (* circuit_launched: circuits[id] = c (already there); circuit_closed/failed -> circuit_destroy: del *)
      Some (if c_terminal st then with_circuits s2 (kdel fst id (circuits s2)) else s2)
  end.

(* `self.circuit.streams.remove(self)`: ValueError when absent *)
Definition unlist (s : mstate) (coid soid : N) : option mstate :=
  match get_c coid s with
  | Some c => if memN soid (c_streams c) then Some (put_c (set_streams c (remove1 soid (c_streams c))) s) else None
  | None => None
  end.

(* ---- TorState._stream_update(line) ---- *)
Definition ensure_stream (s : mstate) (id : N) : mstate * N :=
  match kfind fst id (streams s) with
  | Some p => (s, snd p)
  | None => let oid := N.of_nat (length (sheap s)) in
            (with_streams (with_sheap s (sheap s ++ [new_scell oid id])) (streams s ++ [(id, oid)]), oid)
  end.

(* Stream.update up to the per-state branch: source address, state, target, REMAP address *)
Definition upd_stream (x : scell) (st : sstatus) (host port : N) (kw : kws) : scell :=
  let '(src, sport) := match kw_get K_SOURCE_ADDR kw with
                       | Some v => (Some (v / 65536), v mod 65536)
                       | None => (s_src x, s_sport x)
                       end in
  let '(h, p) := match s_host x with
                 | None => (Some host, port)     (* either of the two places that set the target *)
                 | Some _ => (s_host x, s_port x)
                 end in
  let addr := match st with SRemap => Some host | _ => s_addr x end in
  {| s_oid := s_oid x; s_id := s_id x; s_state := Some st; s_host := h; s_port := p; s_addr := addr;
     s_src := src; s_sport := sport; s_circ := s_circ x |}.

(* CLOSED / FAILED / DETACHED: `if self.circuit: self.circuit.streams.remove(self)`; `self.circuit = None` *)
Definition detach (s : mstate) (soid : N) : option mstate :=
  match get_s soid s with
  | None => None
  | Some x =>
      match s_circ x with
      | None => Some s
      | Some coid => match unlist s coid soid with
                     | Some s' => Some (put_s (set_circ x None) s')
                     | None => None
                     end
      end
  end.

(* circuit id 0 in another state: `if self.circuit and self in self.circuit.streams: remove`; `circuit = None` *)
Definition detach_soft (s : mstate) (soid : N) : option mstate :=
  match get_s soid s with
  | None => None
  | Some x =>
      match s_circ x with
      | None => Some s
      | Some coid =>
          match get_c coid s with
          | Some c => Some (put_s (set_circ x None)
                              (if memN soid (c_streams c)
                               then put_c (set_streams c (remove1 soid (c_streams c))) s else s))
          | None => None
          end
      end
  end.

(* a non-zero circuit id: attach when not on a circuit (find_circuit: KeyError when unknown; append unless
   already listed); when already on a circuit a differing id is only logged *)
Definition attach (s : mstate) (soid cid : N) : option mstate :=
  match get_s soid s with
  | None => None
  | Some x =>
      match s_circ x with
      | Some _ => Some s
      | None =>
          match kfind fst cid (circuits s) with
          | Some p =>
              match get_c (snd p) s with
              | Some c => Some (put_s (set_circ x (Some (snd p)))
                                  (if memN soid (c_streams c) then s
                                   else put_c (set_streams c (c_streams c ++ [soid])) s))
              | None => None
              end
          | None => None
          end
      end
  end.

Definition stream_event (s : mstate) (id : N) (st : sstatus) (cid host port : N) (kw : kws) : option mstate :=
  let '(s1, soid) := ensure_stream s id in
  match get_s soid s1 with
  | None => None
  | Some x =>
      let s2 := put_s (upd_stream x st host port kw) s1 in
      match st with
      | SClosed | SFailed =>
          (* listeners: TorState.stream_closed / stream_failed -> del streams[id] *)
          match detach s2 soid with
          | Some s3 => Some (with_streams s3 (kdel fst id (streams s3)))
          | None => None
          end
      | SDetached => detach s2 soid
      | _ => if cid =? 0 then detach_soft s2 soid else attach s2 soid cid
      end
  end.

Definition step (s : mstate) (e : event) : option mstate :=
  match e with
  | ECirc id st path kw => circ_event s id st path kw
  | EStream id st cid host port kw => stream_event s id st cid host port kw
  end.

(* ---- what the harness reads after each event ---- *)
Definition obs_circ (c : ccell) : cobs :=
  {| co_oid := c_oid c; co_id := c_id c; co_status := c_state c; co_purpose := c_purpose c; co_bflags := c_bflags c;
     co_flags := c_flags c; co_path := c_path c |}.
Definition obs_stream (x : scell) : sobs :=
  {| so_oid := s_oid x; so_id := s_id x; so_status := s_state x; so_host := s_host x; so_port := s_port x;
     so_addr := s_addr x; so_src := s_src x; so_sport := s_sport x; so_circ := s_circ x |}.

Definition live_circs (s : mstate) : list ccell :=
  concat (map (fun p => match get_c (snd p) s with Some c => [c] | None => [] end) (circuits s)).
Definition live_streams (s : mstate) : list scell :=
  concat (map (fun p => match get_s (snd p) s with Some x => [x] | None => [] end) (streams s)).
(* Circuit objects still listed in TorState.circuits, and those that still list a stream *)
Definition keep_cell (s : mstate) (c : ccell) : bool :=
  memN (c_oid c) (map snd (circuits s)) || match c_streams c with [] => false | _ => true end.
Definition heap_obs (s : mstate) : list (N * list N) :=
  map (fun c => (c_oid c, c_streams c)) (filter (keep_cell s) (cheap s)).

Definition observe (s : mstate) : obs :=
  {| o_raised := 0; o_circs := map obs_circ (live_circs s); o_streams := map obs_stream (live_streams s);
     o_heap := heap_obs s |}.

Definition init (consensus : list (N * N)) : mstate :=
  {| cheap := []; sheap := []; circuits := []; streams := []; routers := consensus |}.

Fixpoint steps (s : mstate) (evs : list event) : option mstate :=
  match evs with
  | [] => Some s
  | e :: t => match step s e with Some s' => steps s' t | None => None end
  end.

Fixpoint run_from (s : mstate) (evs : list event) : option (list obs) :=
  match evs with
  | [] => Some []
  | e :: t => match step s e with
              | Some s' => option_map (cons (observe s')) (run_from s' t)
              | None => None
              end
  end.

(* the bootstrap processes the whole snapshot, then every event is followed by an observation *)
Definition run (consensus : list (N * N)) (snap evs : list event) : option (list obs) :=
  match steps (init consensus) snap with
  | Some s => option_map (cons (observe s)) (run_from s evs)
  | None => None
  end.

(* ---- build_circuit() and Tor's answer (TorState.build_circuit, _find_circuit_after_extend) ----
   _find_circuit_after_extend("EXTENDED id") is _maybe_create_circuit(int(id)) followed by
   Circuit.update([str(id), 'EXTENDED']): the same two calls _circuit_update makes for the line "id EXTENDED" *)
Definition step2 (s : mstate) (st : stim) : option mstate :=
  match st with
  | SEv e => step s e
  | SExtended id => step s (ext_event id)
  | SBuild _ | SBuildErr => Some s
  end.

Definition extra2 (s' : mstate) (b : bstate) (st : stim) : extra :=
  match st with
  | SEv _ => []
  | SBuild rs => (0, N.of_nat (length rs)) :: map (fun r => (3, r)) rs
  | SExtended id => match kfind fst id (circuits s') with
                    | Some p => [(1, snd p); (4, b_req b - b_pend b)]
                    | None => []
                    end
  | SBuildErr => [(2, b_req b - b_pend b)]
  end.

Fixpoint run2_from (s : mstate) (b : bstate) (l : list stim) : option (list (obs * extra)) :=
  match l with
  | [] => Some []
  | st :: t => match step2 s st with
               | Some s' => option_map (cons (observe s', extra2 s' b st)) (run2_from s' (stim_b b st) t)
               | None => None
               end
  end.

Definition run2 (consensus : list (N * N)) (snap : list event) (l : list stim) : option (list (obs * extra)) :=
  match steps (init consensus) snap with
  | Some s => option_map (cons (observe s, [])) (run2_from s b0 l)
  | None => None
  end.
