(* Model of txtorcon.onion: _validate_ports, _validate_ports_low_level, _validate_single_port_string,
   AuthBasic, EphemeralOnionService / EphemeralAuthenticatedOnionService .create and .remove,
   _add_ephemeral_service (command assembly, reply handling), as driven by harness/drive_C14.py:
   create, then Tor's answer, then (plain services) one confirmed descriptor upload, then remove.
   Contains no proofs. *)
From Coq Require Import String.
From Coq Require Import List Bool Ascii NArith.
From TxVerif Require Import Lib.Bytes Lib.Split Lib.Decimal Lib.PyStr Gen.OnionTable Spec.C14.
Import ListNotations.
Open Scope N_scope.

Inductive res (A : Type) := Ok (a : A) | Err (kind : N) | Out.
Arguments Ok {A} a.
Arguments Err {A} kind.
Arguments Out {A}.

Definition G (l : list N) : bytes := map ch l.

(* int(s) for a str: Ok (Some n) | Ok None = ValueError | Out = a spelling this model does not cover
   (sign, underscores, surrounding whitespace, non-ASCII digits) *)
Definition int_maybe_char (c : ascii) : bool :=
  is_digit c || Ascii.eqb c PLUS || Ascii.eqb c DASH || Ascii.eqb c (ch 95) || py_isspace c || (128 <=? code c).
Definition py_int (s : bytes) : res (option N) :=
  match parse_dec s with
  | Some n => Ok (Some n)
  | None => match s with
            | [] => Ok None
            | _ => if existsb (fun c => negb (int_maybe_char c)) s then Ok None else Out
            end
  end.

Definition ValueError : N := 1.
Definition RuntimeError : N := 2.
Definition TorProtocolError : N := 3.

(* _validate_single_port_string(port); is_local = _is_non_public_numeric_address(ip) *)
Definition validate_single (port : bytes) (is_local : bool) : res unit :=
  if negb (memb SP port) then Err ValueError else
  match split_all SP port with
  | [external; internal] =>
      match py_int external with
      | Out => Out
      | Err k => Err k
      | Ok None => Err ValueError
      | Ok (Some _) =>
          if negb (memb COLON internal) then Err ValueError
          else if prefixb (lit "unix:") internal then Ok tt
          else match split_all COLON internal with
               | [ip; localport] => if negb (beqb ip (lit "localhost")) && negb is_local then Err ValueError else Ok tt
               | _ => Err ValueError          (* too many values to unpack *)
               end
      end
  | _ => Err ValueError
  end.

(* one entry of _validate_ports: the processed string, with the locality of its address part *)
Definition process_port (p : preq) (free : list N) : res (bytes * bool * list N) :=
  match p with
  | PPair r l =>
      let remote := match r with NInt n => Ok (Some n) | NStr s => py_int s end in
      match remote with
      | Out => Out
      | Err k => Err k
      | Ok None => Err ValueError
      | Ok (Some rn) =>
          let direct m := Ok (dec_of_N rn ++ SP :: lit "127.0.0.1:" ++ dec_of_N m, true, free) in
          match l with
          | LInt m => direct m
          | LText t is_local =>
              match py_int t with
              | Out => Out
              | Err k => Err k
              | Ok (Some m) => direct m
              | Ok None =>
                  let keep := Ok (dec_of_N rn ++ SP :: t, is_local, free) in
                  if prefixb (lit "unix:/") t then keep
                  else if negb (memb COLON t) then Err ValueError
                  else match split_all COLON t with
                       | [_; _] => keep                 (* a non-local address is only logged here *)
                       | _ => Err ValueError
                       end
              end
          end
      end
  | PStr s is_local =>
      match validate_single s is_local with
      | Ok _ => Ok (s, is_local, free)
      | Err k => Err k
      | Out => Out
      end
  | PInt n =>
      match free with
      | f :: free' => Ok (dec_of_N n ++ SP :: lit "127.0.0.1:" ++ dec_of_N f, true, free')
      | [] => Out
      end
  end.

Fixpoint validate_ports (ps : list preq) (free : list N) : res (list (bytes * bool)) :=
  match ps with
  | [] => Ok []
  | p :: ps' =>
      match process_port p free with
      | Ok (s, loc, free') =>
          match validate_ports ps' free' with
          | Ok r => Ok ((s, loc) :: r)
          | Err k => Err k
          | Out => Out
          end
      | Err k => Err k
      | Out => Out
      end
  end.

(* _validate_ports_low_level on the processed strings (the constructor) *)
Fixpoint validate_low (ps : list (bytes * bool)) : res unit :=
  match ps with
  | [] => Ok tt
  | (s, loc) :: ps' => match validate_single s loc with Ok _ => validate_low ps' | Err k => Err k | Out => Out end
  end.

(* dict[key] = value *)
Fixpoint assoc_set {V} (k : bytes) (v : V) (d : list (bytes * V)) : list (bytes * V) :=
  match d with
  | [] => [(k, v)]
  | (k', v') :: r => if beqb k k' then (k, v) :: r else (k', v') :: assoc_set k v r
  end.
Fixpoint assoc_get {V} (k : bytes) (d : list (bytes * V)) : option V :=
  match d with
  | [] => None
  | (k', v') :: r => if beqb k k' then Some v' else assoc_get k r
  end.

(* AuthBasic(clients) *)
Definition auth_dict (cl : list (bytes * option bytes)) : res (list (bytes * option bytes)) :=
  let d := fold_left (fun d c => assoc_set (fst c) (snd c) d) cl [] in
  if existsb (fun c => memb SP (fst c)) d then Err ValueError else Ok d.

Record svc := { v_host : option bytes; v_key : keyst; v_clients : list (bytes * bytes) }.
Definition snap (s : svc) : ev := ESnap (v_host s) (v_key s) (v_clients s).

(* the key as stored by _add_ephemeral_service before the command is built *)
Definition normalise_key (version : N) (k : keyreq) : keyst :=
  match k with
  | KNone => KSNone
  | KDiscard => KSDiscard
  | KText s =>
      if memb COLON s then KSText s
      else if version =? 2 then (if prefixb (G ao_prefix_v2) s then KSText s else KSText (G ao_prefix_v2 ++ s))
      else if version =? 3 then (if prefixb (G ao_prefix_v3) s then KSText s else KSText (G ao_prefix_v3 ++ s))
      else KSText s
  end.

Definition keystring (version : N) (k : keyst) : bytes :=
  match k with
  | KSText s => s
  | _ => if version =? 3 then G ao_new_v3 else G ao_new_v2
  end.

Definition flags_of (q : request) (k : keyst) : list bytes :=
  (if q_detach q then [G ao_flag_detach] else []) ++
  (match k with KSDiscard => [G ao_flag_discard] | _ => [] end) ++
  (match q_auth q with Some _ => [G ao_flag_auth] | None => [] end) ++
  (if q_single q then [G ao_flag_single] else []).

Definition port_arg (p : bytes) : res bytes :=
  match split_first SP p with
  | Some (a, b) => Ok (G ao_port_pre ++ a ++ G ao_port_mid ++ b)
  | None => Out
  end.

Fixpoint port_args (ps : list (bytes * bool)) : res bytes :=
  match ps with
  | [] => Ok []
  | (p, _) :: ps' =>
      match port_arg p with
      | Ok a => match port_args ps' with Ok r => Ok (a ++ r) | Err k => Err k | Out => Out end
      | Err k => Err k
      | Out => Out
      end
  end.

Definition client_args (d : list (bytes * option bytes)) : bytes :=
  flat_map (fun c => match snd c with
                     | None => G ao_client_pre ++ fst c
                     | Some t => G ao_client_pre ++ fst c ++ G ao_client_mid ++ t
                     end) d.

Definition build_cmd (q : request) (ks : bytes) (k : keyst) (ports : list (bytes * bool))
                     (d : option (list (bytes * option bytes))) : res bytes :=
  match port_args ports with
  | Ok pa =>
      let flags := flags_of q k in
      Ok (G ao_cmd ++ ks ++ pa
          ++ (match flags with [] => [] | _ => G ao_flags_pre ++ join (G ao_flags_sep) flags end)
          ++ match d with Some d => client_args d | None => [] end)
  | Err k => Err k
  | Out => Out
  end.

(* state after create(): nothing registered, or the service and whether ADD_ONION is outstanding *)
Inductive cstate := CNone | CSvc (s : svc) (pending : bool).

(* AuthBasic(..), _validate_ports, the constructor's _validate_ports_low_level *)
Definition prepare (q : request) : res (option (list (bytes * option bytes)) * list (bytes * bool)) :=
  if negb ((q_version q =? 2) || (q_version q =? 3)) then Out else
  if match q_key q with KText [] => true | _ => false end then Out else
  match match q_auth q with
        | Some cl => match auth_dict cl with Ok d => Ok (Some d) | Err k => Err k | Out => Out end
        | None => Ok None
        end with
  | Out => Out
  | Err k => Err k
  | Ok d =>
      match validate_ports (q_ports q) (q_free q) with
      | Out => Out
      | Err k => Err k
      | Ok ports =>
          match validate_low ports with
          | Out => Out
          | Err k => Err k
          | Ok _ => Ok (d, ports)
          end
      end
  end.

(* the clients that came with a token are known as soon as the command is built *)
Definition init_clients (d : option (list (bytes * option bytes))) : list (bytes * bytes) :=
  match d with
  | Some d => fold_left (fun acc c => match snd c with Some t => assoc_set (fst c) t acc | None => acc end) d []
  | None => []
  end.

(* phase 1: AuthBasic(..) and create(..) *)
Definition phase_create (q : request) : res (list ev * cstate) :=
  match prepare q with
  | Out => Out
  | Err k => Ok ([EFailed k; ENoService], CNone)
  | Ok (d, ports) =>
      let k := normalise_key (q_version q) (q_key q) in
      let ks := keystring (q_version q) k in
      let s0 := {| v_host := None; v_key := k; v_clients := [] |} in
      if (q_version q =? 3) && negb (infixb (G ao_v3_marker) ks) then Ok ([EFailed ValueError; snap s0], CSvc s0 false)
      else if existsb (fun c => memb (ch c) ks) ao_key_forbidden then Ok ([EFailed ValueError; snap s0], CSvc s0 false)
      else match build_cmd q ks k ports d with
           | Out => Out
           | Err e => Ok ([EFailed e; snap s0], CSvc s0 false)
           | Ok cmd =>
               (* clients that came with a token were added while the command was assembled *)
               let s1 := {| v_host := None; v_key := k; v_clients := init_clients d |} in
               if existsb (fun c => memb (ch c) cmd) ao_cmd_forbidden then Ok ([EFailed ValueError; snap s1], CSvc s1 false)
               else Ok ([ECmd cmd; snap s1], CSvc s1 true)
           end
  end.

(* find_keywords(lines) *)
Definition keywords (ls : list bytes) : list (bytes * bytes) :=
  fold_left (fun d l => match split_first EQC l with
                        | Some (k, v) => if prefixb [ch 36] k then d else assoc_set k v d
                        | None => d
                        end) ls [].

(* the ClientAuth= lines of the answer; None = a line without a colon (ValueError) *)
Fixpoint add_reply_clients (ls : list bytes) (cl : list (bytes * bytes)) : option (list (bytes * bytes)) :=
  match ls with
  | [] => Some cl
  | l :: ls' =>
      if prefixb (G ao_reply_client) l then
        match split_first COLON (skipn (List.length (G ao_reply_client)) l) with
        | Some (n, b) => add_reply_clients ls' (assoc_set n b cl)
        | None => None
        end
      else add_reply_clients ls' cl
  end.

(* phase 2: the answer to ADD_ONION *)
Definition phase_reply (q : request) (rp : reply) (s : svc) : res (list ev * svc * bool (* still waiting *)) :=
  match rp with
  | RError => Ok ([EFailed TorProtocolError; snap s], s, false)
  | RLines ls =>
      if existsb (memb LF) ls then Out else
      let kw := keywords ls in
      match assoc_get (G ao_reply_sid) kw with
      | None => Ok ([EFailed RuntimeError; snap s], s, false)
      | Some sid =>
          let s1 := {| v_host := Some (sid ++ G ao_onion_suffix); v_key := v_key s; v_clients := v_clients s |} in
          let keyed : option svc :=
            match v_key s with
            | KSDiscard => Some {| v_host := v_host s1; v_key := KSNone; v_clients := v_clients s |}
            | KSNone => match assoc_get (G ao_reply_key) kw with
                        | Some pk => Some {| v_host := v_host s1; v_key := KSText (py_strip pk); v_clients := v_clients s |}
                        | None => None
                        end
            | KSText _ => Some s1
            end in
          match keyed with
          | None => Ok ([EFailed RuntimeError; snap s1], s1, false)
          | Some s2 =>
              match q_auth q with
              | None => Ok ([snap s2], s2, true)
              | Some _ =>
                  match add_reply_clients ls (v_clients s2) with
                  | Some cl => let s3 := {| v_host := v_host s2; v_key := v_key s2; v_clients := cl |} in
                               Ok ([snap s3], s3, true)
                  | None => Ok ([EFailed ValueError; snap s2], s2, false)
                  end
              end
          end
      end
  end.

Definition sid_of_host (h : bytes) : bytes := firstn (List.length h - List.length (G ao_onion_suffix)) h.

(* the whole drive *)
Definition run (q : request) (rp : reply) : option (list (list ev)) :=
  match phase_create q with
  | Out | Err _ => None
  | Ok (p1, CNone) => Some [p1; []; []; []]
  | Ok (p1, CSvc s false) => Some [p1; []; []; []]
  | Ok (p1, CSvc s true) =>
      match phase_reply q rp s with
      | Out | Err _ => None
      | Ok (p2, s2, waiting) =>
          (* the harness reports one upload for plain services that are still being created *)
          let wordlike (sid : bytes) := negb (is_nil sid) && negb (existsb py_isspace sid) in
          match v_host s2 with
          | None => Some [p1; p2; []; []]
          | Some h =>
              let sid := sid_of_host h in
              if negb (wordlike sid) then None else
              let p3 := match q_auth q with
                        | None => if waiting then [EDone true; snap s2] else []
                        | Some _ => []
                        end in
              Some [p1; p2; p3; [ECmd (G ao_del_cmd ++ sid); ERemoved; snap s2]]
          end
      end
  end.
