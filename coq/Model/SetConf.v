(* Model of TorControlProtocol.set_conf (pairing, str(), key check, maybe_quote, assembly) and of
   the command framing of queue_command/_maybe_issue_command/_broadcast_response, as far as a
   history of set_conf calls, other commands and "250 OK" answers exercises it.
   All literals come from Gen/SetConfTable.v (regenerated from the source on every run). *)
From Coq Require Import List Bool Ascii Arith NArith ZArith.
From TxVerif Require Import Lib.Bytes Lib.Decimal Lib.PyStr Gen.SetConfTable Spec.C12.
Import ListNotations.
Open Scope N_scope.

Definition B (l : list N) : bytes := map ch l.

(* str(x) *)
Definition py_str (a : arg) : bytes :=
  match a with
  | AStr s => s
  | AInt z => dec_of_Z z
  | ABool true => B [84; 114; 117; 101]
  | ABool false => B [70; 97; 108; 115; 101]
  end.

(* strargs[0::2], strargs[1::2] *)
Fixpoint keys_of (l : list bytes) : list bytes :=
  match l with
  | [] => []
  | k :: r => k :: match r with [] => [] | _ :: r' => keys_of r' end
  end.
Fixpoint vals_of (l : list bytes) : list bytes :=
  match l with
  | [] => []
  | _ :: r => match r with [] => [] | v :: r' => v :: vals_of r' end
  end.

(* not k or any(c.isspace() or c in FORBIDDEN for c in k) *)
Definition key_char_bad (c : ascii) : bool :=
  (sc_key_isspace && py_isspace c) || memb c (B sc_key_forbidden).
Definition key_bad (k : bytes) : bool :=
  (sc_key_nonempty && match k with [] => true | _ => false end) || existsb key_char_bad k.

(* s.replace(raw, escaped) for a one-character raw *)
Definition replace1 (raw : ascii) (esc : bytes) (s : bytes) : bytes :=
  flat_map (fun x => if Ascii.eqb x raw then esc else [x]) s.
Definition escape (s : bytes) : bytes :=
  fold_left (fun s p => replace1 (ch (fst p)) (B (snd p)) s) sc_escapes s.
(* any(c in s for c in TRIGGER) *)
Definition needs_quote (s : bytes) : bool := existsb (fun c => memb c s) (B sc_trigger).
Definition maybe_quote (s : bytes) : bytes :=
  if needs_quote s then B sc_quote_pre ++ escape s ++ B sc_quote_post else s.

Definition fmt_pair (p : bytes * bytes) : bytes :=
  B sc_pair_pre ++ fst p ++ B sc_pair_mid ++ snd p ++ B sc_pair_post.

Inductive sc_result :=
| ScRejected (kind : N)      (* a Deferred that has already failed *)
| ScRaised (kind : N)        (* the call raises *)
| ScLine (l : bytes).        (* handed to queue_command *)

Definition set_conf (args : list arg) : sc_result :=
  if sc_odd_check && Nat.odd (length args) then ScRejected 1 else
  let s := map py_str args in
  let keys := keys_of s in
  if existsb key_bad keys then ScRejected 2 else
  (* map() over two lists stops at the shorter one *)
  let line := B sc_prefix ++ join (B sc_join) (map fmt_pair (combine keys (map maybe_quote (vals_of s)))) in
  if is_ascii line then ScLine line else ScRaised 3.      (* cmd.encode('ascii') *)

(* ---- command queue: one command in flight, the rest wait in order ---- *)
Record st := { inflight : option N; queue : list (N * bytes) }.
Definition st0 : st := {| inflight := None; queue := [] |}.

Definition issue (s : st) : st * list ev :=
  match inflight s, queue s with
  | None, (i, l) :: q => ({| inflight := Some i; queue := q |}, [EvWrite (l ++ B sc_eol)])
  | _, _ => (s, [])
  end.

Definition submit (idx : N) (l : bytes) (s : st) : st * list ev :=
  issue {| inflight := inflight s; queue := queue s ++ [(idx, l)] |}.

(* None = outside the modelled envelope (an answer while nothing is in flight) *)
Definition step (idx : N) (s : st) (o : op) : option (st * list ev) :=
  match o with
  | OCall args =>
      match set_conf args with
      | ScRejected k => Some (s, [EvFailed idx k])
      | ScRaised k => Some (s, [EvRaised k])
      | ScLine l => Some (submit idx l s)
      end
  | OOther => Some (submit idx other_line s)
  | OReply =>
      match inflight s with
      | None => None
      | Some j => let '(s', evs) := issue {| inflight := None; queue := queue s |} in
                  Some (s', EvFired j :: evs)
      end
  end.

Fixpoint run_from (idx : N) (s : st) (ops : list op) : option (list (list ev)) :=
  match ops with
  | [] => Some []
  | o :: ops' =>
      match step idx s o with
      | None => None
      | Some (s', evs) => match run_from (idx + 1) s' ops' with
                          | Some tr => Some (evs :: tr)
                          | None => None
                          end
      end
  end.

Definition run (ops : list op) : option (list (list ev)) := run_from 0 st0 ops.
