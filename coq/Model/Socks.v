(* Model of txtorcon.socks._SocksMachine driven through _TorSocksProtocol.
   The transition table and the automat semantics (state changes first, then the outputs run in
   order with the input's arguments; an output may fire further inputs; no transition = raise)
   are interpreted over Gen/SocksTable.v; the output bodies are modelled by hand.
   Twisted's behaviour when dataReceived raises (the connection is dropped, connectionLost is
   called) is part of the model: the events of that loss are appended to the raising operation
   and nothing is processed afterwards. *)
From Coq Require Import List Bool Ascii Arith NArith Lia String.
From TxVerif Require Import Lib.Bytes Model.Struct Model.SocksTypes Gen.SocksTable Gen.SocksConsts
  Spec.Rfc1928 Spec.C06 Spec.C05 Model.SocksEnc.
Import ListNotations.
Open Scope N_scope.

Record mstate := { st : sstate; buf : bytes; has_sender : bool; fired : bool }.

Inductive arg :=
| ANone
| AMethod (m : N)
| AErr (r : result)
| AConn                       (* reply_ipv4 / reply_ipv6: addr, port (not observed) *)
| AName (r : result).

Definition find_trans (s : sstate) (i : sinput) : option strans :=
  find (fun t => sstate_eqb (t_from t) s && sinput_eqb (t_on t) i) socks_table.

Definition bytes_of_string (s : string) : bytes := list_ascii_of_string s.

(* _create_socks_error *)
Definition socks_error (c : N) : result :=
  match find (fun p => fst p =? c) socks_error_classes with
  | Some (_, name) => RErr (bytes_of_string name) (Some c)
  | None => RErr generic_name (Some c)
  end.

Definition generic : result := RErr generic_name None.

Record cfg := { c_ty : rtype; c_target : target; c_port : N }.

(* result of running something: new state, events, false = an exception propagates *)
Definition res := (mstate * list ev * bool)%type.

Definition set_buf (s : mstate) (b : bytes) : mstate :=
  {| st := st s; buf := b; has_sender := has_sender s; fired := fired s |}.
Definition set_st (s : mstate) (x : sstate) : mstate :=
  {| st := x; buf := buf s; has_sender := has_sender s; fired := fired s |}.

Definition fire_done (s : mstate) (r : result) : mstate * list ev :=
  if fired s then (s, [])
  else ({| st := st s; buf := buf s; has_sender := has_sender s; fired := true |}, [EDone r]).

Definition K_NoTransition : N := 1.
Definition K_Assert : N := 2.
Definition K_Encode : N := 3.
Definition K_Other : N := 9.
Definition K_Fuel : N := 99.

(* sequencing of calls: stop at the first exception *)
Definition andthen (r : res) (f : mstate -> res) : res :=
  let '(s1, e1, ok) := r in
  if ok then let '(s2, e2, ok2) := f s1 in (s2, e1 ++ e2, ok2) else (s1, e1, false).
Definition ret (s : mstate) : res := (s, [], true).
Definition raise (s : mstate) (k : N) : res := (s, [ERaised k], false).

Section Machine.
  Variable c : cfg.

  Fixpoint outputs (run1 : mstate -> soutput -> arg -> res) (s : mstate) (os : list soutput) (a : arg) : res :=
    match os with
    | [] => ret s
    | o :: os' => andthen (run1 s o a) (fun s1 => outputs run1 s1 os' a)
    end.

  (* the bodies of the automat outputs; [rec] fires an input re-entrantly *)
  Definition output_body (rec : mstate -> sinput -> arg -> res) (s : mstate) (o : soutput) (a : arg) : res :=
    match o with
    | _send_version =>
        match version_bytes with
        | Some b => (s, [EWrote b], true)
        | None => raise s K_Encode
        end
    | _parse_version_reply =>
        match buf s with
        | v :: m :: rest =>
            let s1 := set_buf s rest in
            if (code v =? 5) && ((code m =? 0) || (code m =? 2)) then
              andthen (rec s1 version_reply (AMethod (code m)))
                      (fun s2 => match buf s2 with
                                 | [] => ret s2
                                 | _ => rec s2 got_data ANone
                                 end)
            else rec s1 version_error (AErr generic)
        | _ => ret s
        end
    | _disconnect =>
        let r := match a with AErr r => r | _ => generic end in
        let e_app := if has_sender s then [EAppLost] else [] in
        let '(s1, e1) := fire_done s r in
        (s1, [ELoseConn] ++ e_app ++ e1, true)
    | _send_request =>
        match a with
        | AMethod 0 =>
            match encode (c_ty c) (c_target c) (c_port c) with
            | Some b => (s, [EWrote b], true)
            | None => raise s K_Encode
            end
        | _ => raise s K_Assert
        end
    | _parse_request_reply =>
        let d := buf s in
        if nlen d <? c_MIN_REPLY then ret s else
        match d with
        | v :: rep :: _ :: typ :: _ =>
            if negb (code v =? 5) then rec s reply_error (AErr generic)
            else if negb (code rep =? c_SUCCEEDED) then rec s reply_error (AErr (socks_error (code rep)))
            else if code typ =? c_REPLY_IPV4 then
              if 10 <=? nlen d then
                let s1 := set_buf s (skipn 10 d) in
                match c_ty c with
                | RConnect => rec s1 reply_ipv4 AConn
                | _ => rec s1 reply_domain_name (AName (RName true (firstn 4 (skipn 4 d))))
                end
              else ret s
            else if code typ =? c_REPLY_HOST then
              let l := match nth_error d 4 with Some x => code x | None => 0 end in
              if nlen d <? 5 + l + 2 then ret s
              else
                let s1 := set_buf s (skipn (N.to_nat (5 + l + 2)) d) in
                match c_ty c with
                | RConnect => rec s1 reply_ipv4 AConn
                | _ => rec s1 reply_domain_name (AName (RName false (firstn (N.to_nat l) (skipn 5 d))))
                end
            else if code typ =? c_REPLY_IPV6 then
              if 22 <=? nlen d then
                let s1 := set_buf s (skipn 22 d) in
                match c_ty c with
                | RConnect => rec s1 reply_ipv6 AConn
                | _ => rec s1 reply_domain_name (AName (RName true (firstn 16 (skipn 4 d))))
                end
              else ret s
            else rec s reply_error (AErr generic)
        | _ => ret s
        end
    | _make_connection =>
        let s0 := {| st := st s; buf := buf s; has_sender := true; fired := fired s |} in
        let '(s1, e1) := fire_done s0 RProto in
        match buf s1 with
        | [] => (s1, [EAppCreated true] ++ e1, true)
        | d => (set_buf s1 [], [EAppCreated true] ++ e1 ++ [EAppData d], true)
        end
    | _domain_name_resolved =>
        let r := match a with AName r => r | _ => generic end in
        let '(s1, e1) := fire_done s r in (s1, e1, true)
    | _relay_data =>
        match buf s with
        | [] => ret s
        | d => if has_sender s then (set_buf s [], [EAppData d], true)
               else raise s K_Other      (* self._sender is None: AttributeError *)
        end
    end.

  Fixpoint fire (fuel : nat) (s : mstate) (i : sinput) (a : arg) : res :=
    match fuel with
    | O => raise s K_Fuel
    | S fuel' =>
        match find_trans (st s) i with
        | None => raise s K_NoTransition
        | Some t => outputs (output_body (fire fuel')) (set_st s (t_to t)) (t_out t) a
        end
    end.

  Definition FUEL : nat := 12.

  Definition init : mstate := {| st := socks_initial; buf := []; has_sender := false; fired := false |}.

  (* connectionLost -> disconnected(SocksError(reason)) *)
  Definition lose (s : mstate) : res := fire FUEL s disconnected (AErr generic).

  Definition op_connected (s : mstate) : res := fire FUEL s connection ANone.

  (* dataReceived: feed_data = append, got_data; an exception drops the connection *)
  Definition op_recv (s : mstate) (chunk : bytes) : res :=
    let '(s1, e1, ok) := fire FUEL (set_buf s (buf s ++ chunk)) got_data ANone in
    if ok then (s1, e1, true)
    else let '(s2, e2, _) := lose s1 in (s2, e1 ++ e2, false).

  Fixpoint run_chunks (s : mstate) (chunks : list bytes) (lost : bool) : list (list ev) :=
    match chunks with
    | [] => if lost then let '(_, e, _) := lose s in [e] else []
    | ch :: cs =>
        let '(s1, e1, ok) := op_recv s ch in
        if ok then e1 :: run_chunks s1 cs lost else [e1]
    end.

  Definition run (chunks : list bytes) (lost : bool) : list (list ev) :=
    let '(s0, e0, ok) := op_connected init in
    if ok then e0 :: run_chunks s0 chunks lost else [e0].
End Machine.
