(* Model of queue_command / _maybe_issue_command / the resolution part of _broadcast_response /
   connectionLost at command granularity, with the `called` flag of each command's Deferred
   (a caller may cancel it).  Replies are whole 250 OK replies.  Mirrors the code:
     queue_command:        commands.append((d, cmd)); _maybe_issue_command()
     _maybe_issue_command: if self.command: return; pop the head; if the disconnect observer has fired,
                           d is fired with the failure and self.command = None; else write the command
     reply complete:       self.defer.callback(resp) (suppressed by Twisted when d was cancelled);
                           self.command = None; _maybe_issue_command()
     connectionLost:       outstanding = [command] + commands; both cleared; for each: if not d.called: errback
     when_disconnected:    SingleObserver.when_fired - a fresh Deferred, fired at once when the loss has happened
     reply + hang-up:      the callback the caller attached to the in-flight command's Deferred calls
                           transport.loseConnection() and the transport reports the loss synchronously:
                           connectionLost runs inside self.defer.callback(resp), self.command still set
     connectionLost:       FIRST _when_disconnected.fire(failure) - the callbacks of the observers run, and may
                           ask again or submit commands -, THEN the outstanding list is taken
   The Deferreds of distinct commands are distinct objects, so the loop's `d.called` tests are the flags
   at the start of the loop (the harness's errbacks cancel nothing). *)
From Coq Require Import List Bool Arith NArith Lia.
From TxVerif Require Import Spec.C03Cancel.
Import ListNotations.
Open Scope N_scope.

(* m_obs: the Deferreds handed out by when_disconnected() and not fired yet (SingleObserver._observers),
   each with what the caller's callback does; m_nobs: how many were handed out *)
Record mq := { m_cur : option N; m_q : list N; m_called : list N; m_lost : bool; m_next : N;
               m_obs : list (N * wbeh); m_nobs : N }.
Definition mq_init : mq :=
  {| m_cur := None; m_q := []; m_called := []; m_lost := false; m_next := 0; m_obs := []; m_nobs := 0 |}.

Definition maybe_issue (s : mq) : mq * list qev :=
  match m_cur s with
  | Some _ => (s, [])
  | None =>
      match m_q s with
      | [] => (s, [])
      | x :: q' =>
          if m_lost s then
            ({| m_cur := None; m_q := q'; m_called := x :: m_called s; m_lost := true; m_next := m_next s;
                m_obs := m_obs s; m_nobs := m_nobs s |},
             [QRes x QDisc])
          else
            ({| m_cur := Some x; m_q := q'; m_called := m_called s; m_lost := false; m_next := m_next s;
                m_obs := m_obs s; m_nobs := m_nobs s |},
             [QWrote x])
      end
  end.

(* queue_command as the application calls it *)
Definition submit (s : mq) : mq * list qev :=
  maybe_issue {| m_cur := m_cur s; m_q := m_q s ++ [m_next s]; m_called := m_called s;
                 m_lost := m_lost s; m_next := m_next s + 1; m_obs := m_obs s; m_nobs := m_nobs s |}.

(* the callback of observer (w, b) runs; the disconnect observer has fired already (m_lost = true is set by
   the caller: SingleObserver.fire stores the value before it walks the list, so when_fired() inside a
   callback is answered at once and _maybe_issue_command fails a fresh command at once unless one is in flight) *)
Definition run_cb (acc : mq * list qev) (wb : N * wbeh) : mq * list qev :=
  let '(s, ev) := acc in
  match snd wb with
  | WPlain => (s, ev ++ [QNote (fst wb)])
  | WNested =>
      ({| m_cur := m_cur s; m_q := m_q s; m_called := m_called s; m_lost := m_lost s; m_next := m_next s;
          m_obs := m_obs s; m_nobs := m_nobs s + 1 |}, ev ++ [QNote (fst wb); QNote (m_nobs s)])
  | WSubmit => let '(s2, e2) := submit s in (s2, ev ++ [QNote (fst wb)] ++ e2)
  end.

(* a whole reply for the command c in flight: self.defer.callback(resp); self.command = None; _maybe_issue_command() *)
Definition m_reply (s : mq) (c : N) : mq * list qev :=
  let e1 := if memN c (m_called s) then [] else [QRes c QOk] in
  let '(s2, e2) := maybe_issue {| m_cur := None; m_q := m_q s; m_called := c :: m_called s;
                                  m_lost := false; m_next := m_next s;
                                  m_obs := m_obs s; m_nobs := m_nobs s |} in
  (s2, e1 ++ e2).

(* connectionLost: _when_disconnected.fire - the stored value first, then every observer in order -, then the
   outstanding list is taken, both fields cleared, and every Deferred not called yet is errback'ed *)
Definition m_lose (s : mq) : mq * list qev :=
  let '(s1, ev) := fold_left run_cb (m_obs s)
                     ({| m_cur := m_cur s; m_q := m_q s; m_called := m_called s; m_lost := true;
                         m_next := m_next s; m_obs := []; m_nobs := m_nobs s |}, []) in
  let outstanding := (match m_cur s1 with Some c => [c] | None => [] end) ++ m_q s1 in
  let out := filter (fun k => negb (memN k (m_called s1))) outstanding in
  ({| m_cur := None; m_q := []; m_called := out ++ m_called s1; m_lost := true; m_next := m_next s1;
      m_obs := []; m_nobs := m_nobs s1 |},
   ev ++ map (fun k => QRes k QDisc) out).

Definition m_step (s : mq) (o : qop) : option (mq * list qev) :=
  match o with
  | QSubmit => Some (submit s)
  | QCancel k =>
      if (k <? m_next s) && negb (memN k (m_called s)) then
        Some ({| m_cur := m_cur s; m_q := m_q s; m_called := k :: m_called s; m_lost := m_lost s;
                 m_next := m_next s; m_obs := m_obs s; m_nobs := m_nobs s |}, [QRes k QCancelled])
      else Some (s, [])
  | QReply =>
      if m_lost s then None else
      match m_cur s with
      | None => None
      | Some c => Some (m_reply s c)
      end
  | QWatch b =>
      if m_lost s then
        Some (run_cb ({| m_cur := m_cur s; m_q := m_q s; m_called := m_called s; m_lost := true;
                         m_next := m_next s; m_obs := []; m_nobs := m_nobs s + 1 |}, []) (m_nobs s, b))
      else
        Some ({| m_cur := m_cur s; m_q := m_q s; m_called := m_called s; m_lost := false; m_next := m_next s;
                 m_obs := m_obs s ++ [(m_nobs s, b)]; m_nobs := m_nobs s + 1 |}, [])
  | QLose =>
      if m_lost s then None else Some (m_lose s)
  | QReplyLose =>
      if m_lost s then None else
      match m_cur s with
      | None => None
      | Some c =>
          (* d was cancelled: Twisted suppresses d.callback(resp), no callback runs, nobody hangs up *)
          if memN c (m_called s) then Some (m_reply s c) else
          (* self.defer.callback(resp): d is called, the caller's callback runs and hangs up; the transport
             calls connectionLost at once, self.command still naming c: the observers' callbacks see a command
             in flight (a submission is queued), outstanding = [c] ++ queue, c is called and skipped, the rest
             fails in order.  Back in _broadcast_response: self.command = None; _maybe_issue_command() finds
             the queue empty (connectionLost has cleared both already) *)
          let '(s2, ev) := m_lose {| m_cur := Some c; m_q := m_q s; m_called := c :: m_called s; m_lost := false;
                                     m_next := m_next s; m_obs := m_obs s; m_nobs := m_nobs s |} in
          Some (s2, QRes c QOk :: ev)
      end
  end.

Fixpoint m_run (s : mq) (ops : list qop) : option (list (list qev)) :=
  match ops with
  | [] => Some []
  | o :: ops' =>
      match m_step s o with
      | None => None
      | Some (s', es) => option_map (cons es) (m_run s' ops')
      end
  end.

Definition q_run (ops : list qop) : option (list (list qev)) := m_run mq_init ops.
