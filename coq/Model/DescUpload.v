(* Model of txtorcon/onion.py:_await_descriptor_upload together with its two callers
   (_add_ephemeral_service, FilesystemOnionService.create) and of the HS_DESC subscription
   (torcontrolprotocol.py:add_event_listener / remove_event_listener), as the code is NOW,
   defects included.  No proofs here.

   One op = one stimulus processed to completion (Twisted runs callbacks synchronously); SETEVENTS
   is answered by Tor as soon as it is written (the scripted Tor does so after the stimulus returns).

   What is mirrored, line by line:
   * hs_desc(): directories are keyed by fingerprint (see run_named at the end); UPLOAD adds to `attempted` only if the address matches the service's hostname (unknown
     = None before the reply unless the HiddenServiceDir already has a hostname file); UPLOADED is NOT
     checked against the address, only `dir in attempted`; FAILED is checked against the address;
     completion tests: not await-all: first accepted UPLOADED; await-all: (failed|confirmed) >=
     attempted in the UPLOADED branch, (failed|confirmed) == attempted (and confirmed non-empty) in
     the FAILED branch; failed == attempted -> errback, tested first.
   * when `uploaded` fires, the generator removes the listener at once (Event.unlisten; if it was the
     last callback `del events['HS_DESC']` and SETEVENTS is QUEUED: written immediately unless the
     creating command is still in flight, then it is written right after that command's reply), waits
     for the SETEVENTS reply, reports progress 100 on success, and only then does the Deferred the
     caller waits on fire.
   * create() waits first for the creating command, then for that Deferred.
   * a rejected creating command fails create() at once; the except clause around it cancels the
     Deferred of _await_descriptor_upload, whose error path removes the listener (fix 3df3186). *)
From Coq Require Import List Bool Arith NArith.
From TxVerif Require Import Lib.ListSet Spec.C15.
Import ListNotations.
Open Scope N_scope.

Record st := {
  m_rep : option bool;        (* creating command answered: Some true accepted / Some false rejected *)
  m_att : list N; m_conf : list N; m_fail : list N;
  m_fired : option bool;      (* `uploaded` Deferred: Some true callback, Some false errback *)
  m_listen : bool;            (* hs_desc is registered on the HS_DESC event *)
  m_unsub_pending : bool;     (* SETEVENTS (unsubscribe) queued behind the creating command *)
  m_upl_done : bool;          (* the Deferred returned by _await_descriptor_upload has fired *)
  m_created : bool;           (* the create() Deferred has fired *)
  m_oos : bool                (* outside the modelled envelope (a second answer) *)
}.

Definition m0 : st :=
  {| m_rep := None; m_att := []; m_conf := []; m_fail := []; m_fired := None; m_listen := true;
     m_unsub_pending := false; m_upl_done := false; m_created := false; m_oos := false |}.

Definition nlen (l : list N) : N := N.of_nat (length l).

(* translate_progress: (done/endpoint)*50 + (min(16,|attempted|)/16)*50, first term 0 if nothing attempted *)
Definition prog (c : cfg) (att conf fail : list N) : list obs :=
  if c_progress c then
    match att with
    | [] => [OProgress 0 1]
    | _ => let done := nlen conf + nlen fail in
           let endp := if c_await c then nlen att else 1 in
           [OProgress (50 * done * 16 + 50 * N.min 16 (nlen att) * endp) (16 * endp)]
    end
  else [].

Definition upd (s : st) (att conf fail : list N) : st :=
  {| m_rep := m_rep s; m_att := att; m_conf := conf; m_fail := fail; m_fired := m_fired s;
     m_listen := m_listen s; m_unsub_pending := m_unsub_pending s; m_upl_done := m_upl_done s;
     m_created := m_created s; m_oos := m_oos s |}.

Definition res_of (o : bool) : result := if o then ROk true else RUploadFailed.

(* the generator of _await_descriptor_upload resumes after the unsubscription is acknowledged *)
Definition finish_wait (c : cfg) (s : st) (o : bool) : st * list obs :=
  let p := if o && c_progress c then [OProgress 100 1] else [] in
  let fire := match m_rep s with Some true => negb (m_created s) | _ => false end in
  ({| m_rep := m_rep s; m_att := m_att s; m_conf := m_conf s; m_fail := m_fail s; m_fired := m_fired s;
      m_listen := m_listen s; m_unsub_pending := false; m_upl_done := true;
      m_created := m_created s || fire; m_oos := m_oos s |},
   p ++ (if fire then [ODone (res_of o)] else [])).

(* uploaded.callback / errback *)
Definition fire (c : cfg) (s : st) (o : bool) : st * list obs :=
  let s1 := {| m_rep := m_rep s; m_att := m_att s; m_conf := m_conf s; m_fail := m_fail s;
               m_fired := Some o; m_listen := false; m_unsub_pending := false;
               m_upl_done := m_upl_done s; m_created := m_created s; m_oos := m_oos s |} in
  if c_shared c then finish_wait c s1 o
  else match m_rep s with
       | None => ({| m_rep := m_rep s1; m_att := m_att s1; m_conf := m_conf s1; m_fail := m_fail s1;
                     m_fired := m_fired s1; m_listen := false; m_unsub_pending := true;
                     m_upl_done := m_upl_done s1; m_created := m_created s1; m_oos := m_oos s1 |}, [])
       | Some _ => let '(s2, o2) := finish_wait c s1 o in (s2, OSetEvents false :: o2)
       end.

Definition known (c : cfg) (s : st) : bool :=
  c_early c || match m_rep s with Some true => true | _ => false end.

Definition step_ev (c : cfg) (s : st) (k : kind) (a d : N) : st * list obs :=
  if negb (m_listen s) then (s, []) else
  let matches := (a =? c_own c) && known c s in
  match k with
  | KUpload =>
      if matches then
        let att := sadd d (m_att s) in
        (upd s att (m_conf s) (m_fail s), prog c att (m_conf s) (m_fail s))
      else (s, [])
  | KUploaded =>
      if smem d (m_att s) then
        let conf := sadd d (m_conf s) in
        let s1 := upd s (m_att s) conf (m_fail s) in
        let p := prog c (m_att s) conf (m_fail s) in
        match m_fired s with
        | Some _ => (s1, p)
        | None =>
            if c_await c then
              if ssub (m_att s) (sunion (m_fail s) conf)
              then let '(s2, o2) := fire c s1 true in (s2, p ++ o2)
              else (s1, p)
            else let '(s2, o2) := fire c s1 true in (s2, p ++ o2)
        end
      else (s, [])
  | KFailed =>
      if matches then
        let fail := sadd d (m_fail s) in
        let s1 := upd s (m_att s) (m_conf s) fail in
        let p := prog c (m_att s) (m_conf s) fail in
        if sseteq fail (m_att s) then
          match m_fired s with
          | Some _ => (s1, p)      (* AlreadyCalledError, swallowed by Event.got_update; unreachable: not listening *)
          | None => let '(s2, o2) := fire c s1 false in (s2, p ++ o2)
          end
        else if c_await c && snonempty (m_conf s) && negb (match m_fired s with Some _ => true | None => false end)
                && sseteq (sunion fail (m_conf s)) (m_att s)
        then let '(s2, o2) := fire c s1 true in (s2, p ++ o2)
        else (s1, p)
      else (s, [])
  end.

Definition set_oos (s : st) : st :=
  {| m_rep := m_rep s; m_att := m_att s; m_conf := m_conf s; m_fail := m_fail s; m_fired := m_fired s;
     m_listen := m_listen s; m_unsub_pending := m_unsub_pending s; m_upl_done := m_upl_done s;
     m_created := m_created s; m_oos := true |}.

Definition set_mrep (s : st) (b : bool) : st :=
  {| m_rep := Some b; m_att := m_att s; m_conf := m_conf s; m_fail := m_fail s; m_fired := m_fired s;
     m_listen := m_listen s; m_unsub_pending := m_unsub_pending s; m_upl_done := m_upl_done s;
     m_created := m_created s; m_oos := m_oos s |}.

Definition set_created (s : st) : st :=
  {| m_rep := m_rep s; m_att := m_att s; m_conf := m_conf s; m_fail := m_fail s; m_fired := m_fired s;
     m_listen := m_listen s; m_unsub_pending := m_unsub_pending s; m_upl_done := m_upl_done s;
     m_created := true; m_oos := m_oos s |}.

Definition step (c : cfg) (s : st) (o : op) : st * list obs :=
  match o with
  | Ev k a d => step_ev c s k a d
  | Reply =>
      match m_rep s with
      | Some _ => (set_oos s, [])
      | None =>
          let s1 := set_mrep s true in
          match m_fired s with
          | None => (s1, [])
          | Some o =>
              if m_upl_done s then (set_created s1, [ODone (res_of o)])
              else if m_unsub_pending s then
                let '(s2, o2) := finish_wait c s1 o in (s2, OSetEvents false :: o2)
              else (s1, [])
          end
      end
  | Reject =>
      match m_rep s with
      | Some _ => (set_oos s, [])
      | None =>
          (* create() fails at once; its except clause cancels the Deferred of _await_descriptor_upload *)
          let s1 := set_created (set_mrep s false) in
          match m_fired s with
          | None =>
              (* the generator waits on `uploaded`: it is errbacked (CancelledError), the error path removes the
                 listener; the SETEVENTS is written once the rejected command has been cleared *)
              ({| m_rep := m_rep s1; m_att := m_att s1; m_conf := m_conf s1; m_fail := m_fail s1;
                  m_fired := Some false; m_listen := false; m_unsub_pending := false; m_upl_done := true;
                  m_created := true; m_oos := m_oos s1 |},
               ODone RRejected :: (if c_shared c then [] else [OSetEvents false]))
          | Some _ =>
              if m_unsub_pending s then
                (* the generator waits on the queued SETEVENTS: that Deferred is cancelled (no progress report);
                   the command itself stays queued and is written now *)
                ({| m_rep := m_rep s1; m_att := m_att s1; m_conf := m_conf s1; m_fail := m_fail s1;
                    m_fired := m_fired s1; m_listen := m_listen s1; m_unsub_pending := false; m_upl_done := true;
                    m_created := true; m_oos := m_oos s1 |},
                 [ODone RRejected; OSetEvents false])
              else (s1, [ODone RRejected])       (* the wait is already over: cancel() is a no-op *)
          end
      end
  end.

Definition snap (c : cfg) (s : st) (evs : list obs) : rec :=
  {| r_evs := evs; r_ncb := if m_listen s then 1 else 0; r_inev := c_shared c || m_listen s |}.

Fixpoint run_from (c : cfg) (s : st) (ops : list op) : list rec :=
  match ops with
  | [] => []
  | o :: ops' => let '(s', evs) := step c s o in snap c s' evs :: run_from c s' ops'
  end.

(* the call of create(): subscribe (SETEVENTS unless HS_DESC is already subscribed), then the command *)
Definition start_rec (c : cfg) : rec :=
  snap c m0 (if c_shared c then [OCreateCmd true] else [OSetEvents true; OCreateCmd true]).

Definition run (c : cfg) (ops : list op) : list rec := start_rec c :: run_from c m0 ops.

Fixpoint final (c : cfg) (s : st) (ops : list op) : st :=
  match ops with [] => s | o :: ops' => final c (fst (step c s o)) ops' end.

(* hs_desc() first reduces the HsDir field to the fingerprint (`hsdir = args[3].split('~')[0]`, fix 1b606af) and
   keys all three sets by it: on a history with directory NAMES (Spec.C15: name 2i = "$FP", 2i+1 = "$FP~nick") the
   code behaves as `run` on the history of directories *)
Definition run_named (c : cfg) (ops : list op) : list rec := run c (canon ops).
