(* Model of txtorcon.addrmap (AddrMap.update/find/notify/add_listener, Addr.update/_cancel_expiry/
   _expire) running on twisted.internet.task.Clock, as the code stands in /repo.

     dict   = AddrMap.addr        key (name or address text) -> number of the Addr object
                                  (a function: the order of the dict is never observed)
     heap   = the Addr objects    number -> name, ip, expires
     calls  = Clock.calls         (fire time, Addr number), kept sorted by time, ties in
                                  callLater order (list.sort is stable)
   An Addr has at most one pending call (self.expiry), so a call is identified by its Addr.
   Listeners are (number, behaviour) pairs: the behaviour (Spec.C20.beh) says what the harness's listener
   object does inside addrmap_added / addrmap_expired; it acts only in callbacks made while no other
   script is running (depth 0), in nested callbacks it only records the call.
   No proofs here. None = outside the modelled envelope (the code raises, or the clock would loop). *)
From Coq Require Import List Bool Ascii Arith NArith ZArith Lia.
From TxVerif Require Import Lib.Bytes Spec.C20.
Import ListNotations.
Open Scope N_scope.

Record entry := { e_name : bytes; e_ip : bytes; e_exp : option Z }.

Record mst := { dict : bytes -> option N; heap : N -> option entry; calls : list (Z * N);
                now : Z; nid : N; lst : list (N * beh) }.

Definition m0 : mst := {| dict := fun _ => None; heap := fun _ => None; calls := []; now := 0%Z; nid := 0; lst := [] |}.

(* ---- Python dict (its order is never observed: lookup, assignment, deletion by value) ---- *)
Definition dget (k : bytes) (d : bytes -> option N) : option N := d k.
Definition dset (k : bytes) (v : N) (d : bytes -> option N) : bytes -> option N :=
  fun k' => if beqb k k' then Some v else d k'.
(* for k in [k for (k, v) in items() if v is self]: del addr[k] *)
Definition ddel_val (id : N) (d : bytes -> option N) : bytes -> option N :=
  fun k => match d k with Some v => if N.eqb v id then None else Some v | None => None end.

Definition hget (id : N) (h : N -> option entry) : option entry := h id.
Definition hset (id : N) (e : entry) (h : N -> option entry) : N -> option entry :=
  fun i => if N.eqb id i then Some e else h i.

(* ---- Clock ---- *)
(* callLater: append, then stable sort = insert behind every call that is not later *)
Fixpoint insert_call (c : Z * N) (cs : list (Z * N)) : list (Z * N) :=
  match cs with
  | [] => [c]
  | x :: cs' => if (fst x <=? fst c)%Z then x :: insert_call c cs' else c :: x :: cs'
  end.
(* DelayedCall.cancel of the Addr's pending call, if any *)
Definition cancel_call (id : N) (cs : list (Z * N)) : list (Z * N) :=
  filter (fun c => negb (N.eqb (snd c) id)) cs.

Definition set_dict (s : mst) d := {| dict := d; heap := heap s; calls := calls s; now := now s; nid := nid s; lst := lst s |}.
Definition set_heap (s : mst) h := {| dict := dict s; heap := h; calls := calls s; now := now s; nid := nid s; lst := lst s |}.
Definition set_calls (s : mst) c := {| dict := dict s; heap := heap s; calls := c; now := now s; nid := nid s; lst := lst s |}.


Definition name_of (s : mst) (id : N) : bytes :=
  match hget id (heap s) with Some e => e_name e | None => [] end.
Definition ip_of (s : mst) (id : N) : bytes :=
  match hget id (heap s) with Some e => e_ip e | None => [] end.
Definition lids (s : mst) : list N := map fst (lst s).

(* the call of AddrMap.notify that AddrMap.update / Addr._expire ends with (nothing follows it) *)
Inductive note := NoNote | NExpired (n : bytes) | NAdded (id : N).

(* Addr._expire: the keys go first, then notify("addrmap_expired", self.name) *)
Definition expire (s : mst) (id : N) : mst * note :=
  (set_dict s (ddel_val id (dict s)), NExpired (name_of s id)).

(* ---- Addr.update ---- *)
Definition tok_text_is (t : tok) (w : bytes) : bool := is_word t && beqb (t_pre t) w.

(* for arg in args: if arg.lower().startswith('expires='): gmtexpires = arg[8:]   (last one wins).
   A time stamp starts with a digit, so only the literal prefix can match. *)
Definition scan_expires (ts : list tok) : option tok :=
  fold_left (fun acc t =>
               if prefixb w_expires_lc (lower (t_pre t))
               then Some {| t_pre := skipn 8 (t_pre t); t_time := t_time t |} else acc) ts None.

Definition pick_expiry (ts : list tok) : option tok :=
  match scan_expires ts with
  | Some g => Some g
  | None =>
      match ts with
      | [_; _; c] => Some c                                   (* len(args) == 3 *)
      | _ :: _ :: c :: d :: _ => if tok_text_is c w_NEVER then Some c else Some d
      | _ => None
      end
  end.

(* datetime.strptime(text, "%Y-%m-%d %H:%M:%S") *)
Definition strptime (t : tok) : option Z :=
  match t_pre t, t_time t with
  | [], Some x => Some x
  | _, _ => None
  end.

Definition addr_update (s : mst) (id : N) (ts : list tok) : option (mst * note) :=
  match ts, pick_expiry ts with
  | a :: b :: _ :: _, Some g =>
      if is_word a && is_word b then
        let name := t_pre a in
        let ip := t_pre b in                 (* str(maybe_ip_addr(ip)): canonical texts only *)
        let old := match hget id (heap s) with Some e => e_exp e | None => None end in
        if beqb ip w_ERROR then
          let s1 := set_heap s (hset id {| e_name := name; e_ip := ip; e_exp := old |} (heap s)) in
          let s2 := set_calls s1 (cancel_call id (calls s1)) in
          Some (expire s2 id)
        else
          let parsed :=
            if is_word g && beqb (upper (t_pre g)) w_NEVER then Some None
            else match strptime g with Some x => Some (Some x) | None => None end in
          match parsed with
          | None => None                     (* ValueError from strptime *)
          | Some ex =>
              let s1 := set_heap s (hset id {| e_name := name; e_ip := ip; e_exp := ex |} (heap s)) in
              let cs := cancel_call id (calls s1) in
              match ex with
              | None => Some (set_calls s1 cs, NoNote)
              | Some x =>
                  (* callLater(max(0, expires - created).total_seconds(), self._expire) *)
                  Some (set_calls s1 (insert_call (Z.max (now s) x, id) cs), NoNote)
              end
          end
      else None
  | _, _ => None
  end.

(* ---- AddrMap.update up to its closing notify ---- *)
Definition update_core (s : mst) (ts : list tok) : option (mst * note) :=
  match ts with
  | a :: b :: _ =>
      if is_word a && is_word b then
        match dget (t_pre a) (dict s) with
        | Some id => addr_update s id ts
        | None =>
            (* elif params[1] != '<error>': an error mapping for an unknown name changes nothing *)
            if beqb (t_pre b) w_ERROR then Some (s, NoNote) else
            let id := nid s in
            let s1 := {| dict := dset (t_pre b) id (dset (t_pre a) id (dict s));
                         heap := hset id {| e_name := []; e_ip := []; e_exp := None |} (heap s);
                         calls := calls s; now := now s; nid := nid s + 1; lst := lst s |} in
            match addr_update s1 id ts with
            | Some (s2, _) => Some (s2, NAdded id)
            | None => None
            end
        end
      else None
  | _ => None
  end.

Definition find (s : mst) (k : bytes) : list obs :=
  match dget k (dict s) with
  | Some id => match hget id (heap s) with
               | Some e => [EFound (e_name e) (e_ip e) (e_exp e)]
               | None => [ERaised]
               end
  | None => [ENotFound]
  end.

(* ---- AddrMap.notify ---- *)
(* a call made while a listener's script is running: every listener only records it *)
Definition passive (s : mst) (nt : note) : list obs :=
  match nt with
  | NoNote => []
  | NExpired n => map ESub (expired_block (lids s) n)
  | NAdded id => map ESub (added_block (lids s) (name_of s id) (ip_of s id))
  end.

(* the line a script feeds: '<name> <ip> NEVER'  or  '<name> <ip> "G" EXPIRES="G"' with
   G = the current second + secs *)
Definition wtok (b : bytes) : tok := {| t_pre := b; t_time := None |}.
Definition feed_toks (nw : Z) (n ip : bytes) (x : fexp) : list tok :=
  match x with
  | FNever => [wtok n; wtok ip; wtok w_NEVER]
  | FIn secs =>
      let g := (8 * (nw / 8 + Z.of_N secs))%Z in
      [wtok n; wtok ip; {| t_pre := []; t_time := Some g |}; {| t_pre := w_EXPIRES; t_time := Some g |}]
  end.

(* a listener's script, run inside the callback about name n; the bool: it raised *)
Fixpoint run_script (s : mst) (n : bytes) (acts : list act) : option (mst * list obs * bool) :=
  match acts with
  | [] => Some (s, [], false)
  | a :: r =>
      match a with
      | ARaise => Some (s, [ESub ERaised], true)
      | AFindName =>
          match run_script s n r with
          | Some (s', es, b) => Some (s', map ESub (find s n) ++ es, b)
          | None => None
          end
      | AFindKey k =>
          match run_script s n r with
          | Some (s', es, b) => Some (s', map ESub (find s k) ++ es, b)
          | None => None
          end
      | AFeed ip x =>
          match update_core s (feed_toks (now s) n ip x) with
          | Some (s1, nt) =>
              match run_script s1 n r with
              | Some (s', es, b) => Some (s', passive s1 nt ++ es, b)
              | None => None
              end
          | None => None
          end
      end
  end.

(* what listener l is called with, the name its script works on, which script *)
Definition call_of (s : mst) (nt : note) (l : N) : option (obs * bytes * kind) :=
  match nt with
  | NoNote => None
  | NExpired n => Some (EExpired l n, n, KExpired)
  | NAdded id => Some (EAdded l (name_of s id) (ip_of s id), name_of s id, KAdded)   (* the Addr object *)
  end.

(* for listener in self.listeners: try: listener.method(args) except Exception: log.err()
   -- a listener that raises ends its own script only; the loop goes on *)
Fixpoint notify_top (ls : list (N * beh)) (s : mst) (nt : note) : option (mst * list obs) :=
  match ls with
  | [] => Some (s, [])
  | lb :: r =>
      match call_of s nt (fst lb) with
      | None => Some (s, [])
      | Some (hd, n, k) =>
          match run_script s n (script_of k (snd lb)) with
          | Some (s1, es, _) =>
              match notify_top r s1 nt with
              | Some (s2, es2) => Some (s2, hd :: es ++ es2)
              | None => None
              end
          | None => None
          end
      end
  end.

(* ---- AddrMap.update, called by TorState or the test ---- *)
Definition update (s : mst) (ts : list tok) : option (mst * list obs) :=
  match update_core s ts with
  | Some (s1, nt) => notify_top (lst s1) s1 nt
  | None => None
  end.

(* ---- Clock.advance: while calls and calls[0].time <= now: pop(0) and run (no exception reaches it:
   AddrMap.notify logs them).  The fuel is the
   list of calls pending when time is advanced: scripts only schedule calls that are not yet due
   (envelope), so it never runs out. ---- *)
Fixpoint fire_due (fuel : list (Z * N)) (s : mst) : option (mst * list obs) :=
  match calls s with
  | [] => Some (s, [])
  | c :: rest =>
      if (fst c <=? now s)%Z then
        match fuel with
        | [] => None
        | _ :: fuel' =>
            let '(s1, nt) := expire (set_calls s rest) (snd c) in
            match notify_top (lst s1) s1 nt with
            | Some (s2, e1) =>
                match fire_due fuel' s2 with
                | Some (s3, e2) => Some (s3, e1 ++ e2)
                | None => None
                end
            | None => None
            end
        end
      else Some (s, [])
  end.

Definition advance (s : mst) (dt : N) : option (mst * list obs) :=
  let s1 := {| dict := dict s; heap := heap s; calls := calls s; now := (now s + Z.of_N dt)%Z;
               nid := nid s; lst := lst s |} in
  fire_due (calls s1) s1.

Definition add_listener (s : mst) (l : N) (b : beh) : mst :=
  {| dict := dict s; heap := heap s; calls := calls s; now := now s; nid := nid s;
     lst := if memN l (lids s) then lst s else lst s ++ [(l, b)] |}.

Definition step (s : mst) (o : op) : option (mst * list obs) :=
  match o with
  | OEv ts => update s ts
  | OAdvance dt => advance s dt
  | OFind k => Some (s, find s k)
  | OAddL l b => Some (add_listener s l b, [])
  end.

Fixpoint run_from (s : mst) (h : list op) : option (mst * list (list obs)) :=
  match h with
  | [] => Some (s, [])
  | o :: h' =>
      match step s o with
      | Some (s1, es) => match run_from s1 h' with Some (s2, tr) => Some (s2, es :: tr) | None => None end
      | None => None
      end
  end.

Definition run (h : list op) : option (list (list obs)) := option_map snd (run_from m0 h).
Definition state_after (h : list op) : option mst := option_map fst (run_from m0 h).
