(* Executable model of txtorcon.torconfig.TorConfig attached to a control connection (C10, C11):
   __setattr__ / __getattr__ / mark_unsaved / _ListWrapper / save / _save_completed /
   _find_real_name / bootstrap (_do_setup, _get_defaults) / _conf_changed / socks_endpoint, and
   TorControlProtocol.set_conf / parse_keywords as far as TorConfig uses them.

   It mirrors what the code DOES.  The per-type parse / validate bodies, is_list_config_type, the
   set of wrapped list methods, DEFAULT_VALUE and set_conf's quoting tables are interpreted from
   Gen/ConfigTypes.v (regenerated from the source on every run).

   Aliasing: `unsaved[k]` and `config[k]` can be the SAME list object (that is what mark_unsaved
   sets up, and what save() leaves behind after `self.config[k] = value`) or different ones (after
   an assignment).  In-place operations are always applied to what a fresh read returns, i.e. to
   `config[k]`, so one flag per pending entry is enough: UAlias = "is config[k]".
   Every store into config[k] first materialises an aliased pending entry (set_config).

   Anything the model does not cover yields Oos (out of scope), never a normal-looking value. *)
From Coq Require Import String.
From Coq Require Import List Bool Ascii Arith NArith ZArith Lia.
From TxVerif Require Import Lib.Bytes Lib.CfgLib Spec.CfgTypes Spec.TorStore Model.ConfigKinds Gen.ConfigTypes.
Import ListNotations.
Open Scope N_scope.

(* ---- results: a value, a Python exception (class number of Spec.CfgTypes), or out of scope ---- *)
Inductive res (A : Type) := Ok (a : A) | Exc (k : N) | Oos.
Arguments Ok {A} a.
Arguments Exc {A} k.
Arguments Oos {A}.

Definition bind {A B} (r : res A) (f : A -> res B) : res B :=
  match r with Ok a => f a | Exc k => Exc k | Oos => Oos end.
Notation "'do' x <- r ; f" := (bind r (fun x => f)) (at level 200, x pattern, r at level 100, f at level 200).

(* ---- values held in config / unsaved / _defaults ---- *)
Inductive cval := CAtom (a : atom) | CList (tracked : bool) (l : list atom).
Inductive uval := UAlias | UVal (v : cval).
Inductive dval := DStr (s : bytes) | DList (l : list bytes).

Definition tyinfo := (parse_kind * validate_kind * bool)%type.

Record mst := {
  m_parsers : list (bytes * tyinfo);
  m_listp : list bytes;                 (* list_parsers *)
  m_defaults : list (bytes * dval);
  m_config : list (bytes * cval);
  m_unsaved : list (bytes * uval) }.

Definition DEFAULT_VALUE : bytes := map ch cfg_DEFAULT_VALUE.
Definition auto_str : bytes := bs "auto".

Definition with_config (st : mst) (c : list (bytes * cval)) : mst :=
  {| m_parsers := m_parsers st; m_listp := m_listp st; m_defaults := m_defaults st;
     m_config := c; m_unsaved := m_unsaved st |}.
Definition with_unsaved (st : mst) (u : list (bytes * uval)) : mst :=
  {| m_parsers := m_parsers st; m_listp := m_listp st; m_defaults := m_defaults st;
     m_config := m_config st; m_unsaved := u |}.

Definition cval_of_pyval (tracked : bool) (v : pyval) : cval :=
  match v with PAtom a => CAtom a | PList l => CList tracked l end.

(* ---- Python builtins on the value universe ---- *)
Definition only_letters (s : bytes) : bool :=
  match s with
  | [] => false
  | _ => forallb (fun a => ((65 <=? code a) && (code a <=? 90)) || ((97 <=? code a) && (code a <=? 122))) s
  end.

(* int(s) for a str: optional sign, decimal digits; anything else ValueError.  White space,
   underscores and non-ASCII (which int() treats specially) are not modelled *)
Definition str_int (s : bytes) : res Z :=
  if existsb (fun c => is_space c || (code c =? 95) || (code c <? 32) || (126 <? code c)) s then Oos
  else match s with
       | [] => Exc E_Value
       | c :: r =>
           if Ascii.eqb c PLUS
           then match parse_nat r with Some n => Ok (Z.of_N n) | None => Exc E_Value end
           else match parse_int s with Some z => Ok z | None => Exc E_Value end
       end.

(* int(x) *)
Definition py_int (v : pyval) : res Z :=
  match v with
  | PAtom (AInt z) => Ok z
  | PAtom (ABool b) => Ok (if b then 1%Z else 0%Z)
  | PAtom (AStr s) => str_int s
  | PAtom (AFloat _) => Oos
  | PList _ => Exc E_Type
  end.

(* bool(x) *)
Definition py_truth (v : pyval) : res bool :=
  match v with
  | PAtom (ABool b) => Ok b
  | PAtom (AInt z) => Ok (negb (Z.eqb z 0))
  | PAtom (AStr s) => Ok (match s with [] => false | _ => true end)
  | PAtom (AFloat _) => Oos
  | PList l => Ok (match l with [] => false | _ => true end)
  end.

(* float(x), on the short plain decimals of Spec.TorStore.float_canon *)
Definition py_float (v : pyval) : res atom :=
  match v with
  | PAtom (AFloat t) => Ok (AFloat t)
  | PAtom (AStr s) => match float_canon s with Some c => Ok (AFloat c) | None => Oos end
  | PAtom (AInt z) => match float_canon (dec_of_Z z) with Some c => Ok (AFloat c) | None => Oos end
  | PAtom (ABool _) => Oos
  | PList _ => Exc E_Type
  end.

Definition pyval_is_str (v : pyval) (s : bytes) : bool :=
  match v with PAtom (AStr x) => beqb x s | _ => false end.

(* ---- TorConfigType.validate / .parse, by shape ---- *)
Definition validate (vk : validate_kind) (v : pyval) : res pyval :=
  match vk with
  | VIdentity => Ok v
  | VBool01 => do b <- py_truth v; Ok (PAtom (AInt (if b then 1%Z else 0%Z)))
  | VBoolAuto =>
      do z <- py_int v;
      Ok (PAtom (if (z <? 0)%Z then AStr auto_str else if Z.eqb z 0 then AInt 0 else AInt 1))
  | VInt => do z <- py_int v; Ok (PAtom (AInt z))
  | VLineList => match v with PList l => Ok (PList l) | PAtom _ => Exc E_Value end
  end.

Definition parse (pk : parse_kind) (v : pyval) : res pyval :=
  match pk with
  | PIdentity => Ok v
  | PBool => do z <- py_int v; Ok (PAtom (ABool (negb (Z.eqb z 0))))
  | PBoolAuto =>
      if pyval_is_str v auto_str then Ok (PAtom (AInt (-1)))
      else do z <- py_int v;
           Ok (PAtom (AInt (if (z <? 0)%Z then (-1)%Z else if Z.eqb z 0 then 0%Z else 1%Z)))
  | PInt => do z <- py_int v; Ok (PAtom (AInt z))
  | PFloat => do a <- py_float v; Ok (PAtom a)
  | PComma =>
      match v with
      | PAtom (AStr s) => Ok (PList (map (fun x => AStr (strip x)) (split_on COMMA s)))
      | _ => Exc E_Attribute
      end
  | PLines =>
      match v with
      | PList l => Ok (PList (map (fun x => AStr (strip (atom_text x))) l))
      | PAtom (AStr s) => Ok (PList (map (fun x => AStr (strip x)) (split_on LF s)))
      | PAtom _ => Exc E_Attribute
      end
  end.

(* ---- _find_real_name ---- *)
Definition find_real_name (st : mst) (name : bytes) : bytes :=
  match find (fun k => ci_eqb k name) (map fst (m_parsers st) ++ map fst (m_config st)) with
  | Some k => k
  | None => name
  end.

(* config[k] = v.  If the pending entry of k is the old config[k] object it keeps that object. *)
Definition set_config (st : mst) (k : bytes) (v : cval) : mst :=
  let u := match dget k (m_unsaved st), dget k (m_config st) with
           | Some UAlias, Some old => dset k (UVal old) (m_unsaved st)
           | _, _ => m_unsaved st
           end in
  {| m_parsers := m_parsers st; m_listp := m_listp st; m_defaults := m_defaults st;
     m_config := dset k v (m_config st); m_unsaved := u |}.

Definition hiddenservices_lc : bytes := bs "hiddenservices".

(* ---- __setattr__ (a protocol is attached: no _accept_all_) ---- *)
Definition m_setattr (st : mst) (name : bytes) (v : pyval) : res mst :=
  let name1 := find_real_name st name in
  if ci_eqb name1 hiddenservices_lc then Oos else
  match dget name1 (m_parsers st) with
  | None => Exc E_Key
  | Some (_, vk, _) =>
      do v1 <- validate vk v;
      let value := cval_of_pyval true v1 in           (* every list is wrapped in a _ListWrapper *)
      let name2 := find_real_name st name1 in
      Ok (with_unsaved st (dset name2 (UVal value) (m_unsaved st)))
  end.

(* ---- __getattr__ ---- *)
Inductive gotten := GConfig (v : cval) | GDefault (d : dval).

Definition m_getattr (st : mst) (name : bytes) : res (mst * bytes * gotten) :=
  let rn := find_real_name st name in
  let st1 := if mem_bytes (lower rn) (m_listp st) && negb (dmem rn (m_config st))
             then with_config st (dset rn (CList true []) (m_config st)) else st in
  match dget rn (m_config st1) with
  | None => Exc E_Key
  | Some v =>
      match v with
      | CAtom (AStr s) =>
          if beqb s DEFAULT_VALUE then
            match dget rn (m_defaults st1) with
            | Some d => Ok (st1, rn, GDefault d)
            | None => Ok (st1, rn, GConfig v)
            end
          else Ok (st1, rn, GConfig v)
      | _ => Ok (st1, rn, GConfig v)
      end
  end.

Definition rval_of_gotten (g : gotten) : rval :=
  match g with
  | GConfig (CAtom a) => RAtom a
  | GConfig (CList w l) => RList w (map atom_text l)
  | GDefault (DStr s) => RAtom (AStr s)
  | GDefault (DList l) => RList false l
  end.

Definition m_read (st : mst) (name : bytes) : option (mst * rres) :=
  match m_getattr st name with
  | Ok (st1, _, g) => Some (st1, RGot (rval_of_gotten g))
  | Exc k => Some (st, RExc k)
  | Oos => None
  end.

Fixpoint m_snapshot (st : mst) (names : list bytes) : option (mst * list rres) :=
  match names with
  | [] => Some (st, [])
  | n :: rest =>
      match m_read st n with
      | Some (st1, r) =>
          match m_snapshot st1 rest with
          | Some (st2, rs) => Some (st2, r :: rs)
          | None => None
          end
      | None => None
      end
  end.

(* ---- mark_unsaved ---- *)
(* `name` is the name the wrapper was created with; in this model that is always the real name
   under which the list is stored (anything else is Oos), so that
   `self.unsaved[name] = self.config[self._find_real_name(name)]` is "unsaved[n] is config[n]" *)
Definition mark_unsaved (st : mst) (name : bytes) : res mst :=
  let n := find_real_name st name in
  if negb (beqb n name) then Oos else
  if dmem n (m_config st) && negb (dmem n (m_unsaved st))
  then Ok (with_unsaved st (dset n UAlias (m_unsaved st)))
  else Ok st.

Definition wrapped_of (o : lop) : wrapped_op :=
  match o with
  | LAppend _ => WAppend | LExtend _ => WExtend | LInsert _ _ => WInsert
  | LRemove _ => WRemove | LPop _ => WPop | LSetItem _ _ => WSetItem
  end.
Definition is_wrapped (o : lop) : bool := existsb (wrapped_op_eqb (wrapped_of o)) wrapped_list_ops.

(* ---- config.<name>.<op>(...) ---- *)
(* result: new state and None (returned normally) or Some exception *)
Definition m_listop (st : mst) (name : bytes) (o : lop) : res (mst * option N) :=
  match m_getattr st name with
  | Oos => Oos
  | Exc k => Ok (st, Some k)
  | Ok (st1, rn, g) =>
      match g with
      | GConfig (CList w l) =>
          (* an untracked list (w = false) is a plain Python list: the operation just happens.
             (Plain lists that are the very object held by _defaults never get here: the places
             that would store one yield Oos, see setup_own / conf_changed_item.) *)
          if on_modify_before_op then
            (* _wrapture: on_modify(), then the list method *)
            do st2 <- (if w && is_wrapped o then mark_unsaved st1 rn else Ok st1);
            match py_list_op o l with
            | inl l' => Ok (with_config st2 (dset rn (CList w l') (m_config st2)), None)
            | inr k => Ok (st2, Some k)
            end
          else
            (* _wrapture: the list method, then (if it returned) on_modify() *)
            match py_list_op o l with
            | inl l' =>
                let st2 := with_config st1 (dset rn (CList w l') (m_config st1)) in
                do st3 <- (if w && is_wrapped o then mark_unsaved st2 rn else Ok st2);
                Ok (st3, None)
            | inr k => Ok (st1, Some k)
            end
      | GConfig (CAtom _) | GDefault (DStr _) =>
          (* a str / int / bool / float has none of the list methods; item assignment is a TypeError *)
          Ok (st1, Some (match o with LSetItem _ _ => E_Type | _ => E_Attribute end))
      | GDefault (DList _) => Oos
      end
  end.

(* ---- set_conf's quoting ---- *)
Definition replace_char (raw : ascii) (esc : bytes) (s : bytes) : bytes :=
  flat_map (fun c => if Ascii.eqb c raw then esc else [c]) s.

Definition maybe_quote (s : bytes) : bytes :=
  if existsb (fun t => memb (ch t) s) setconf_quote_triggers then
    DQ :: fold_left (fun acc (e : N * list N) => replace_char (ch (fst e)) (map ch (snd e)) acc) setconf_escapes s ++ [DQ]
  else s.

Definition key_refused (k : bytes) : bool :=
  match k with
  | [] => true
  | _ => existsb (fun c => is_space c || existsb (fun b => code c =? b) setconf_key_refused) k
  end.

Definition SETCONF_prefix : bytes := bs "SETCONF ".

Definition setconf_line (args : list (bytes * bytes)) : bytes :=
  SETCONF_prefix ++ join [SP] (map (fun kv : bytes * bytes => fst kv ++ [EQC] ++ maybe_quote (snd kv)) args).

(* ---- save() ---- *)
(* the loop over self.unsaved.items(): accumulates the SETCONF arguments and stores into config *)
Fixpoint save_loop (st : mst) (items : list (bytes * uval)) (args : list (bytes * bytes))
  : res (mst * list (bytes * bytes)) :=
  match items with
  | [] => Ok (st, args)
  | (key, uv) :: rest =>
      if beqb key (bs "HiddenServices") then Oos else
      match (match uv with UAlias => dget key (m_config st) | UVal v => Some v end) with
      | None => Oos
      | Some value =>
          let real_name := find_real_name st key in
          if negb (beqb real_name key) then Oos else
          match value with
          | CList w l =>
              if existsb (fun x => match x with AStr s => beqb s DEFAULT_VALUE | _ => false end) l then Oos else
              let args' := args ++ map (fun x => (key, atom_text x)) l in
              (* config[real_name] = value : the very same list object *)
              let st1 := {| m_parsers := m_parsers st; m_listp := m_listp st; m_defaults := m_defaults st;
                            m_config := dset key value (m_config st);
                            m_unsaved := dset key UAlias (m_unsaved st) |} in
              save_loop st1 rest args'
          | CAtom a =>
              let args' := args ++ [(key, atom_text a)] in
              match dget real_name (m_parsers st) with
              | Some (pk, _, _) =>
                  do pv <- parse pk (PAtom a);
                  save_loop (set_config st real_name (cval_of_pyval true pv)) rest args'
              | None => save_loop (set_config st real_name value) rest args'
              end
          end
      end
  end.

(* (state, lines written, outcome) *)
Definition m_save (st : mst) (rej : option N) : option (mst * list bytes * sres) :=
  match m_unsaved st with
  | [] => Some (st, [], SOk)
  | items =>
      match save_loop st items [] with
      | Oos => None
      | Exc k => None       (* save() raising part-way is outside the envelope (see notes/C10.md) *)
      | Ok (st1, args) =>
          if existsb (fun kv : bytes * bytes => key_refused (fst kv)) args then Some (st1, [], SErr E_Value)
          else
            let line := setconf_line args in
            match rej with
            | None => Some (with_unsaved st1 [], [line], SOk)      (* _save_completed *)
            | Some c => Some (st1, [line], SFail c)
            end
      end
  end.

(* ---- bootstrap ---- *)
Definition unquote (w : bytes) : bytes :=
  match w with
  | [] => []
  | c :: _ =>
      match rev w with
      | d :: _ =>
          if (Ascii.eqb c DQ && Ascii.eqb d DQ) || (Ascii.eqb c (ch 39) && Ascii.eqb d (ch 39))
          then removelast (tl w) else w
      | [] => w
      end
  end.

(* what get_conf(name)[name] is, given Tor's values for the option *)
Definition getconf_value (vals : list bytes) : pyval :=
  match vals with
  | [] => PAtom (AStr DEFAULT_VALUE)
  | [v] => PAtom (AStr (unquote v))
  | vs => PList (map (fun v => AStr (unquote v)) vs)
  end.

Definition add_default (d : list (bytes * dval)) (l : bytes * bytes) : list (bytes * dval) :=
  match dget (fst l) d with
  | Some (DList x) => dset (fst l) (DList (x ++ [snd l])) d
  | Some (DStr s) => dset (fst l) (DList [s; snd l]) d
  | None => dset (fst l) (DStr (snd l)) d
  end.

Definition lookup_type (tyname : bytes) : option tyinfo :=
  fold_left (fun acc (e : string * tyinfo) => if beqb (bs (fst e)) tyname then Some (snd e) else acc)
            config_types None.

Definition skip_types : list bytes := [bs "Dependant"; bs "Dependent"; bs "Virtual"].
Definition PortLines_sfx : bytes := bs "PortLines".
Definition plus_to_underscore (b : bytes) : bytes := map (fun c => if Ascii.eqb c PLUS then ch 95 else c) b.

Definition pyval_eq_default_list (v : pyval) : bool :=
  match v with PList [AStr s] => beqb s DEFAULT_VALUE | _ => false end.

Definition pyval_of_dval (d : dval) : pyval :=
  match d with DStr s => PAtom (AStr s) | DList l => PList (map AStr l) end.

(* `if not isinstance(v, list): v = [v]` *)
Definition aslist (v : pyval) : list atom := match v with PList l => l | PAtom a => [a] end.

(* `parsed = defaults.get(rn, []); if not isinstance(parsed, list): parsed = parser.parse(parsed)`,
   then handed to _ListWrapper (which copies) *)
Definition list_default (pk : parse_kind) (d : option dval) : res (list atom) :=
  match d with
  | None => Ok []
  | Some (DList dl) => Ok (map AStr dl)
  | Some (DStr s) =>
      do p <- parse pk (PAtom (AStr s));
      match p with PList l => Ok l | PAtom _ => Oos end
  end.

(* `initial` of the *PortLines branch of _do_setup, before it is made a list *)
Definition ports_initial (store : list (bytes * list bytes)) (defaults : list (bytes * dval)) (base : bytes) : pyval :=
  let v := getconf_value (store_get store base) in
  if pyval_is_str v DEFAULT_VALUE || pyval_is_str v auto_str then
    match dget base defaults with
    | Some d => pyval_of_dval d
    | None =>
        (* get_conf_single('__<X>') *)
        let d := getconf_value (store_get store (bs "__" ++ base)) in
        if pyval_is_str d [] || pyval_is_str d DEFAULT_VALUE then PList [] else d
    end
  else v.

(* the port list a row "<X>PortLines" announces *)
Definition setup_ports (store : list (bytes * list bytes)) (st : mst) (name : bytes) : res mst :=
  if suffixb PortLines_sfx name then
    let base := drop_last 5 name in
    let rn := find_real_name st base in
    match lookup_type (bs "String") with
    | None => Oos
    | Some sty =>
        let stp := {| m_parsers := dset rn sty (m_parsers st); m_listp := m_listp st ++ [rn];
                      m_defaults := m_defaults st; m_config := m_config st; m_unsaved := m_unsaved st |} in
        (* one line comes back as a string, several as a list; _ListWrapper copies *)
        Ok (set_config stp rn (CList true (aslist (ports_initial store (m_defaults st) base))))
    end
  else Ok st.

(* the row's own option *)
Definition setup_own (store : list (bytes * list bytes)) (st1 : mst) (name value : bytes) : res mst :=
  if mem_bytes value skip_types then Ok st1 else
  match lookup_type (plus_to_underscore value) with
  | None => Exc E_Runtime
  | Some (pk, vk, il) =>
      let v := getconf_value (store_get store name) in
      let rn := find_real_name st1 name in
      let st2 := {| m_parsers := dset rn (pk, vk, il) (m_parsers st1); m_listp := m_listp st1;
                    m_defaults := m_defaults st1; m_config := m_config st1; m_unsaved := m_unsaved st1 |} in
      if il then
        let st3 := {| m_parsers := m_parsers st2; m_listp := m_listp st2 ++ [rn];
                      m_defaults := m_defaults st2; m_config := m_config st2; m_unsaved := m_unsaved st2 |} in
        do parsed <- parse pk v;
        match parsed with
        | PAtom _ => Oos
        | PList l =>
            do l' <- (if pyval_eq_default_list parsed then list_default pk (dget rn (m_defaults st3)) else Ok l);
            Ok (set_config st3 rn (CList true l'))
        end
      else
        do parsed <-
          (if pyval_is_str v [] || pyval_is_str v DEFAULT_VALUE then
             match dget rn (m_defaults st2) with
             | Some (DStr s) => parse pk (PAtom (AStr s))
             | Some (DList dl) => Oos        (* parse(the list object of _defaults): shared, not modelled *)
             | None => parse pk (PAtom (AStr DEFAULT_VALUE))
             end
           else parse pk v);
        Ok (set_config st2 rn (cval_of_pyval false parsed))
  end.

Definition setup_row (store : list (bytes * list bytes)) (st : mst) (row : bytes * bytes) : res mst :=
  let '(name, value) := row in
  if beqb name (bs "HiddenServiceOptions") then Oos else
  do st1 <- setup_ports store st name;
  setup_own store st1 name value.

Fixpoint setup_rows (store : list (bytes * list bytes)) (st : mst) (rows : list (bytes * bytes)) : res mst :=
  match rows with
  | [] => Ok st
  | r :: rest => do st1 <- setup_row store st r; setup_rows store st1 rest
  end.

(* TorConfig() + assignments + attach_protocol(): without a protocol nothing is validated (_accept_all_),
   every list is wrapped, the value goes to `unsaved` under the spelling used (parsers and config are empty,
   so _find_real_name returns the name as given; a second assignment to the same name replaces the first);
   attach_protocol() first calls save(), which without a protocol moves every entry of `unsaved` into
   `config` as it is and empties `unsaved`; then _accept_all_ is deleted and bootstrap runs.
   So the attachment starts from this `config`: *)
Definition pre_config (pre : option (list (bytes * pyval))) : list (bytes * cval) :=
  match pre with
  | None => []
  | Some l => fold_left (fun c (p : bytes * pyval) => dset (fst p) (cval_of_pyval true (snd p)) c) l []
  end.

Definition m_bootstrap (i : cfg_input) : res mst :=
  let defaults := match i_defaults i with None => [] | Some ls => fold_left add_default ls [] end in
  let st0 := {| m_parsers := []; m_listp := [bs "hiddenservices"; bs "ephemeralonionservices"];
                m_defaults := defaults; m_config := pre_config (i_pre i); m_unsaved := [] |} in
  do st1 <- setup_rows (i_store i) st0 (i_table i);
  let st2 := set_config st1 (bs "EphemeralOnionServices") (CList false []) in
  Ok (set_config st2 (bs "DetachedOnionServices") (CList false [])).

(* ---- parse_keywords(arg, multiline_values=False) and _conf_changed ---- *)
Inductive kwval := KwStr (s : bytes) | KwList (l : list bytes).

Definition kw_add (rtn : list (bytes * kwval)) (key v : bytes) : list (bytes * kwval) :=
  match dget key rtn with
  | Some (KwList l) => dset key (KwList (l ++ [v])) rtn
  | Some (KwStr s) => dset key (KwList [s; v]) rtn
  | None => dset key (KwStr v) rtn
  end.

Definition OK_word : bytes := bs "OK".

Definition split_eq1 (line : bytes) : option (bytes * bytes) :=
  if memb EQC line then
    match split_on EQC line with
    | k :: rest => Some (k, join [EQC] rest)
    | [] => None
    end
  else None.

Definition kw_step (s : list (bytes * kwval) * option bytes * bytes) (line : bytes)
  : list (bytes * kwval) * option bytes * bytes :=
  let '(rtn, key, value) := s in
  if beqb (strip line) OK_word then s else
  let found := match split_eq1 line with
               | Some (k, v) => if memb SP k then None else Some (k, v)
               | None => None
               end in
  match found with
  | Some (k, v) =>
      let rtn1 := match key with
                  | Some (c :: kr) => kw_add rtn (c :: kr) (unquote value)
                  | _ => rtn
                  end in
      (rtn1, Some k, v)
  | None =>
      match key with
      | None => (dset (strip line) (KwStr DEFAULT_VALUE) rtn, key, value)
      | Some k =>
          (* accumulated like above, but the value is NOT unquoted *)
          (dset (strip line) (KwStr DEFAULT_VALUE) (kw_add rtn k value), None, [])
      end
  end.

Definition parse_keywords_single (lines : list bytes) : list (bytes * kwval) :=
  let '(rtn, key, value) := fold_left kw_step lines ([], None, []) in
  match key with
  | Some (c :: kr) => kw_add rtn (c :: kr) (unquote value)
  | _ => rtn
  end.

Definition event_lines (items : list (bytes * option bytes)) : list bytes :=
  map (fun it : bytes * option bytes =>
         match snd it with Some v => fst it ++ [EQC] ++ v | None => fst it end) items ++ [OK_word].

Definition pyval_of_kw (v : kwval) : pyval :=
  match v with KwStr s => PAtom (AStr s) | KwList l => PList (map AStr l) end.

(* the value _conf_changed computes for an option that has a parser (inside its try block) *)
Definition conf_changed_value (st : mst) (real_name : bytes) (ty : tyinfo) (v : pyval) : res cval :=
  let '(pk, _, il) := ty in
  if mem_bytes real_name (m_listp st) && negb il then
    (* a port list: its lines are kept as they are *)
    let v1 := if pyval_is_str v DEFAULT_VALUE
              then match dget real_name (m_defaults st) with Some d => pyval_of_dval d | None => PList [] end
              else v in
    Ok (CList true (aslist v1))
  else if il then
    do parsed <- parse pk v;
    match parsed with
    | PAtom _ => Oos
    | PList l =>
        do l' <- (if pyval_eq_default_list parsed then list_default pk (dget real_name (m_defaults st)) else Ok l);
        Ok (CList true l')
    end
  else if negb (pyval_is_str v DEFAULT_VALUE) then
    do parsed <- parse pk v; Ok (cval_of_pyval false parsed)
  else match dget real_name (m_defaults st) with
       | Some (DStr s) => do parsed <- parse pk (PAtom (AStr s)); Ok (cval_of_pyval false parsed)
       | Some (DList dl) => Oos       (* the list object of _defaults itself: shared, not modelled *)
       | None => Ok (cval_of_pyval false v)
       end.

(* one (k, v) of conf.items(); a ValueError/TypeError is recorded and re-raised after the loop *)
Definition conf_changed_item (st : mst) (kv : bytes * kwval) : res mst :=
  let '(k, v0) := kv in
  let real_name := find_real_name st k in
  let v := pyval_of_kw v0 in
  match dget real_name (m_parsers st) with
  | Some ty =>
      match conf_changed_value st real_name ty v with
      | Ok cv => Ok (set_config st real_name cv)
      | Exc k' => if (k' =? E_Value) || (k' =? E_Type) then Ok st     (* recorded, re-raised at the end *)
                  else Oos                                          (* other exceptions abort the handler *)
      | Oos => Oos
      end
  | None => Ok (set_config st real_name (cval_of_pyval false v))
  end.

Fixpoint conf_changed_items (st : mst) (kvs : list (bytes * kwval)) : res mst :=
  match kvs with
  | [] => Ok st
  | kv :: rest => do st1 <- conf_changed_item st kv; conf_changed_items st1 rest
  end.

Definition m_conf_changed (st : mst) (items : list (bytes * option bytes)) : res mst :=
  conf_changed_items st (parse_keywords_single (event_lines items)).

(* ---- socks_endpoint(reactor) ---- *)
(* line.split() on a text whose only white space is the space character *)
Definition words (line : bytes) : list bytes :=
  filter (fun t => match t with [] => false | _ => true end) (split_on SP line).

Inductive line_res := LEndpoint (e : sockres) | LSkip | LRaise (k : N) | LOos.

(* one iteration of _first_usable_socks_endpoint: the "0" test, then _endpoint_from_socksport_line *)
Definition socks_line (line : bytes) : line_res :=
  if existsb (fun c => is_space c && negb (Ascii.eqb c SP)) line then LOos else
  match words line with
  | [] => LRaise E_Index                              (* line.split()[0] *)
  | tok :: _ =>
      if beqb tok [ch 48] then LSkip else
      if prefixb (bs "unix:") line then LEndpoint (SockUnix (skipn 5 tok)) else
      let cfg := if memb SP line then tok else line in
      if memb COLON cfg then
        match split_on COLON cfg with
        | h :: rest =>
            match str_int (join [COLON] rest) with
            | Ok (Zneg _) | Oos => LOos
            | Ok p => LEndpoint (SockTcp h (Z.to_N p))
            | Exc k => if k =? E_Value then LSkip else LRaise k
            end
        | [] => LOos
        end
      else match str_int cfg with
           | Ok (Zneg _) | Oos => LOos
           | Ok p => LEndpoint (SockTcp (bs "127.0.0.1") (Z.to_N p))
           | Exc k => if k =? E_Value then LSkip else LRaise k
           end
  end.

Fixpoint socks_lines (lines : list atom) : option sockres :=
  match lines with
  | [] => Some (SockExc E_Runtime)                    (* No usable SOCKS ports configured *)
  | AStr line :: rest =>
      match socks_line line with
      | LEndpoint e => Some e
      | LSkip => socks_lines rest
      | LRaise k => Some (SockExc k)
      | LOos => None
      end
  | AInt _ :: _ => Some (SockExc E_Attribute)         (* line.split() on an int *)
  | _ :: _ => None
  end.

Definition m_socks (st : mst) : option (mst * sockres) :=
  match m_getattr st (bs "SocksPort") with
  | Oos => None
  | Exc k => Some (st, SockExc k)
  | Ok (st1, _, g) =>
      match g with
      | GConfig (CList _ []) => Some (st1, SockExc E_Runtime)     (* No SOCKS ports configured *)
      | GConfig (CList _ lines) => option_map (fun r => (st1, r)) (socks_lines lines)
      | GDefault (DList []) => Some (st1, SockExc E_Runtime)
      | GDefault (DList lines) => option_map (fun r => (st1, r)) (socks_lines (map AStr lines))
      (* a str: len() counts and the loop visits its characters *)
      | GConfig (CAtom (AStr [])) | GDefault (DStr []) => Some (st1, SockExc E_Runtime)
      | GConfig (CAtom (AStr s)) | GDefault (DStr s) =>
          option_map (fun r => (st1, r)) (socks_lines (map (fun c => AStr [c]) s))
      | GConfig (CAtom _) => Some (st1, SockExc E_Type)          (* len() of a number *)
      end
  end.

(* ---- one operation ---- *)
Definition option_names (i : cfg_input) : list bytes := map fst (options (i_table i)).

Definition m_step_gen (flight : mst -> option N -> list dop -> option (mst * obs))
           (names : list bytes) (st : mst) (o : op) : option (mst * obs) :=
  match o with
  | OpAssign name v =>
      match m_setattr st name v with
      | Ok st1 => Some (st1, {| o_wrote := []; o_res := XOk |})
      | Exc k => Some (st, {| o_wrote := []; o_res := XRaised k |})
      | Oos => None
      end
  | OpListOp name lo =>
      match m_listop st name lo with
      | Ok (st1, None) => Some (st1, {| o_wrote := []; o_res := XOk |})
      | Ok (st1, Some k) => Some (st1, {| o_wrote := []; o_res := XRaised k |})
      | _ => None
      end
  | OpRead name =>
      match m_read st name with
      | Some (st1, RGot v) => Some (st1, {| o_wrote := []; o_res := XVal v |})
      | Some (st1, RExc k) => Some (st1, {| o_wrote := []; o_res := XRaised k |})
      | None => None
      end
  | OpNeedsSave =>
      Some (st, {| o_wrote := []; o_res := XBool (match m_unsaved st with [] => false | _ => true end) |})
  | OpSave rej =>
      match m_save st rej with
      | Some (st1, wrote, r) =>
          match m_snapshot st1 names with
          | Some (st2, snap) =>
              Some (st2, {| o_wrote := wrote;
                            o_res := XSaved r (match m_unsaved st1 with [] => false | _ => true end) snap |})
          | None => None
          end
      | None => None
      end
  | OpEvent items =>
      match m_conf_changed st items with
      | Ok st1 =>
          match m_snapshot st1 names with
          | Some (st2, snap) =>
              Some (st2, {| o_wrote := [];
                            o_res := XEvent (match m_unsaved st1 with [] => false | _ => true end) snap |})
          | None => None
          end
      | _ => None
      end
  | OpSocks =>
      match m_socks st with
      | Some (st1, r) => Some (st1, {| o_wrote := []; o_res := XSocks r |})
      | None => None
      end
  | OpCopy dst src =>
      (* setattr(config, dst, getattr(config, src)).  __setattr__ hands every list it is given to
         _ListWrapper(value, ...), which COPIES it (Gen: _ListWrapper.__init__ shape), so the object
         read from src and the one stored for dst are different objects with equal contents: the
         by-value assignment below is exact *)
      match m_getattr st src with
      | Oos => None
      | Exc k => Some (st, {| o_wrote := []; o_res := XRaised k |})
      | Ok (st1, _, g) =>
          let v := match g with
                   | GConfig (CAtom a) => PAtom a
                   | GConfig (CList _ l) => PList l
                   | GDefault (DStr s) => PAtom (AStr s)
                   | GDefault (DList l) => PList (map AStr l)
                   end in
          match m_setattr st1 dst v with
          | Ok st2 => Some (st2, {| o_wrote := []; o_res := XOk |})
          | Exc k => Some (st1, {| o_wrote := []; o_res := XRaised k |})
          | Oos => None
          end
      end
  | OpSaveDuring rej ds => flight st rej ds
  end.

(* ---- save() whose answer is still to come ----
   save() runs its loop (config takes the pending values) and hands the SETCONF to the protocol, which
   writes it at once or, while another command is unanswered, once that one is answered.  Only the
   callback on "250 OK" (_save_completed) does `unsaved = {}`; a 5xx answer changes nothing. *)
(* what a SETCONF carries: per pending entry the object (a list: its elements at that moment) *)
Definition sent_t := list (bytes * option cval).
Inductive call := CDone | CLine (line : bytes) (sent : sent_t).

Definition resolve_u (st : mst) (k : bytes) (u : uval) : option cval :=
  match u with UAlias => dget k (m_config st) | UVal v => Some v end.

Definition m_send (st : mst) : option (mst * call) :=
  match m_unsaved st with
  | [] => Some (st, CDone)                       (* not needs_save(): defer.succeed(self) *)
  | items =>
      match save_loop st items [] with
      | Ok (st1, args) =>
          if existsb (fun kv : bytes * bytes => key_refused (fst kv)) args then None
          else Some (st1, CLine (setconf_line args)
                               (map (fun ku : bytes * uval => (fst ku, resolve_u st1 (fst ku) (snd ku))) (m_unsaved st1)))
      | _ => None
      end
  end.

Definition m_step_base : list bytes -> mst -> op -> option (mst * obs) := m_step_gen (fun _ _ _ => None).

(* the name under which __setattr__ stores the value *)
Definition setattr_key (st : mst) (name : bytes) : bytes := find_real_name st (find_real_name st name).

(* [out]: the unanswered saves, oldest first: what each one carried, and the options ASSIGNED since it was
   sent (their entry of `unsaved` is another object now: `unsaved[key] is value` fails) *)
Fixpoint m_inner (names : list bytes) (st : mst) (out : list (sent_t * list bytes)) (ds : list dop)
  : option (mst * list ires * list call * list (sent_t * list bytes)) :=
  match ds with
  | [] => Some (st, [], [], out)
  | d :: ds' =>
      match op_of_dop d with
      | None =>
          match m_send st with
          | Some (st1, c) =>
              let out1 := match c with CLine _ sent => out ++ [(sent, [])] | CDone => out end in
              match m_inner names st1 out1 ds' with
              | Some (st2, rs, cs, out2) => Some (st2, ISent :: rs, c :: cs, out2)
              | None => None
              end
          | None => None
          end
      | Some o =>
          match m_step_base names st o with
          | Some (st1, ob) =>
              match o_wrote ob, ires_of_ores (o_res ob) with
              | [], Some r =>
                  let out1 := match d, r with
                              | DAssign name _, IOk =>
                                  map (fun x : sent_t * list bytes => (fst x, setattr_key st name :: snd x)) out
                              | _, _ => out
                              end in
                  match m_inner names st1 out1 ds' with
                  | Some (st2, rs, cs, out2) => Some (st2, r :: rs, cs, out2)
                  | None => None
                  end
              | _, _ => None
              end
          | None => None
          end
      end
  end.

Definition call_lines (cs : list call) : list bytes :=
  concat (map (fun c => match c with CLine l _ => [l] | CDone => [] end) cs).

(* _save_completed(result, sent): the loop `for (key, value, snapshot) in sent: if key in unsaved and
   unsaved[key] is value and (not a list or list(value) == snapshot): del unsaved[key]` removes exactly the
   entries that are [acked]: named by `sent`, not assigned since (still the same object), and -- a list --
   holding the same elements as when it was sent; the other entries keep their order *)
Definition acked (touched : list bytes) (st : mst) (sent : sent_t) (ku : bytes * uval) : bool :=
  match dget (fst ku) sent with
  | None => false
  | Some ov =>
      negb (mem_bytes (fst ku) touched) &&
      match ov with
      | Some (CList _ l) =>
          match resolve_u st (fst ku) (snd ku) with
          | Some (CList _ l') => list_eqb atom_eqb l l'
          | _ => false
          end
      | _ => true
      end
  end.
Definition m_ack (st : mst) (o : sent_t * list bytes) : mst :=
  with_unsaved st (filter (fun ku => negb (acked (snd o) st (fst o) ku)) (m_unsaved st)).

Definition m_flight (names : list bytes) (st : mst) (rej : option N) (ds : list dop) : option (mst * obs) :=
  match m_send st with
  | None => None
  | Some (st0, c0) =>
      let out0 := match c0 with CLine _ sent => [(sent, [])] | CDone => [] end in
      match m_inner names st0 out0 ds with
      | None => None
      | Some (st1, rs, cs, out) =>
          let calls := c0 :: cs in
          let lines := call_lines calls in
          (* every outstanding SETCONF is answered, oldest first *)
          let st2 := match rej with None => fold_left m_ack out st1 | Some _ => st1 end in
          let outs := map (fun c => match c with
                                    | CDone => SOk
                                    | CLine _ _ => match rej with None => SOk | Some code => SFail code end
                                    end) calls in
          match m_snapshot st2 names with
          | Some (st3, snap) =>
              Some (st3, {| o_wrote := lines;
                            o_res := XFlight rs outs (match m_unsaved st2 with [] => false | _ => true end) snap |})
          | None => None
          end
      end
  end.

Definition m_step (names : list bytes) : mst -> op -> option (mst * obs) := m_step_gen (m_flight names) names.

Fixpoint m_run (names : list bytes) (st : mst) (ops : list op) : option (list obs) :=
  match ops with
  | [] => Some []
  | o :: rest =>
      match m_step names st o with
      | Some (st1, ob) => option_map (cons ob) (m_run names st1 rest)
      | None => None
      end
  end.

(* the whole case: did bootstrap succeed, the snapshot right after it, the trace.
   None = outside the modelled envelope *)
Definition model_run (i : cfg_input) : option (bool * list rres * list obs) :=
  match m_bootstrap i with
  | Oos => None
  | Exc _ => Some (false, [], [])
  | Ok st0 =>
      match m_snapshot st0 (option_names i) with
      | Some (st1, snap) =>
          match m_run (option_names i) st1 (i_ops i) with
          | Some tr => Some (true, snap, tr)
          | None => None
          end
      | None => None
      end
  end.
