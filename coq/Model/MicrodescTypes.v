(* Names used by Gen/MicrodescTable.v (regenerated from txtorcon/_microdesc_parser.py): the states
   of the spaghetti FSM, the recognised matcher shapes and the handler names.  A name that does
   not exist here makes the regenerated file fail to compile (fail-closed). *)
From Coq Require Import List String.
Import ListNotations.

Inductive pst := waiting_r | waiting_s | waiting_w | waiting_p.

Inductive pmatch :=
| MIgnorable                          (* ignorable_line *)
| MStarts (lit : string)              (* lambda x: x.startswith(lit) *)
| MNotStarts (lits : list string)     (* lambda x: not x.startswith(l1) and not x.startswith(l2) ... *)
| MStripEq (lit : string)             (* lambda x: x.strip() == lit *)
| MSliceNe (n : nat) (lit : string).  (* lambda x: x[:n] != lit *)

Inductive phandle := HNone | HBegin | HFlags | HAddress | HBandwidth | HPolicy | HDie.

Record ptrans := { p_from : pst; p_to : pst; p_match : pmatch; p_handle : phandle }.

(* value of one keyword of _router_begin's dict(...) in terms of args = data.split()[1:] *)
Inductive fexpr := FArg (i : nat) | FJoin (i j : nat).   (* args[i] | args[i] + ' ' + args[j] *)

Definition pst_eqb (a b : pst) : bool :=
  match a, b with
  | waiting_r, waiting_r | waiting_s, waiting_s | waiting_w, waiting_w | waiting_p, waiting_p => true
  | _, _ => false
  end.
