(* Model of txtorcon/endpoints.py: TCPHiddenServiceEndpoint.__init__ / listen, TorOnionListeningPort,
   TCPHiddenServiceEndpointParser.parseStreamServer (+ global_tor / system_tor) and of
   controller.py: Tor.create_*_endpoint, as the code is NOW.  The service creation inside listen()
   is Model/DescUpload.v (C15), unchanged.  No proofs here.

   Mirrored, in the code's order:
   * parseStreamServer: privateKeyFile & privateKey -> ValueError; load the key file (not a key ->
     ValueError); hiddenServiceDir & key -> ValueError; singleHop must be true/false/1/0 (any case);
     version must be an int in {2,3}; hiddenServiceDir & singleHop -> ValueError (fix d08dcab); version 3
     & a key that is not ED25519-V3 -> ValueError (fix 64ae05b); THEN global_tor()/system_tor() first ask
     for the global Tor / connect to the control port and only then call the constructor.
   * __init__: ephemeral defaults to "no hidden_service_dir"; stealth_auth= & auth= -> ValueError,
     else auth = AuthStealth; ephemeral & stealth -> ValueError; ephemeral & dir -> ValueError;
     key & not ephemeral -> ValueError; single_hop & not ephemeral -> ValueError; ephemeral & version 3 &
     RSA1024 key -> ValueError (fix 64ae05b); version None -> 2;
     not ephemeral and no dir -> mkdtemp + addSystemEventTrigger.
   * listen: await config (a non-TorConfig -> ValueError); listenTCP(0, interface=127.0.0.1);
     if the directory is already among config.HiddenServices (those that have a .dir) use that service and
     send nothing, else create the service with ports ["<public> 127.0.0.1:<bound>"]; on ANY exception from creation
     stopListening the local port and re-raise; wrap in TorOnionListeningPort.
     (_add_ephemeral_service still has its own version 3 / key test; the constructor now refuses that
     combination first, so it is unreachable through an endpoint and not modelled.)
   * a lost control connection fails the command in flight; it does not touch `uploaded`. *)
From Coq Require Import List Bool Arith NArith.
From TxVerif Require Import Lib.ListSet Spec.C15 Spec.C17 Model.DescUpload.
Import ListNotations.
Open Scope N_scope.

Inductive built :=
| BRefused (started_tor : bool)
| BOk (started_tor : bool) (q : req).

(* TCPHiddenServiceEndpoint.__init__ *)
Definition ctor_model (a : ctor_args) : option req :=
  let eph := match a_eph a with TNone => negb (a_hsdir a) | TTrue => true | TFalse => false end in
  if a_stealth_kw a && negb (match a_auth a with ANone => true | _ => false end) then None else
  let auth := if a_stealth_kw a then AStealth else a_auth a in
  if eph && (match auth with AStealth => true | _ => false end) then None else
  if eph && a_hsdir a then None else
  if has_key (a_key a) && negb eph then None else
  if tri_true (a_single a) && negb eph then None else
  if eph && (match a_ver a with V3 => true | _ => false end) && (match a_key a with KRsa => true | _ => false end)
  then None else                                              (* fix 64ae05b *)
  Some {| q_eph := eph; q_auth := auth; q_key := a_key a; q_ver := a_ver a; q_single := tri_true (a_single a);
          q_hsdir := a_hsdir a |}.

(* parseStreamServer up to the point where global_tor / system_tor is called *)
Definition parse_model (s : str_args) : option ctor_args :=
  match s_keyfile s, s_key s with
  | (KFRsa | KFEd | KFPem | KFGarbage), (KRsa | KEd) => None
  | KFGarbage, KNone => None
  | kf, k0 =>
    let k := match kf with KFNone => k0 | KFRsa | KFPem => KRsa | KFEd => KEd | KFGarbage => k0 end in
    if s_hsd s && has_key k then None else
    match s_hop s with
    | SHbad => None
    | h =>
      match s_ver s with
      | SVx => None           (* int() fails *)
      | SV4 => None           (* not in (None, 2, 3) *)
      | v =>
        let hop := match h with SHtrue | SH1 | SHTrue => true | _ => false end in
        if s_hsd s && hop then None else                                                   (* fix d08dcab *)
        if (match v with SV3 => true | _ => false end) && (match k with KRsa => true | _ => false end)
        then None else                                                                     (* fix 64ae05b *)
        Some {| a_eph := TNone; a_hsdir := s_hsd s; a_auth := ANone; a_stealth_kw := false; a_key := k;
                a_ver := match v with SV2 => V2 | SV3 => V3 | _ => VNone end;
                a_single := if hop then TTrue else TFalse |}
      end
    end
  end.

Definition build (r : route) : built :=
  match r with
  | RCtor a => match ctor_model a with Some q => BOk false q | None => BRefused false end
  | RTor t => match ctor_model (tor_ctor t) with Some q => BOk false q | None => BRefused false end
  | RStr s => match parse_model s with
              | None => BRefused false
              | Some a => match ctor_model a with Some q => BOk true q | None => BRefused true end
              end
  end.

Definition construct_rec (r : route) : lrec :=
  match build r with
  | BRefused st => {| l_evs := (if st then [OStartedTor] else []) ++ [ORefused]; l_open := 0 |}
  | BOk st q => {| l_evs := (if st then [OStartedTor] else [])
                            ++ (if negb (q_eph q) && negb (q_hsdir q) then [OMkdtemp; OTrigger] else [])
                            ++ [OConstructed]; l_open := 0 |}
  end.

(* ---- listen ---- *)
Inductive phase :=
| PCfg                               (* awaiting the configuration *)
| PCreate (m : DescUpload.st)        (* inside <Service>.create() *)
| POver (ok : bool).                 (* the listen() Deferred has fired *)

Record lst := { p_ph : phase; p_open : bool; p_port : bool (* the user holds an un-stopped port object *); p_oos : bool }.

(* the configuration is there: bind, then create *)
Definition config_ready (c : cfg) (q : req) : lst * list lobs :=
  if negb (g_bind_ok c) then
    ({| p_ph := POver false; p_open := false; p_port := false; p_oos := false |},
     [OListen true true false; OResult (LFail FBind)])
  else if negb (q_eph q) && q_hsdir q && g_same_dir c then
    (* `already`: the directory is one of config.HiddenServices' .dir: nothing is created or sent, the
       existing service object is wrapped at once (the lookup loop skips services without a .dir: fix 0104264) *)
    ({| p_ph := POver true; p_open := true; p_port := true; p_oos := false |},
     [OListen true true true; OResult (LOk true true true)])
  else
    ({| p_ph := PCreate m0; p_open := true; p_port := false; p_oos := false |},
     [OListen true true true; OCmd (q_eph q) [(g_pub c, g_bound c, true)]]).

Definition fail_now (k : fkind) (was_open : bool) : lst * list lobs :=
  ({| p_ph := POver false; p_open := false; p_port := false; p_oos := false |},
   (if was_open then [OStopL true] else []) ++ [OResult (LFail k)]).

Definition oos (s : lst) : lst * list lobs :=
  ({| p_ph := p_ph s; p_open := p_open s; p_port := p_port s; p_oos := true |}, []).

(* what listen() makes of create()'s outcome *)
(* TorOnionAddress.onion_uri / endpoint.onion_uri: for an authenticated service _maybe_unique_host() gives the
   clients' common hostname and raises if they differ (address: None); they differ exactly for stealth
   authentication with more than one client *)
Definition host_reported (c : cfg) (q : req) : bool :=
  negb ((match q_auth q with AStealth => true | _ => false end) && g_two_clients c).

Definition on_done (hok : bool) (s : lst) (m' : DescUpload.st) (evs : list Spec.C15.obs) : lst * list lobs :=
  match dones evs with
  | [] => ({| p_ph := PCreate m'; p_open := p_open s; p_port := false; p_oos := p_oos s |}, [])
  | ROk _ :: _ => ({| p_ph := POver true; p_open := true; p_port := true; p_oos := p_oos s |},
                   [OResult (LOk hok true true)])
  | RUploadFailed :: _ => fail_now FUploads true
  | RRejected :: _ => fail_now FRejected true
  | ROther _ :: _ => fail_now (FOther 0) true
  end.

Definition lstep_model (c : cfg) (q : req) (s : lst) (o : lop) : lst * list lobs :=
  match p_ph s, o with
  | PCfg, LCfgOk => config_ready c q
  | PCfg, LCfgFail => fail_now FConfig false
  | PCfg, LCfgWrong => fail_now FNotConfig false
  | PCreate m, LDesc d =>
      match d, m_rep m with
      | (Reply | Reject), Some _ =>                        (* no command left to answer *)
          ({| p_ph := PCreate (fst (DescUpload.step c15cfg m d)); p_open := p_open s; p_port := p_port s;
              p_oos := p_oos s |}, [ONoop])
      | _, _ => let '(m', evs) := DescUpload.step c15cfg m d in on_done (host_reported c q) s m' evs
      end
  | PCreate m, LDisconnect =>
      match m_rep m with
      | None => fail_now FDisconnected true               (* the command in flight fails *)
      | Some _ => (s, [])                                 (* nothing is in flight: nothing happens *)
      end
  | POver _, LDesc (Reply | Reject) => (s, [ONoop])
  | POver _, (LDesc (Ev _ _ _) | LDisconnect) => (s, [])
  | POver _, LStop =>
      if p_port s then ({| p_ph := p_ph s; p_open := false; p_port := false; p_oos := p_oos s |}, [OStopL true])
      else (s, [ONoStop])
  | PCreate _, LStop => (s, [ONoStop])
  | _, _ => oos s
  end.

Definition lsnap (s : lst) (evs : list lobs) : lrec := {| l_evs := evs; l_open := if p_open s then 1 else 0 |}.

Fixpoint lrun_from (c : cfg) (q : req) (s : lst) (ops : list lop) : list lrec :=
  match ops with
  | [] => []
  | o :: ops' => let '(s', evs) := lstep_model c q s o in lsnap s' evs :: lrun_from c q s' ops'
  end.

Definition listen_call (c : cfg) (q : req) : lst * list lobs :=
  if g_pending c then ({| p_ph := PCfg; p_open := false; p_port := false; p_oos := false |}, [])
  else config_ready c q.

Definition lrun (c : cfg) (ops : list lop) : list lrec :=
  construct_rec (g_route c) ::
  match build (g_route c) with
  | BRefused _ => []
  | BOk _ q => let '(s, evs) := listen_call c q in lsnap s evs :: lrun_from c q s ops
  end.

Fixpoint lfinal_oos (c : cfg) (q : req) (s : lst) (ops : list lop) : bool :=
  match ops with
  | [] => p_oos s
  | o :: ops' => lfinal_oos c q (fst (lstep_model c q s o)) ops'
  end.
