(* Line framing of twisted.protocols.basic.LineOnlyReceiver.dataReceived:
   lines = (buffer + data).split(b"\r\n"); buffer = lines.pop(-1).
   `pysplit` is Python's bytes.split on the two-byte separator, written as a byte-at-a-time
   scanner (leftmost non-overlapping matches; CR LF has no proper border). *)
From Coq Require Import List Bool Ascii Arith NArith Lia.
From TxVerif Require Import Lib.Bytes.
Import ListNotations.

Record sc := { out : list bytes; cur : bytes (* reversed *) }.

Definition scan_step (s : sc) (b : ascii) : sc :=
  match cur s with
  | c :: rest => if Ascii.eqb c CR && Ascii.eqb b LF
                 then {| out := out s ++ [rev rest]; cur := [] |}
                 else {| out := out s; cur := b :: cur s |}
  | [] => {| out := out s; cur := [b] |}
  end.

Fixpoint scan (s : sc) (l : bytes) : sc :=
  match l with [] => s | b :: l' => scan (scan_step s b) l' end.

Definition pysplit (l : bytes) : list bytes * bytes :=
  let s := scan {| out := []; cur := [] |} l in (out s, rev (cur s)).

(* one dataReceived call: complete lines, new buffer *)
Definition feed (buf chunk : bytes) : list bytes * bytes := pysplit (buf ++ chunk).

Fixpoint feed_all (buf : bytes) (chunks : list bytes) : list bytes * bytes :=
  match chunks with
  | [] => ([], buf)
  | c :: cs => let '(ls, b') := feed buf c in
               let '(ls', b'') := feed_all b' cs in (ls ++ ls', b'')
  end.
