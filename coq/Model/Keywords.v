(* Model of txtorcon.torcontrolprotocol.parse_keywords / unquote and of get_info, get_info_single,
   get_conf_single on top of the reply text (the text a plain command resolves with is
   reply_text_ok of the reply item: theorem C01_reply_ok_resolves_inflight). *)
From Coq Require Import List Bool Ascii Arith NArith.
From TxVerif Require Import Lib.Bytes Spec.Ctl Spec.C13 Model.CtlProto.
Import ListNotations.
Open Scope N_scope.

(* str.split('\n') *)
Fixpoint split_lf_go (cur : bytes) (t : bytes) : list bytes :=
  match t with
  | [] => [rev cur]
  | c :: t' => if Ascii.eqb c LF then rev cur :: split_lf_go [] t' else split_lf_go (c :: cur) t'
  end.
Definition split_lf (t : bytes) : list bytes := split_lf_go [] t.

(* line.split('=', 1): None when there is no '=' *)
Fixpoint split_eq (pre : bytes) (l : bytes) : option (bytes * bytes) :=
  match l with
  | [] => None
  | c :: l' => if Ascii.eqb c EQC then Some (rev pre, l') else split_eq (c :: pre) l'
  end.

Definition QUOTE1 : ascii := ch 39.
Definition unquote (w : bytes) : bytes :=
  match w, rev w with
  | a :: w', b :: _ =>
      if (Ascii.eqb a DQ && Ascii.eqb b DQ) || (Ascii.eqb a QUOTE1 && Ascii.eqb b QUOTE1)
      then removelast w' else w
  | _, _ => w
  end.

(* rtn[key] = v with list accumulation; a Python dict keeps the position of an existing key *)
Fixpoint dict_get (d : dict) (k : bytes) : option pval :=
  match d with [] => None | (k', v) :: d' => if beqb k k' then Some v else dict_get d' k end.
Fixpoint dict_set (d : dict) (k : bytes) (v : pval) : dict :=
  match d with
  | [] => [(k, v)]
  | (k', v') :: d' => if beqb k k' then (k, v) :: d' else (k', v') :: dict_set d' k v
  end.
Definition store (d : dict) (k : bytes) (v : bytes) : dict :=
  match dict_get d k with
  | Some (PList l) => dict_set d k (PList (l ++ [v]))
  | Some (PStr x) => dict_set d k (PList [x; v])
  | None => dict_set d k (PStr v)
  end.

Record pk := { k_rtn : dict; k_key : option bytes; k_val : bytes }.

Definition truthy (k : option bytes) : bool := match k with Some (_ :: _) => true | _ => false end.

Definition pk_step (multiline : bool) (hints : list bytes) (s : pk) (line : bytes) : pk :=
  if beqb (strip line) OKs then s else
  let found := match split_eq [] line with
               | Some (k, v) =>
                   if negb (memb SP k) && (match hints with [] => true | _ => existsb (beqb k) hints end)
                   then Some (k, v) else None
               | None => None
               end in
  match found with
  | Some (k, v) =>
      let rtn := if truthy (k_key s)
                 then match k_key s with Some k0 => store (k_rtn s) k0 (unquote (k_val s)) | None => k_rtn s end
                 else k_rtn s in
      {| k_rtn := rtn; k_key := Some k; k_val := v |}
  | None =>
      match k_key s with
      | None => {| k_rtn := dict_set (k_rtn s) (strip line) (PStr DEFAULT); k_key := None; k_val := k_val s |}
      | Some k0 =>
          if multiline then {| k_rtn := k_rtn s; k_key := k_key s; k_val := k_val s ++ LF :: line |}
          else {| k_rtn := dict_set (store (k_rtn s) k0 (k_val s)) (strip line) (PStr DEFAULT);
                  k_key := None; k_val := [] |}
      end
  end.

Definition pk_finish (s : pk) : dict :=
  if truthy (k_key s)
  then match k_key s with Some k0 => store (k_rtn s) k0 (unquote (k_val s)) | None => k_rtn s end
  else k_rtn s.

Definition parse_lines (multiline : bool) (hints : list bytes) (ls : list bytes) : dict :=
  pk_finish (fold_left (pk_step multiline hints) ls {| k_rtn := []; k_key := None; k_val := [] |}).

Definition parse_keywords (text : bytes) (multiline : bool) (hints : list bytes) : dict :=
  parse_lines multiline hints (split_lf text).

(* the API calls, given the text the GETINFO / GETCONF command resolved with *)
Definition m_get_info (keys : list bytes) (text : bytes) : obs13 :=
  OResult (parse_keywords text true keys).
Definition m_get_info_single (key : bytes) (text : bytes) : obs13 :=
  match dict_get (parse_keywords text true [key]) key with
  | Some v => OResult [(key, v)]
  | None => OFailed                (* KeyError *)
  end.
Definition m_get_conf_single (key : bytes) (text : bytes) : obs13 :=
  match parse_keywords text true [] with
  | (_, v) :: _ => OResult [(key, v)]      (* list(kw.values())[0], reported under the requested key *)
  | [] => OFailed
  end.

(* which call the harness makes for a request *)
Definition model_obs (r : request) : obs13 :=
  let text := reply_text_ok (render_request r) in
  match r with
  | RGetInfo [(k, IMulti _)] => m_get_info_single k text
  | RGetInfo kvs => m_get_info (map fst kvs) text
  | RGetConf k _ => m_get_conf_single k text
  end.
