(* Model of txtorcon.controller.TorProcessProtocol (outReceived, errReceived, _timeout_expired,
   processEnded/cleanup, when_connected/_maybe_notify_connected, _tor_connected,
   _tor_connection_failed, _status_client) and of the data-directory part of launch(), as the code
   stands in /repo.  One control connection = one run of the _tor_connected coroutine, which is
   suspended at exactly one point (stage).  No proofs here. *)
From Coq Require Import List Bool Ascii Arith NArith Lia.
From TxVerif Require Import Lib.Bytes Spec.C19.
Import ListNotations.
Open Scope N_scope.

(* where _tor_connected is suspended *)
Inductive stage :=
| SBoot      (* yield self.tor_protocol.post_bootstrap *)
| SEv        (* yield add_event_listener('STATUS_CLIENT', ...)   (SETEVENTS outstanding) *)
| SOwn       (* yield queue_command('TAKEOWNERSHIP') *)
| SReset     (* yield queue_command('RESETCONF __OwningControllerProcess') *)
| SAttach    (* yield self.config.attach_protocol(proto) *)
| SIdle.     (* returned or failed: nothing outstanding *)

Record conn := { k_stage : stage;
                 k_lreg : bool;      (* _status_client is registered on the connection *)
                 k_evon : bool }.    (* harness/Tor side: SETEVENTS was accepted, events are delivered *)

Inductive tstate :=
| TNone       (* no timeout given: _timeout_delayed_call is None *)
| TPending    (* the delayed call is pending *)
| TFired      (* it has run; _timeout_delayed_call still refers to it *)
| TCleared.   (* cancelled at 100% and set to None *)

(* the TorConfig handed to launch(): config.protocol, and the attach_protocol() Deferred *)
Inductive astate :=
| ANone                               (* config.protocol is None *)
| ARun (left : N) (who : option N)    (* attach in flight, `left` more answers needed; who waits on its Deferred:
                                         Some c = _tor_connected of connection c, None = launch() itself *)
| ADone.                              (* config.protocol is set, nothing in flight (attached, or the attach failed) *)

Record mst := { attempted : bool;            (* attempted_connect *)
                collected : bytes;           (* collected_stdout *)
                npend : nat;                 (* Deferreds returned by connection_creator, not yet fired *)
                conns : list conn;
                timer : tstate;
                notified : option res;       (* None: _connected_listeners is a list; Some: it is None *)
                waiters : list N;            (* _connected_listeners, in order *)
                did_timeout : bool;
                exited : bool;               (* the fake transport's view: the process is gone *)
                gone : bool;                 (* the data directory has been deleted *)
                catt : astate;
                nested : list N }.           (* the when_connected() calls the callbacks of the waiting Deferreds will make
                                                when they are fired, in the order of `waiters` *)

Definition m0 (c : cfg) : mst :=
  {| attempted := false; collected := []; npend := 0; conns := [];
     timer := if c_timeout c then TPending else TNone;
     notified := None; waiters := [0]; did_timeout := false; exited := false; gone := false; catt := ANone; nested := [] |}.

Definition w_RESETCONF : bytes :=   (* RESETCONF __OwningControllerProcess *)
  str [82;69;83;69;84;67;79;78;70;32;95;95;79;119;110;105;110;103;67;111;110;116;114;111;108;108;101;114;80;114;111;99;101;115;115].
Definition w_SETEVENTS_SC : bytes :=   (* SETEVENTS STATUS_CLIENT *)
  str [83;69;84;69;86;69;78;84;83;32;83;84;65;84;85;83;95;67;76;73;69;78;84].

Definition set_conns (s : mst) cs :=
  {| attempted := attempted s; collected := collected s; npend := npend s; conns := cs; timer := timer s;
     notified := notified s; waiters := waiters s; did_timeout := did_timeout s; exited := exited s; gone := gone s; catt := catt s; nested := nested s |}.
Definition set_attempted (s : mst) b :=
  {| attempted := b; collected := collected s; npend := npend s; conns := conns s; timer := timer s;
     notified := notified s; waiters := waiters s; did_timeout := did_timeout s; exited := exited s; gone := gone s; catt := catt s; nested := nested s |}.
Definition set_timer (s : mst) t :=
  {| attempted := attempted s; collected := collected s; npend := npend s; conns := conns s; timer := t;
     notified := notified s; waiters := waiters s; did_timeout := did_timeout s; exited := exited s; gone := gone s; catt := catt s; nested := nested s |}.

(* everybody _maybe_notify_connected will tell: `for d in self._connected_listeners: d.callback(arg)` while
   _connected_listeners is still the list, so a when_connected() made by a callback appends to the list
   being iterated and is told at the end of the same loop *)
Definition allw (s : mst) : list N := waiters s ++ nested s.

(* _maybe_notify_connected *)
Definition notify (s : mst) (r : res) : mst * list obs :=
  match notified s with
  | Some _ => (s, [])
  | None =>
      ({| attempted := attempted s; collected := collected s; npend := npend s; conns := conns s; timer := timer s;
          notified := Some r; waiters := []; did_timeout := did_timeout s; exited := exited s; gone := gone s; catt := catt s; nested := [] |},
       map (fun w => EFired w r) (allw s))
  end.

Definition set_catt (s : mst) a :=
  {| attempted := attempted s; collected := collected s; npend := npend s; conns := conns s; timer := timer s;
     notified := notified s; waiters := waiters s; did_timeout := did_timeout s; exited := exited s; gone := gone s;
     catt := a; nested := nested s |}.

(* self.tor_protocol: the connection _tor_connected ran on last *)
Definition lastc (s : mst) : option N :=
  match conns s with [] => None | _ :: l => Some (N.of_nat (length l)) end.

(* launch() resumes when the Deferred of its own when_connected() call fires with success:
     if config.protocol is None and proto.tor_protocol is not None: yield config.attach_protocol(proto.tor_protocol)
     return Tor(...)
   gives the new config state, what is observed, and whether the result is held back *)
Definition launch_resumes (cf : cfg) (s : mst) : astate * list obs * bool :=
  match catt s, lastc s with
  | ANone, Some c => if c_attach cf =? 0 then (ADone, [EAttach c], false)
                     else (ARun (c_attach cf) None, [EAttach c], true)
  | a, _ => (a, [], false)
  end.

(* _maybe_notify_connected(self) at 100%.  launch() made the first when_connected() call, so its
   continuation runs first *)
Definition notify_ok (cf : cfg) (s : mst) : mst * list obs :=
  match notified s with
  | Some _ => (s, [])
  | None =>
      let '(a, pre, held) := if memN 0 (waiters s) then launch_resumes cf s else (catt s, [], false) in
      ({| attempted := attempted s; collected := collected s; npend := npend s; conns := conns s; timer := timer s;
          notified := Some ROk; waiters := []; did_timeout := did_timeout s; exited := exited s; gone := gone s;
          catt := a; nested := [] |},
       pre ++ map (fun w => EFired w ROk) (if held then drop0 (allw s) else allw s))
  end.

Definition getc (s : mst) (c : N) : option conn := nth_error (conns s) (N.to_nat c).
Definition putc (s : mst) (c : N) (k : conn) : mst := set_conns s (set_nth (N.to_nat c) k (conns s)).

(* the coroutine failed: errback -> _tor_connection_failed: attempted_connect = False *)
Definition coroutine_failed (s : mst) (c : N) (k : conn) : mst :=
  set_attempted (putc s c {| k_stage := SIdle; k_lreg := k_lreg k; k_evon := k_evon k |}) false.

Definition step (cf : cfg) (s : mst) (o : op) : mst * list obs :=
  match o with
  | OOut chunk =>
      if attempted s then (s, [])
      else
        let buf := collected s ++ chunk in
        if isinfix LISTENER buf then
          ({| attempted := true; collected := []; npend := S (npend s); conns := conns s; timer := timer s;
              notified := notified s; waiters := waiters s; did_timeout := did_timeout s; exited := exited s;
              gone := gone s; catt := catt s; nested := nested s |}, [EConnecting])
        else
          ({| attempted := false; collected := buf; npend := npend s; conns := conns s; timer := timer s;
              notified := notified s; waiters := waiters s; did_timeout := did_timeout s; exited := exited s;
              gone := gone s; catt := catt s; nested := nested s |}, [])
  | OErr _ =>
      if c_killerr cf then (s, [ELoseConn; ERaised 1]) else (s, [])
  | OConnOk =>
      match npend s with
      | O => (s, [])
      | S n =>
          ({| attempted := attempted s; collected := collected s; npend := n;
              conns := conns s ++ [{| k_stage := SBoot; k_lreg := false; k_evon := false |}];
              timer := timer s; notified := notified s; waiters := waiters s; did_timeout := did_timeout s;
              exited := exited s; gone := gone s; catt := catt s; nested := nested s |}, [])
      end
  | OConnFail =>
      match npend s with
      | O => (s, [])
      | S n =>
          ({| attempted := false; collected := collected s; npend := n; conns := conns s; timer := timer s;
              notified := notified s; waiters := waiters s; did_timeout := did_timeout s; exited := exited s;
              gone := gone s; catt := catt s; nested := nested s |}, [])
      end
  | OBoot c ok =>
      match getc s c with
      | Some k =>
          match k_stage k with
          | SBoot =>
              if ok then (putc s c {| k_stage := SEv; k_lreg := true; k_evon := k_evon k |}, [ESent c w_SETEVENTS_SC])
              else (coroutine_failed s c k, [])
          | _ => (s, [])
          end
      | None => (s, [])
      end
  | OAck c ok =>
      match getc s c with
      | Some k =>
          match k_stage k with
          | SEv =>
              if ok then (putc s c {| k_stage := SOwn; k_lreg := k_lreg k; k_evon := true |}, [ESent c w_TAKEOWNERSHIP])
              else (coroutine_failed s c k, [])
          | SOwn =>
              if ok then (putc s c {| k_stage := SReset; k_lreg := k_lreg k; k_evon := k_evon k |}, [ESent c w_RESETCONF])
              else (coroutine_failed s c k, [])
          | SReset =>
              if ok then
                match catt s with
                | ANone =>      (* self.config.protocol is None *)
                    if c_attach cf =? 0
                    then (set_catt (putc s c {| k_stage := SIdle; k_lreg := k_lreg k; k_evon := k_evon k |}) ADone,
                          [EAttach c])
                    else (set_catt (putc s c {| k_stage := SAttach; k_lreg := k_lreg k; k_evon := k_evon k |})
                                   (ARun (c_attach cf) (Some c)), [EAttach c])
                | _ => (putc s c {| k_stage := SIdle; k_lreg := k_lreg k; k_evon := k_evon k |}, [])
                end
              else (coroutine_failed s c k, [])
          | _ => (s, [])
          end
      | None => (s, [])
      end
  | OProgress c p =>
      match getc s c with
      | Some k =>
          if k_evon k && k_lreg k then
            if p =? 100 then
              match timer s with
              | TFired => (s, [EProgress p; ERaised 2])      (* cancel() of a called DelayedCall *)
              | TPending => let '(s1, e1) := notify_ok cf (set_timer s TCleared) in (s1, EProgress p :: e1)
              | _ => let '(s1, e1) := notify_ok cf s in (s1, EProgress p :: e1)
              end
            else (s, [EProgress p])
          else (s, [])
      | None => (s, [])
      end
  | OStatus _ => (s, [])
  | OAttach ok =>
      match catt s with
      | ARun n who =>
          if ok && negb (n =? 1) then (set_catt s (ARun (N.pred n) who), [])
          else
            (* the attach Deferred fires: callback if ok, errback otherwise *)
            match who with
            | None => (set_catt s ADone, [EFired 0 (if ok then ROk else RFail 9)])
            | Some c =>
                match getc s c with
                | Some k =>
                    match k_stage k with
                    | SAttach =>
                        if ok then (set_catt (putc s c {| k_stage := SIdle; k_lreg := k_lreg k; k_evon := k_evon k |}) ADone, [])
                        else (set_catt (coroutine_failed s c k) ADone, [])
                    | _ => (set_catt s ADone, [])
                    end
                | None => (set_catt s ADone, [])
                end
            end
      | _ => (s, [])
      end
  | OTimeout =>
      match timer s with
      | TPending =>
          let s1 := {| attempted := attempted s; collected := collected s; npend := npend s; conns := conns s;
                       timer := TFired; notified := notified s; waiters := waiters s; did_timeout := true;
                       exited := exited s; gone := gone s; catt := catt s; nested := nested s |} in
          let e0 := if exited s then [ELoseConn] else [ESignal w_TERM] in
          let '(s2, e2) := notify s1 (RFail 1) in (s2, e0 ++ e2)
      | _ => (s, [])
      end
  | OExit x =>
      let s1 := {| attempted := attempted s; collected := collected s; npend := npend s; conns := conns s;
                   timer := timer s; notified := notified s; waiters := waiters s; did_timeout := did_timeout s;
                   exited := true; gone := gone s || negb (c_userdir cf); catt := catt s; nested := nested s |} in
      let k := match x with XCode _ => 2 | XSignal _ => if did_timeout s then 4 else 3 end in
      notify s1 (RFail k)
  | OWhen w =>
      match notified s with
      | Some r => (s, [EFired w r])
      | None =>
          ({| attempted := attempted s; collected := collected s; npend := npend s; conns := conns s;
              timer := timer s; notified := None; waiters := waiters s ++ [w]; did_timeout := did_timeout s;
              exited := exited s; gone := gone s; catt := catt s; nested := nested s |}, [])
      end
  | OWhenR w w' =>
      match notified s with
      | Some r => (s, [EFired w r; EFired w' r])      (* succeed(result): w is told at once, and so is its request *)
      | None =>
          ({| attempted := attempted s; collected := collected s; npend := npend s; conns := conns s;
              timer := timer s; notified := None; waiters := waiters s ++ [w]; did_timeout := did_timeout s;
              exited := exited s; gone := gone s; catt := catt s; nested := nested s ++ [w'] |}, [])
      end
  | OShutdown =>
      ({| attempted := attempted s; collected := collected s; npend := npend s; conns := conns s;
          timer := timer s; notified := notified s; waiters := waiters s; did_timeout := did_timeout s;
          exited := exited s; gone := gone s || negb (c_userdir cf); catt := catt s; nested := nested s |}, [])
  end.

(* the harness looks at the directory after every operation *)
Definition op_chunk (cf : cfg) (s : mst) (o : op) : mst * list obs :=
  let '(s1, es) := step cf s o in (s1, es ++ [EDir (negb (gone s1))]).

Fixpoint run_from (cf : cfg) (s : mst) (h : list op) : list (list obs) :=
  match h with
  | [] => []
  | o :: h' => let '(s1, es) := op_chunk cf s o in es :: run_from cf s1 h'
  end.

Definition run (cf : cfg) (h : list op) : list (list obs) := [EDir true] :: run_from cf (m0 cf) h.
