(* Model of the request encoders of txtorcon.socks._SocksMachine:
   _send_version, _send_connect_request, _send_resolve_request, _send_resolve_ptr_request.
   Format strings, constants and argument lists come from Gen/SocksConsts.v. *)
From Coq Require Import List Bool Ascii NArith Lia.
From TxVerif Require Import Lib.Bytes Model.Struct Gen.SocksConsts Spec.C06.
Import ListNotations.
Open Scope N_scope.

Definition env := N -> option farg.

Definition eval_x (is_v6 : bool) (e : env) (x : xarg) : option farg :=
  match x with
  | XConst n => Some (AInt n)
  | XIfV6 a b => Some (AInt (if is_v6 then a else b))
  | XLenHost => match e v_host with Some (ABytes b) => Some (AInt (nlen b)) | _ => None end
  | XVar v => e v
  end.

Fixpoint eval_xs (is_v6 : bool) (e : env) (xs : list xarg) : option (list farg) :=
  match xs with
  | [] => Some []
  | x :: xs' => match eval_x is_v6 e x, eval_xs is_v6 e xs' with
                | Some a, Some l => Some (a :: l)
                | _, _ => None
                end
  end.

Definition run_packer (p : packer) (is_v6 : bool) (e : env) : option bytes :=
  let hole := match p_hole_is_len_of p with
              | Some v => match e v with Some (ABytes b) => nlen b | _ => 0 end
              | None => 0
              end in
  match eval_xs is_v6 e (p_args p) with
  | Some args => pack (p_net p) hole (p_items p) args
  | None => None
  end.

Definition env_of (host : option bytes) (port : option N) (addr : option bytes) (atype : option N) : env :=
  fun v => if v =? v_host then option_map ABytes host
           else if v =? v_port then option_map AInt port
           else if v =? v_addr then option_map ABytes addr
           else if v =? v_addr_type then option_map AInt atype
           else None.

Definition version_bytes : option bytes := run_packer pk_version false (env_of None None None None).

(* None = the sender raises (UnicodeEncodeError / struct.error / OSError): nothing is written *)
Definition encode (ty : rtype) (t : target) (port : N) : option bytes :=
  match ty with
  | RConnect =>
      match t_cls t with
      | CV4 a => run_packer pk_connect_ip false (env_of (Some (t_text t)) (Some port) (Some a) None)
      | CV6 a => run_packer pk_connect_ip true (env_of (Some (t_text t)) (Some port) (Some a) None)
      | CHost =>
          if connect_host_ascii_only && negb (is_ascii (t_text t)) then None
          else run_packer pk_connect_host false (env_of (Some (t_text t)) (Some port) None None)
      end
  | RResolve =>
      if resolve_host_ascii_only && negb (is_ascii (t_text t)) then None
      else run_packer pk_resolve false (env_of (Some (t_text t)) None None None)
  | RResolvePtr =>
      let first := match ptr_first_arm, t_cls t with
                   | ArmV6, CV6 _ => true | ArmV4, CV4 _ => true | _, _ => false end in
      let '(atype, enc) := if first then ptr_first else ptr_else in
      let addr := match enc, t_cls t with
                  | EncV4, CV4 a => Some a      (* inet_aton / inet_pton(AF_INET) *)
                  | EncV6, CV6 a => Some a      (* inet_pton(AF_INET6) *)
                  | _, _ => None                (* OSError *)
                  end in
      match addr with
      | Some a => run_packer pk_resolve_ptr false (env_of (Some (t_text t)) None (Some a) (Some atype))
      | None => None
      end
  end.

Definition model_obs (ty : rtype) (t : target) (port : N) : obs :=
  match encode ty t port with Some b => OWrote b | None => ORefused end.
