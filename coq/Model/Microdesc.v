(* Model of txtorcon._microdesc_parser.MicrodescriptorParser: the spaghetti FSM is interpreted
   over Gen/MicrodescTable.v (first matching transition wins; the handler runs before the state
   changes; an exception of a handler leaves the state as it was and propagates); the handler
   bodies are modelled by hand.  Relays handed to the create_relay callback are returned as a
   list of keyword records, in call order.  No proofs here. *)
From Coq Require Import List Bool Ascii Arith NArith Lia String.
From TxVerif Require Import Lib.Bytes Model.MicrodescTypes Gen.MicrodescTable.
Import ListNotations.
Open Scope list_scope.
Open Scope N_scope.

Definition bs (s : string) : bytes := list_ascii_of_string s.

(* ---- the str methods used: startswith, strip, split() ---- *)
Definition py_ws (a : ascii) : bool :=
  let c := code a in ((9 <=? c) && (c <=? 13)) || ((28 <=? c) && (c <=? 32)).
Fixpoint lstrip (l : bytes) : bytes :=
  match l with
  | [] => []
  | a :: r => if py_ws a then lstrip r else l
  end.
Definition strip (l : bytes) : bytes := rev (lstrip (rev (lstrip l))).

(* str.split(): cur = the word being read *)
Fixpoint split_go (cur : bytes) (l : bytes) : list bytes :=
  match l with
  | [] => match cur with [] => [] | _ => [cur] end
  | a :: r => if py_ws a then match cur with [] => split_go [] r | _ => cur :: split_go [] r end
              else split_go (cur ++ [a]) r
  end.
Definition split_ws (l : bytes) : list bytes := split_go [] l.

(* ---- keyword record built by the handlers (self._relay_attrs) ---- *)
Record kw := {
  k_nick : bytes; k_idhash : bytes; k_orhash : bytes; k_modified : bytes;
  k_ip : bytes; k_orport : bytes; k_dirport : bytes;
  k_flags : option (list bytes); k_v6 : option (list bytes); k_bw : option bytes }.

Inductive pexn := XRuntime | XIndex | XKey | XType.

Record pstate := { ps : pst; attrs : option kw }.

(* ---- matchers ---- *)
Definition ignorable (x : bytes) : bool :=
  let s := strip x in
  existsb (fun lit => beqb s (bs lit)) md_ignorable_exact || prefixb (bs md_ignorable_prefix) s.

Definition mmatch (m : pmatch) (x : bytes) : bool :=
  match m with
  | MIgnorable => ignorable x
  | MStarts lit => prefixb (bs lit) x
  | MNotStarts lits => forallb (fun lit => negb (prefixb (bs lit) x)) lits
  | MStripEq lit => beqb (strip x) (bs lit)
  | MSliceNe n lit => negb (beqb (firstn n x) (bs lit))
  end.

(* ---- handlers ---- *)
Definition fexpr_val (args : list bytes) (f : fexpr) : option bytes :=
  match f with
  | FArg i => nth_error args i
  | FJoin i j => match nth_error args i, nth_error args j with
                 | Some a, Some b => Some (a ++ [SP] ++ b)
                 | _, _ => None
                 end
  end.
Definition field (args : list bytes) (name : string) : option bytes :=
  match find (fun p => String.eqb (fst p) name) md_begin_fields with
  | Some (_, f) => fexpr_val args f
  | None => None
  end.

(* _router_begin after _maybe_callback_router: dict(nickname=args[0], ...); None = IndexError *)
Definition begin_attrs (args : list bytes) : option kw :=
  match field args "nickname", field args "idhash", field args "orhash", field args "modified" with
  | Some n, Some i, Some o, Some m =>
      match field args "ip", field args "orport", field args "dirport" with
      | Some ip, Some op, Some dp =>
          Some {| k_nick := n; k_idhash := i; k_orhash := o; k_modified := m; k_ip := ip; k_orport := op;
                  k_dirport := dp; k_flags := None; k_v6 := None; k_bw := None |}
      | _, _, _ => None
      end
  | _, _, _, _ => None
  end.

(* util.find_keywords(args)['Bandwidth']: args with '=' whose key does not start with '$';
   dict(x.split('=', 1)): the last occurrence of a key wins *)
Fixpoint split_eq (cur : bytes) (l : bytes) : option (bytes * bytes) :=
  match l with
  | [] => None
  | a :: r => if Ascii.eqb a EQC then Some (cur, r) else split_eq (cur ++ [a]) r
  end.
Definition kw_lookup (key : bytes) (args : list bytes) : option bytes :=
  fold_left (fun acc x => match split_eq [] x with
                          | Some (k, v) => if prefixb [ch 36] k then acc else if beqb k key then Some v else acc
                          | None => acc
                          end) args None.

Definition set_flags (a : kw) (f : list bytes) : kw :=
  {| k_nick := k_nick a; k_idhash := k_idhash a; k_orhash := k_orhash a; k_modified := k_modified a;
     k_ip := k_ip a; k_orport := k_orport a; k_dirport := k_dirport a;
     k_flags := Some f; k_v6 := k_v6 a; k_bw := k_bw a |}.
Definition add_v6 (a : kw) (v : list bytes) : kw :=
  {| k_nick := k_nick a; k_idhash := k_idhash a; k_orhash := k_orhash a; k_modified := k_modified a;
     k_ip := k_ip a; k_orport := k_orport a; k_dirport := k_dirport a;
     k_flags := k_flags a; k_v6 := Some (match k_v6 a with Some l => l ++ v | None => v end); k_bw := k_bw a |}.
Definition set_bw (a : kw) (b : bytes) : kw :=
  {| k_nick := k_nick a; k_idhash := k_idhash a; k_orhash := k_orhash a; k_modified := k_modified a;
     k_ip := k_ip a; k_orport := k_orport a; k_dirport := k_dirport a;
     k_flags := k_flags a; k_v6 := k_v6 a; k_bw := Some b |}.

(* result of a handler: new attrs, relays emitted, exception *)
Definition hres := (option kw * list kw * option pexn)%type.

Definition emit_pending (a : option kw) : list kw := match a with Some k => [k] | None => [] end.

Definition run_handler (h : phandle) (a : option kw) (x : bytes) : hres :=
  let args := tl (split_ws x) in
  match h with
  | HNone => (a, [], None)
  | HPolicy => (a, [], None)
  | HDie => (a, [], Some XRuntime)
  | HBegin =>
      match begin_attrs args with
      | Some k => (Some k, emit_pending a, None)
      | None => (None, emit_pending a, Some XIndex)
      end
  | HFlags =>
      match a with
      | Some k => (Some (set_flags k args), [], None)
      | None => (a, [], Some XType)
      end
  | HAddress =>
      match a with
      | Some k => (Some (add_v6 k args), [], None)
      | None => (a, [], Some XType)
      end
  | HBandwidth =>
      match kw_lookup (bs "Bandwidth") args with
      | None => (a, [], Some XKey)
      | Some b => match a with
                  | Some k => (Some (set_bw k b), [], None)
                  | None => (a, [], Some XType)
                  end
      end
  end.

(* FSM.process(line) *)
Definition step (s : pstate) (x : bytes) : pstate * list kw * option pexn :=
  match find (fun t => pst_eqb (p_from t) (ps s) && mmatch (p_match t) x) md_table with
  | None => (s, [], None)                      (* "No next state" warning, nothing changes *)
  | Some t =>
      let '(a, out, e) := run_handler (p_handle t) (attrs s) x in
      match e with
      | None => ({| ps := p_to t; attrs := a |}, out, None)
      | Some _ => ({| ps := ps s; attrs := a |}, out, e)
      end
  end.

(* feed_line for every line, stopping at the first exception *)
Fixpoint feed (s : pstate) (lines : list bytes) : pstate * list kw * option pexn :=
  match lines with
  | [] => (s, [], None)
  | x :: r =>
      let '(s1, o1, e1) := step s x in
      match e1 with
      | Some _ => (s1, o1, e1)
      | None => let '(s2, o2, e2) := feed s1 r in (s2, o1 ++ o2, e2)
      end
  end.

(* done(): _maybe_callback_router *)
Definition finish (s : pstate) : pstate * list kw :=
  ({| ps := ps s; attrs := None |}, emit_pending (attrs s)).

Definition pinit : pstate := {| ps := md_initial; attrs := None |}.
