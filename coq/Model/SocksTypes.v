(* Names of the automat states / inputs / outputs of txtorcon.socks._SocksMachine.
   Gen/SocksTable.v (regenerated from the source) is a table over these names; a name
   that does not exist here makes the regenerated file fail to compile (fail-closed). *)
Inductive sstate := unconnected | sent_version | sent_request | relaying | abort | done.
Inductive sinput := connection | disconnected | got_data | version_reply | version_error
                  | reply_error | reply_ipv4 | reply_ipv6 | reply_domain_name | answer.
Inductive soutput := _send_version | _parse_version_reply | _disconnect | _send_request
                   | _parse_request_reply | _make_connection | _domain_name_resolved | _relay_data.

Definition sstate_eqb (a b : sstate) : bool :=
  match a, b with
  | unconnected, unconnected | sent_version, sent_version | sent_request, sent_request
  | relaying, relaying | abort, abort | done, done => true
  | _, _ => false
  end.
Definition sinput_eqb (a b : sinput) : bool :=
  match a, b with
  | connection, connection | disconnected, disconnected | got_data, got_data
  | version_reply, version_reply | version_error, version_error | reply_error, reply_error
  | reply_ipv4, reply_ipv4 | reply_ipv6, reply_ipv6 | reply_domain_name, reply_domain_name
  | answer, answer => true
  | _, _ => false
  end.

Record strans := { t_from : sstate; t_on : sinput; t_to : sstate; t_out : list soutput }.
