(* Model of the notification and wait machinery on top of Model/State.v (which it reuses unchanged for what
   TorState.circuits / streams and the objects contain):
     Circuit.listen/unlisten/update/update_path/when_built/when_closed/close/maybe_call_closing_deferred,
     Stream.listen/unlisten/update/_notify/close/maybe_call_closing_deferred,
     TorState.add_circuit_listener/add_stream_listener/_maybe_create_circuit/_stream_update/
     circuit_closed/circuit_failed/circuit_destroy, util.SingleObserver.
   TorState itself is the first listener of every object (its effect on the dicts is Model/State.step; its
   firing of _when_built on CLOSED/FAILED is modelled here at the position of the listener loop).
   Deferreds are data: a SingleObserver is pending with its waiters or fired with a value; a
   `_closing_deferred` is the ordered list of callbacks attached to it.  A Deferred returned from a callback
   chains: its continuation is one more callback of the inner Deferred and leaves None behind for the
   callbacks after it (twisted.internet.defer, _CONTINUE).  No proofs in this file. *)
From Coq Require Import List Bool Arith NArith Lia.
From TxVerif Require Import Lib.Bytes Lib.NList Spec.C07 Spec.C08 Model.State.
Import ListNotations.
Open Scope N_scope.

Inductive oneshot := OSPending (ws : list N) | OSFired (r : wres).
(* callbacks on a _closing_deferred: a later close() caller (passes the value on); the first caller's
   command Deferred that was chained at the acknowledgement (leaves None behind); the same for a stream,
   where nobody observes the command Deferred *)
Inductive cbitem := CbWaiter (w : N) | CbChain (w : N) | CbChainSilent.
Inductive cmdrec := CmdC (o w : N) (ok : bool) | CmdS (o w : N) (ok : bool) | CmdB (w : N).

Record xstate := { base : mstate;
                   cls : list (N * list N); sls : list (N * list N);     (* object -> its listeners, in order *)
                   gcl : list N; gsl : list N;                           (* TorState.circuit_listeners / stream_listeners *)
                   wbs : list (N * oneshot); wcs : list (N * oneshot);   (* Circuit._when_built / _when_closed *)
                   cclosing : list (N * list cbitem);                    (* Circuit._closing_deferred when set *)
                   sclosing : list (N * list cbitem);                    (* Stream._closing_deferred when set *)
                   cmds : list cmdrec }.                                 (* submitted commands not yet answered: CLOSECIRCUIT,
                                                                            CLOSESTREAM, EXTENDCIRCUIT (build_circuit) *)

Definition xinit (rts : list (N * N)) : xstate :=
  {| base := init rts; cls := []; sls := []; gcl := []; gsl := []; wbs := []; wcs := []; cclosing := []; sclosing := [];
     cmds := [] |}.


Definition with_base (s : xstate) (b : mstate) : xstate :=
  {| base := b; cls := cls s; sls := sls s; gcl := gcl s; gsl := gsl s; wbs := wbs s; wcs := wcs s;
     cclosing := cclosing s; sclosing := sclosing s; cmds := cmds s |}.

(* SingleObserver.fire: the first value wins, waiters are told in order *)
Definition fire (t : list (N * oneshot)) (o : N) (r : wres) : list (N * oneshot) * list nev :=
  match tget (OSPending []) t o with
  | OSPending ws => (tset t o (OSFired r), map (fun w => NDone w r) ws)
  | OSFired _ => (t, [])
  end.

(* _closing_deferred.callback(self) *)
Fixpoint run_items (v : wres) (items : list cbitem) : list nev :=
  match items with
  | [] => []
  | CbWaiter w :: t => NDone w v :: run_items v t
  | CbChain w :: t => NDone w v :: run_items WOkNone t
  | CbChainSilent :: t => run_items WOkNone t
  end.

(* _extract_reason as (reason + 1, remote reason + 1), 0 = absent; no REASON = "unknown" *)
Definition reason_of (kw : kws) : N * N :=
  match kw_get K_REASON kw with
  | Some r => (r + 1, match kw_get K_REMOTE_REASON kw with Some q => q + 1 | None => 0 end)
  | None => (0, 0)
  end.

(* every listener is called, whatever the earlier ones did (Circuit._notify / Stream._notify guard each call);
   TorState itself is the first listener, so the others see its book-keeping done (carg: what a listener that
   looks the object up from inside the callback sees) *)
Definition tell_c (ls : list N) (m o a : N) (fl : kws) : list nev := map (fun l => NCirc l m o (carg l m a) fl) ls.
Definition tell_s (ls : list N) (m o a : N) (fl : kws) : list nev := map (fun l => NStream l m o (carg l m a) fl) ls.

(* ---- a CIRC event ---- *)
Definition x_circ (s : xstate) (id : N) (st : cstatus) (path : list hop) (kw : kws) : option (xstate * list nev) :=
  let pre := base s in
  match step pre (ECirc id st path kw) with
  | None => None
  | Some post =>
      let '(first, o, oldpath) :=
        match kfind fst id (circuits pre) with
        | Some p => (false, snd p, match get_c (snd p) pre with Some c => c_path c | None => [] end)
        | None => (true, N.of_nat (length (cheap pre)), [])
        end in
      (* _maybe_create_circuit: c.listen(self); for listener in self.circuit_listeners: c.listen(listener) *)
      let ls := if first then dedupe (gcl s) else tget [] (cls s) o in
      let cls1 := if first then tset (cls s) o ls else cls s in
      let o_new := if first then tell_c ls M_NEW o 0 [] else [] in
      let o_path :=
        match st with
        | CLaunched => tell_c ls M_LAUNCHED o 0 []
        | CFailed | CClosed => []
        | _ => match path, kw with
               | [], [] => []
               | _, _ => concat (map (fun h => tell_c ls M_EXTEND o (h_rid h) []) (skipn (length oldpath) path))
               end
        end in
      match st with
      | CBuilt =>
          let '(wbs1, fired) := fire (wbs s) o (WOkC o) in
          Some ({| base := post; cls := cls1; sls := sls s; gcl := gcl s; gsl := gsl s; wbs := wbs1; wcs := wcs s;
                   cclosing := cclosing s; sclosing := sclosing s; cmds := cmds s |},
                o_new ++ o_path ++ tell_c ls M_BUILT o 0 [] ++ fired)
      | CClosed | CFailed =>
          let closed := match st with CClosed => true | _ => false end in
          (* maybe_call_closing_deferred, then the listeners (TorState first: _when_built fails) *)
          let o_closing := match tfind (cclosing s) o with Some items => run_items (WOkC o) items | None => [] end in
          let '(wcs1, o_wc) := fire (wcs s) o (WOkC o) in
          let '(r1, r2) := reason_of kw in
          let '(wbs1, o_wb) := fire (wbs s) o (WFail (if closed then 1 else 2) r1 r2) in
          Some ({| base := post; cls := cls1; sls := sls s; gcl := gcl s; gsl := gsl s; wbs := wbs1; wcs := wcs1;
                   cclosing := tdel (cclosing s) o; sclosing := sclosing s; cmds := cmds s |},
                o_new ++ o_path ++ o_closing ++ o_wc ++ o_wb
                ++ tell_c ls (if closed then M_CLOSED else M_FAILED) o 0 (both_cases kw))
      | _ =>
          Some ({| base := post; cls := cls1; sls := sls s; gcl := gcl s; gsl := gsl s; wbs := wbs s; wcs := wcs s;
                   cclosing := cclosing s; sclosing := sclosing s; cmds := cmds s |},
                o_new ++ o_path)
      end
  end.

(* ---- a STREAM event ---- *)
Definition x_stream (s : xstate) (id : N) (st : sstatus) (cid host port : N) (kw : kws) : option (xstate * list nev) :=
  let pre := base s in
  match step pre (EStream id st cid host port kw) with
  | None => None
  | Some post =>
      let '(first, o, pre_circ) :=
        match kfind fst id (streams pre) with
        | Some p => (false, snd p, match get_s (snd p) pre with Some x => s_circ x | None => None end)
        | None => (true, N.of_nat (length (sheap pre)), None)
        end in
      let ls := if first then dedupe (gsl s) else tget [] (sls s) o in
      let sls1 := if first then tset (sls s) o ls else sls s in
      let fl := both_cases kw in
      let o_state :=
        match st with
        | SNew | SNewResolve => tell_s ls MS_NEW o 0 []      (* `if self.state in ('NEW', 'NEWRESOLVE'): stream_new` *)
        | SSucceeded => tell_s ls MS_SUCCEEDED o 0 []
        | SDetached => tell_s ls MS_DETACH o 0 fl
        | SClosed => (match tfind (sclosing s) o with Some items => run_items (WOkS o) items | None => [] end)
                     ++ tell_s ls MS_CLOSED o 0 fl
        | SFailed => (match tfind (sclosing s) o with Some items => run_items (WOkS o) items | None => [] end)
                     ++ tell_s ls MS_FAILED o 0 fl
        | _ => []
        end in
      (* attached now: `if self not in self.circuit.streams: append; _notify('stream_attach', ...)` *)
      let o_attach :=
        match st with
        | SClosed | SFailed | SDetached => []
        | _ => if cid =? 0 then [] else
               match pre_circ with
               | Some _ => []
               | None => match kfind fst cid (circuits pre) with
                         | Some p => match get_c (snd p) pre with
                                     | Some c => if memN o (c_streams c) then [] else tell_s ls MS_ATTACH o (snd p + 1) []
                                     | None => []
                                     end
                         | None => []
                         end
               end
        end in
      Some ({| base := post; cls := cls s; sls := sls1; gcl := gcl s; gsl := gsl s; wbs := wbs s; wcs := wcs s;
               cclosing := cclosing s;
               sclosing := if s_terminal st then tdel (sclosing s) o else sclosing s; cmds := cmds s |},
            o_state ++ o_attach)
  end.

Definition x_op (s : xstate) (o : op) : option (xstate * list nev) :=
  match o with
  | OEv (ECirc id st path kw) => x_circ s id st path kw
  | OEv (EStream id st cid host port kw) => x_stream s id st cid host port kw
  | OAddCL l =>
      (* for circ in self.circuits.values(): circ.listen(l); self.circuit_listeners.append(l) *)
      Some ({| base := base s;
               cls := fold_left (fun t p => tset t (snd p) (add_once l (tget [] t (snd p)))) (circuits (base s)) (cls s);
               sls := sls s; gcl := gcl s ++ [l]; gsl := gsl s; wbs := wbs s; wcs := wcs s; cclosing := cclosing s;
               sclosing := sclosing s; cmds := cmds s |}, [])
  | OAddSL l =>
      Some ({| base := base s; cls := cls s;
               sls := fold_left (fun t p => tset t (snd p) (add_once l (tget [] t (snd p)))) (streams (base s)) (sls s);
               gcl := gcl s; gsl := gsl s ++ [l]; wbs := wbs s; wcs := wcs s; cclosing := cclosing s;
               sclosing := sclosing s; cmds := cmds s |}, [])
  | OCListen o l =>
      match get_c o (base s) with
      | Some _ => Some ({| base := base s; cls := tset (cls s) o (add_once l (tget [] (cls s) o)); sls := sls s; gcl := gcl s;
                           gsl := gsl s; wbs := wbs s; wcs := wcs s; cclosing := cclosing s; sclosing := sclosing s;
                           cmds := cmds s |}, [])
      | None => None
      end
  | OCUnlisten o l =>        (* list.remove: ValueError when absent *)
      match get_c o (base s) with
      | Some _ => if memN l (tget [] (cls s) o)
                  then Some ({| base := base s; cls := tset (cls s) o (remove1 l (tget [] (cls s) o)); sls := sls s;
                                gcl := gcl s; gsl := gsl s; wbs := wbs s; wcs := wcs s; cclosing := cclosing s;
                                sclosing := sclosing s; cmds := cmds s |}, [])
                  else None
      | None => None
      end
  | OSListen o l =>
      match get_s o (base s) with
      | Some _ => Some ({| base := base s; cls := cls s; sls := tset (sls s) o (add_once l (tget [] (sls s) o)); gcl := gcl s;
                           gsl := gsl s; wbs := wbs s; wcs := wcs s; cclosing := cclosing s; sclosing := sclosing s;
                           cmds := cmds s |}, [])
      | None => None
      end
  | OSUnlisten o l =>
      match get_s o (base s) with
      | Some _ => if memN l (tget [] (sls s) o)
                  then Some ({| base := base s; cls := cls s; sls := tset (sls s) o (remove1 l (tget [] (sls s) o));
                                gcl := gcl s; gsl := gsl s; wbs := wbs s; wcs := wcs s; cclosing := cclosing s;
                                sclosing := sclosing s; cmds := cmds s |}, [])
                  else None
      | None => None
      end
  | OWhenBuilt o w =>
      match get_c o (base s) with
      | None => None
      | Some c =>
          match c_state c with
          | Some CBuilt => Some (s, [NDone w (WOkC o)])
          | _ => match tget (OSPending []) (wbs s) o with
                 | OSFired r => Some (s, [NDone w r])
                 | OSPending ws =>
                     Some ({| base := base s; cls := cls s; sls := sls s; gcl := gcl s; gsl := gsl s;
                              wbs := tset (wbs s) o (OSPending (ws ++ [w])); wcs := wcs s; cclosing := cclosing s;
                              sclosing := sclosing s; cmds := cmds s |}, [])
                 end
          end
      end
  | OWhenClosed o w =>
      match get_c o (base s) with
      | None => None
      | Some c =>
          match c_state c with
          | Some CClosed | Some CFailed => Some (s, [NDone w (WOkC o)])
          | _ => match tget (OSPending []) (wcs s) o with
                 | OSFired r => Some (s, [NDone w r])
                 | OSPending ws =>
                     Some ({| base := base s; cls := cls s; sls := sls s; gcl := gcl s; gsl := gsl s; wbs := wbs s;
                              wcs := tset (wcs s) o (OSPending (ws ++ [w])); cclosing := cclosing s;
                              sclosing := sclosing s; cmds := cmds s |}, [])
                 end
          end
      end
  | OCClose o w =>
      match get_c o (base s) with
      | None => None
      | Some c =>
          match c_state c with
          | Some CClosed | Some CFailed => Some (s, [NDone w WOkNone])     (* already gone: defer.succeed(None) *)
          | _ =>
              match tfind (cclosing s) o with
              | Some items =>
                  Some ({| base := base s; cls := cls s; sls := sls s; gcl := gcl s; gsl := gsl s; wbs := wbs s; wcs := wcs s;
                           cclosing := tset (cclosing s) o (items ++ [CbWaiter w]); sclosing := sclosing s; cmds := cmds s |}, [])
              | None =>
                  let ok := kmem fst (c_id c) (circuits (base s)) in
                  Some ({| base := base s; cls := cls s; sls := sls s; gcl := gcl s; gsl := gsl s; wbs := wbs s; wcs := wcs s;
                           cclosing := tset (cclosing s) o []; sclosing := sclosing s; cmds := cmds s ++ [CmdC o w ok] |},
                        [NCmd 0 (c_id c)])
              end
          end
      end
  | OSClose o w =>
      match get_s o (base s) with
      | None => None
      | Some x =>
          match s_state x with
          | Some SClosed | Some SFailed => Some (s, [NDone w (WOkS o)])     (* already gone: defer.succeed(self) *)
          | _ =>
          match tfind (sclosing s) o with
          | Some items =>
              Some ({| base := base s; cls := cls s; sls := sls s; gcl := gcl s; gsl := gsl s; wbs := wbs s; wcs := wcs s;
                       cclosing := cclosing s; sclosing := tset (sclosing s) o (items ++ [CbWaiter w]); cmds := cmds s |}, [])
          | None =>
              let ok := kmem fst (s_id x) (streams (base s)) in
              Some ({| base := base s; cls := cls s; sls := sls s; gcl := gcl s; gsl := gsl s; wbs := wbs s; wcs := wcs s;
                       cclosing := cclosing s; sclosing := tset (sclosing s) o [CbWaiter w]; cmds := cmds s ++ [CmdS o w ok] |},
                    [NCmd 1 (s_id x)])
          end
          end
      end
  | OAck =>
      match cmds s with
      | [] => Some (s, [])
      | CmdC o w ok :: q =>
          if ok then
            (* close_command_is_queued returns self._closing_deferred as it is NOW *)
            match tfind (cclosing s) o with
            | Some items =>
                Some ({| base := base s; cls := cls s; sls := sls s; gcl := gcl s; gsl := gsl s; wbs := wbs s; wcs := wcs s;
                         cclosing := tset (cclosing s) o (items ++ [CbChain w]); sclosing := sclosing s; cmds := q |}, [])
            | None =>
                Some ({| base := base s; cls := cls s; sls := sls s; gcl := gcl s; gsl := gsl s; wbs := wbs s; wcs := wcs s;
                         cclosing := cclosing s; sclosing := sclosing s; cmds := q |}, [NDone w WOkNone])
            end
          else
            Some ({| base := base s; cls := cls s; sls := sls s; gcl := gcl s; gsl := gsl s; wbs := wbs s; wcs := wcs s;
                     cclosing := cclosing s; sclosing := sclosing s; cmds := q |}, [NDone w (WFail 4 0 0)])
      | CmdS o _ ok :: q =>
          Some ({| base := base s; cls := cls s; sls := sls s; gcl := gcl s; gsl := gsl s; wbs := wbs s; wcs := wcs s;
                   cclosing := cclosing s;
                   sclosing := if ok then match tfind (sclosing s) o with
                                          | Some items => tset (sclosing s) o (items ++ [CbChainSilent])
                                          | None => sclosing s
                                          end
                               else sclosing s;
                   cmds := q |}, [])
      | CmdB _ :: _ => None        (* a close acknowledgement cannot answer an EXTENDCIRCUIT *)
      end
  | OBuild rs w =>
      (* TorState.build_circuit: queue_command("EXTENDCIRCUIT 0 fp,..").addCallback(_find_circuit_after_extend) *)
      Some ({| base := base s; cls := cls s; sls := sls s; gcl := gcl s; gsl := gsl s; wbs := wbs s; wcs := wcs s;
               cclosing := cclosing s; sclosing := sclosing s; cmds := cmds s ++ [CmdB w] |},
            NCmd 2 (N.of_nat (length rs)) :: map (NCmd 3) rs)
  | OExtended id =>
      (* _find_circuit_after_extend: _maybe_create_circuit(int(id)); circ.update([str(id), 'EXTENDED']); return circ
         -- the same two calls _circuit_update makes for the line "id EXTENDED"; then the caller's callback *)
      match cmds s with
      | CmdB w :: q =>
          match x_circ s id CExtended [] [] with
          | Some (s1, es) =>
              Some ({| base := base s1; cls := cls s1; sls := sls s1; gcl := gcl s1; gsl := gsl s1; wbs := wbs s1; wcs := wcs s1;
                       cclosing := cclosing s1; sclosing := sclosing s1; cmds := q |},
                    es ++ [NDone w (WOkC (match kfind fst id (circuits (base s)) with
                                          | Some p => snd p
                                          | None => N.of_nat (length (cheap (base s)))
                                          end))])
          | None => None
          end
      | _ => None
      end
  | OBuildErr =>
      match cmds s with
      | CmdB w :: q =>
          Some ({| base := base s; cls := cls s; sls := sls s; gcl := gcl s; gsl := gsl s; wbs := wbs s; wcs := wcs s;
                   cclosing := cclosing s; sclosing := sclosing s; cmds := q |}, [NDone w (WFail 4 0 0)])
      | _ => None
      end
  end.

Fixpoint xrun_from (s : xstate) (ops : list op) : option (list (list nev)) :=
  match ops with
  | [] => Some []
  | o :: t => match x_op s o with
              | Some (s', es) => option_map (cons es) (xrun_from s' t)
              | None => None
              end
  end.

Definition xrun (rts : list (N * N)) (ops : list op) : option (list (list nev)) := xrun_from (xinit rts) ops.
