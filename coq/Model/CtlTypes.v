(* names used by the regenerated FSM table of TorControlProtocol.__init__ (Gen/CtlFsmTable.v) *)
Inductive fstate := IDLE | RECV | RECV_PLUS | NOTIFY_MULTILINE.
Inductive fmatch := MSingle | MMulti | MCont | MFinish | MEnd | MNotEnd.
Inductive fhandle := HBroadcast | HStart | HAccum | HAccumMulti | HNoop.
Record ftrans := { f_from : fstate; f_to : fstate; f_match : fmatch; f_handle : fhandle }.

Definition fstate_eqb (a b : fstate) : bool :=
  match a, b with
  | IDLE, IDLE | RECV, RECV | RECV_PLUS, RECV_PLUS | NOTIFY_MULTILINE, NOTIFY_MULTILINE => true
  | _, _ => false
  end.
