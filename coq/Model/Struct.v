(* A small model of Python's struct.pack for the format items txtorcon uses.
   B = unsigned byte, H = unsigned 16 bit, Ns = byte string cut / zero-padded to N.
   Network ("!") formats are big-endian without padding. Native formats are
   modelled for B-only strings exactly; a native H is modelled little-endian. *)
From Coq Require Import List Bool Ascii NArith Lia.
From TxVerif Require Import Lib.Bytes.
Import ListNotations.
Open Scope N_scope.

Inductive fitem := FB | FH | FS (n : N) | FSlen.   (* FSlen: the "{}s" hole *)
Inductive farg := AInt (v : N) | ABytes (b : bytes).

Definition fit (n : N) (b : bytes) : bytes :=
  firstn (N.to_nat n) b ++ repeat (ch 0) (N.to_nat n - length b).

Definition pack_item (net : bool) (hole : N) (it : fitem) (a : farg) : option bytes :=
  match it, a with
  | FB, AInt v => if v <? 256 then Some [ch v] else None
  | FH, AInt v => if v <? 65536
                  then Some (if net then [ch (v / 256); ch (v mod 256)]
                             else [ch (v mod 256); ch (v / 256)])
                  else None
  | FS n, ABytes b => Some (fit n b)
  | FSlen, ABytes b => Some (fit hole b)
  | _, _ => None
  end.

Fixpoint pack (net : bool) (hole : N) (its : list fitem) (args : list farg) : option bytes :=
  match its, args with
  | [], [] => Some []
  | it :: its', a :: args' =>
      match pack_item net hole it a, pack net hole its' args' with
      | Some x, Some y => Some (x ++ y)
      | _, _ => None
      end
  | _, _ => None
  end.

(* argument expressions as they appear in the source, see tools/pygen.py *)
Inductive xarg :=
| XConst (n : N)
| XIfV6 (a b : N)          (* `a if is_v6 else b` *)
| XLenHost                 (* len(host) *)
| XVar (name : N).         (* a local name, numbered by the translator's fixed table *)

Record packer := { p_net : bool; p_items : list fitem; p_hole_is_len_of : option N; p_args : list xarg }.

(* names the translator knows: *)
Definition v_host : N := 1.
Definition v_port : N := 2.
Definition v_addr : N := 3.          (* inet_pton(...) / encoded_host *)
Definition v_addr_type : N := 4.

(* RESOLVE_PTR: which targets take the first arm of the address-type choice, and which
   address encoder each arm uses (see tools/pygen.py) *)
Inductive ptr_arm := ArmV6 | ArmV4 | ArmNever.
Inductive ptr_enc := EncV6 | EncV4.
