(* Model of the SOCKS-port choice as the code does it (no proofs here):

     endpoints._create_socks_endpoint          -> [choose]
     controller.Tor._default_socks_endpoint    -> the cache around [choose]
     torconfig._endpoint_from_socksport_line   -> [parse_line]
     TorConfig.socks_endpoint / create_socks_endpoint (with the part of TorConfig bootstrap and
       save() that concerns SocksPort)         -> [cfg_endpoint] / [cfg_create]
     TorControlProtocol.set_conf (quoting)     -> [setconf_line]
     TorClientEndpoint.connect                 -> [client_run]

   Tor's own behaviour (what it answers, what an accepted SETCONF does) is the record [tor] of
   Spec/C18.v; the model carries it along so that a history of calls can be run.

   Python's iteration order over a set of strings decides which of several usable ports
   _create_socks_endpoint returns (the loop does not stop at the first one: the LAST entry of
   list(unix_ports) + list(tcp_ports) that parses wins).  That order is not modelled: each call
   takes a hint [pick] and returns it when it is one of the results some order would produce,
   otherwise the first candidate.  The theorems hold for every hint.

   int() is modelled on the envelope only: a text of digits is its value, a text with a character
   that is neither a digit nor _ + - is refused; other texts (signs, underscores) are outside
   the envelope [Spec.C18.wf_hist], as are lines with leading blanks or quotes. *)
From Coq Require Import List Bool Ascii NArith String.
From TxVerif Require Import Lib.Bytes Lib.Words Gen.SocksPortConsts Spec.C18.
Import ListNotations.
Open Scope N_scope.

Definition K_Runtime : N := 1.
Definition K_Value : N := 2.
Definition K_TorProtocol : N := 3.

(* ---- torconfig._endpoint_from_socksport_line ---- *)
Definition py_int (p : bytes) : option N := if all_digits p then Some (digits_val p) else None.

Definition parse_line (s : bytes) : option endpoint :=
  if prefixb (tx "unix:") s then Some (EpUnix (skipn 5 (first_word s)))   (* socks_config.split()[0][5:] *)
  else
    let w := if has_char SP s then first_word s else s in
    if has_char COLON w then
      match split_at COLON w with
      | Some (h, p) => match py_int p with Some n => Some (EpTcp h n) | None => None end
      | None => None
      end
    else match py_int w with Some n => Some (EpTcp (tx "127.0.0.1") n) | None => None end.

Definition parse_outcome (s : bytes) : outcome :=
  match parse_line s with Some e => OEp e | None => OErr K_Value end.

(* ---- TorControlProtocol.set_conf: 'SETCONF ' + ' '.join(key=maybe_quote(value)) ---- *)
Definition needs_quote (v : bytes) : bool := existsb (fun c => memb c v) [SP; TAB; DQ; BSL; CR; LF].

Definition esc1 (c : ascii) : bytes :=
  if Ascii.eqb c BSL then [BSL; BSL]
  else if Ascii.eqb c DQ then [BSL; DQ]
  else if Ascii.eqb c LF then [BSL; ch 110]
  else if Ascii.eqb c CR then [BSL; ch 114]
  else if Ascii.eqb c TAB then [BSL; ch 116]
  else [c].

Definition maybe_quote (v : bytes) : bytes :=
  if needs_quote v then DQ :: flat_map esc1 v ++ [DQ] else v.

Definition setconf_line (key : bytes) (vals : list bytes) : bytes :=
  tx "SETCONF " ++ join [SP] (map (fun v => key ++ EQC :: maybe_quote v) vals).

Definition getconf_line (key : bytes) : bytes := tx "GETCONF " ++ key.

(* ---- what get_conf('SOCKSPort') gives, as the list the code turns it into ---- *)
Definition reported (t : tor) : list bytes :=
  match sp t with RDefault => [tx default_value] | RVals l => l end.

Definition is_default (l : list bytes) : bool := list_eqb beqb l [tx default_value].

(* ---- endpoints._create_socks_endpoint ---- *)
Definition opt_list {A} (o : option A) : list A := match o with Some x => [x] | None => [] end.

(* socks_ports == ['DEFAULT']: ask for __SocksPort *)
Definition asked_default (t : tor) : bool := is_default (reported t).

(* [] if default == DEFAULT_VALUE else [default]; a keyword-only answer parses to DEFAULT_VALUE *)
Definition lines_of (t : tor) : list bytes :=
  if asked_default t then
    match dflt t with
    | [] => []
    | d :: _ => if beqb d (tx default_value) then [] else [d]
    end
  else reported t.

Definition queries (t : tor) : list bytes :=
  getconf_line (tx key_getconf) :: (if asked_default t then [getconf_line (tx key_default)] else []).

(* `if socks_config and p != socks_config.split()[0]: continue` *)
Definition sel (want : option bytes) (w : bytes) : bool :=
  match want with Some x => beqb w (first_word x) | None => true end.

Definition parsed (want : option bytes) (ws : list bytes) : list endpoint :=
  flat_map (fun w => if sel want w then opt_list (parse_line w) else []) ws.

Definition is_unix (w : bytes) : bool := prefixb (tx "unix:") w.
Definition is_tcp (w : bytes) : bool := negb (is_unix w) && negb (beqb w (tx "0")).

(* every endpoint that `for p in list(unix_ports) + list(tcp_ports)` can end with: the last one
   that parses wins, so a TCP port whenever one parses, else a unix socket *)
Definition candidates (want : option bytes) (lines : list bytes) : list endpoint :=
  let words := map first_word lines in
  let tcp_ok := parsed want (filter is_tcp words) in
  if isnil tcp_ok then parsed want (filter is_unix words) else tcp_ok.

(* socks_lines = [port for port in socks_ports if port.split()[0] != '0'] *)
Definition keep_line (l : bytes) : bool := negb (beqb (first_word l) (tx "0")).

Definition choose (t : tor) (want : option bytes) (avail : bytes) (accept : bool) (pick : endpoint)
  : opobs * tor :=
  let lines := lines_of t in
  let q := queries t in
  let cands := candidates want lines in
  match cands with
  | c :: _ =>
      ({| sent := q; out := OEp (if existsb (ep_eqb pick) cands then pick else c) |}, t)
  | [] =>
      let new := match want with Some w => w | None => avail end in
      let lines' := filter keep_line lines ++ [new] in
      let s := setconf_line (tx key_setconf) lines' in
      if accept then ({| sent := q ++ [s]; out := parse_outcome new |},
                      {| sp := RVals lines'; dflt := dflt t |})
      else ({| sent := q ++ [s]; out := OErr K_TorProtocol |}, t)
  end.

(* ---- TorConfig: the SocksPort list after bootstrap ---- *)
Definition boot (t : tor) : list bytes :=
  if asked_default t then dflt t else reported t.

(* the name Tor lists in config/names; TorConfig uses it as the SETCONF key *)
Definition cfg_key : bytes := tx "SocksPort".

Record mstate := { m_tor : tor;
                   m_cache : option endpoint;     (* Tor._socks_endpoint *)
                   m_cfg : list bytes }.          (* TorConfig.SocksPort *)

Definition init (t : tor) : mstate := {| m_tor := t; m_cache := None; m_cfg := boot t |}.

Definition quiet (st : mstate) (r : outcome) : opobs * mstate := ({| sent := []; out := r |}, st).

(* torconfig._first_usable_socks_endpoint: skip "0" lines and lines int() refuses *)
Fixpoint first_usable (ls : list bytes) : option endpoint :=
  match ls with
  | [] => None
  | l :: r =>
      if beqb (first_word l) (tx "0") then first_usable r
      else match parse_line l with
           | Some e => Some e
           | None => first_usable r
           end
  end.

(* socks_endpoint(port=None) / create_socks_endpoint(None): RuntimeError when nothing is usable *)
Definition cfg_first (st : mstate) : opobs * mstate :=
  match first_usable (m_cfg st) with
  | Some e => quiet st (OEp e)
  | None => quiet st (OErr K_Runtime)
  end.

Definition step (st : mstate) (o : op) (pick : endpoint) : opobs * mstate :=
  match o_api o with
  | ACreate =>
      let '(b, t') := choose (m_tor st) (o_want o) (o_avail o) (o_accept o) pick in
      (b, {| m_tor := t'; m_cache := m_cache st; m_cfg := m_cfg st |})
  | ADefault =>
      match m_cache st with
      | Some e => quiet st (OEp e)
      | None =>
          let '(b, t') := choose (m_tor st) None (o_avail o) (o_accept o) pick in
          (b, {| m_tor := t';
                 m_cache := match out b with OEp e => Some e | OErr _ => None end;
                 m_cfg := m_cfg st |})
      end
  | ACfgEndpoint =>
      match o_want o with
      | None => cfg_first st
      | Some p =>
          match m_cfg st with
          | [] => quiet st (OErr K_Runtime)
          | _ =>
              if has_char SP p then quiet st (OErr K_Value)
              else match find (fun l => beqb (first_word l) p) (m_cfg st) with
                   | Some l => quiet st (parse_outcome l)
                   | None => quiet st (OErr K_Runtime)
                   end
          end
      end
  | ACfgCreate =>
      match o_want o with
      | None => cfg_first st
      | Some w =>
          if existsb (fun l => beqb w l || beqb w (first_word l)) (m_cfg st)
          then quiet st (parse_outcome w)
          else
            let l' := m_cfg st ++ [w] in
            let s := setconf_line cfg_key l' in
            if o_accept o then
              ({| sent := [s]; out := parse_outcome w |},
               {| m_tor := {| sp := RVals l'; dflt := dflt (m_tor st) |}; m_cache := m_cache st; m_cfg := l' |})
            else
              ({| sent := [s]; out := OErr K_Runtime |},
               {| m_tor := m_tor st; m_cache := m_cache st; m_cfg := l' |})
      end
  end.

Definition no_pick : endpoint := EpUnix [].

Fixpoint run_from (st : mstate) (ops : list op) (picks : list endpoint) : list opobs :=
  match ops with
  | [] => []
  | o :: ops' =>
      let '(b, st') := step st o (hd no_pick picks) in
      b :: run_from st' ops' (tl picks)
  end.

Definition run (t : tor) (ops : list op) (picks : list endpoint) : list opobs :=
  run_from (init t) ops picks.

Fixpoint end_state (st : mstate) (ops : list op) (picks : list endpoint) : mstate :=
  match ops with
  | [] => st
  | o :: ops' => end_state (snd (step st o (hd no_pick picks))) ops' (tl picks)
  end.

(* ---- TorClientEndpoint.connect ---- *)
Definition m_res (o : attempt) (idx : N) : cres :=
  match o with
  | TOk => CProto
  | TConnErr _ => CConnErr idx
  | TSocksErr c => CSocksErr (Some c)
  | TLost => CSocksErr None
  | TPending => CPending
  end.

Fixpoint fallback (host : bytes) (ports : list N) (outs : list attempt) (idx : N) (last : option N)
  : list endpoint * cres :=
  match ports with
  | [] => ([], match last with Some i => CConnErr i | None => COther end)
  | p :: ps =>
      match hd TPending outs with
      | TConnErr _ =>
          let '(a, r) := fallback host ps (tl outs) (idx + 1) (Some idx) in (EpTcp host p :: a, r)
      | o => ([EpTcp host p], m_res o idx)
      end
  end.

Definition client_run (given : option endpoint) (outs : list attempt) : cobs :=
  match given with
  | Some e => {| attempts := [e]; cresult := m_res (hd TPending outs) 0 |}
  | None => let '(a, r) := fallback (tx fallback_host) socks_ports_to_try outs 0 None in
            {| attempts := a; cresult := r |}
  end.
