(* Model of txtorcon.router.hexIdFromHash / hashFromHexId:
     hexIdFromHash(h) = '$' + b2a_hex(b64decode(h + '=')).decode('ascii').upper()
     hashFromHexId(x) = b64encode(a2b_hex(x without a leading '$'))[:-1].decode('ascii')
   None = the Python raises (binascii.Error, IndexError) or the input is outside the modelled
   envelope (b64decode silently drops characters outside the alphabet; not modelled). *)
From Coq Require Import List Bool Ascii Arith NArith Lia String.
From TxVerif Require Import Lib.Bytes.
Import ListNotations.
Open Scope list_scope.
Open Scope N_scope.

Definition m_str (s : string) : bytes := list_ascii_of_string s.
Definition M_B64 : bytes := m_str "ABCDEFGHIJKLMNOPQRSTUVWXYZabcdefghijklmnopqrstuvwxyz0123456789+/".

(* position of a character in a table *)
Fixpoint index_of (a : ascii) (tbl : bytes) : option N :=
  match tbl with
  | [] => None
  | x :: t => if Ascii.eqb a x then Some 0 else option_map N.succ (index_of a t)
  end.
Definition b64val (a : ascii) : option N := index_of a M_B64.
Definition tbl_char (tbl : bytes) (i : N) : ascii := nth (N.to_nat i) tbl EQC.

(* binascii.a2b_base64 on text whose length is a multiple of 4, every character in the alphabet
   except the padding at the very end *)
Fixpoint b64decode (l : bytes) : option bytes :=
  match l with
  | [] => Some []
  | c1 :: c2 :: c3 :: c4 :: r =>
      match b64val c1, b64val c2 with
      | Some v1, Some v2 =>
          match b64val c3, b64val c4 with
          | Some v3, Some v4 =>
              let n := v1 * 262144 + v2 * 4096 + v3 * 64 + v4 in
              option_map (fun t => ch (n / 65536) :: ch ((n / 256) mod 256) :: ch (n mod 256) :: t) (b64decode r)
          | Some v3, None =>
              if Ascii.eqb c4 EQC then
                match r with
                | [] => let n := v1 * 4096 + v2 * 64 + v3 in Some [ch (n / 1024); ch ((n / 4) mod 256)]
                | _ => None
                end
              else None
          | None, _ =>
              if Ascii.eqb c3 EQC && Ascii.eqb c4 EQC then
                match r with
                | [] => let n := v1 * 64 + v2 in Some [ch (n / 16)]
                | _ => None
                end
              else None
          end
      | _, _ => None
      end
  | _ => None      (* "Incorrect padding" *)
  end.

(* binascii.b2a_base64 / base64.b64encode *)
Fixpoint b64encode (l : bytes) : bytes :=
  match l with
  | [] => []
  | a :: l1 =>
      match l1 with
      | [] => let n := code a * 16 in [tbl_char M_B64 (n / 64); tbl_char M_B64 (n mod 64); EQC; EQC]
      | b :: l2 =>
          match l2 with
          | [] => let n := code a * 1024 + code b * 4 in
                  [tbl_char M_B64 (n / 4096); tbl_char M_B64 ((n / 64) mod 64); tbl_char M_B64 (n mod 64); EQC]
          | c :: r => let n := code a * 65536 + code b * 256 + code c in
                      tbl_char M_B64 (n / 262144) :: tbl_char M_B64 ((n / 4096) mod 64)
                        :: tbl_char M_B64 ((n / 64) mod 64) :: tbl_char M_B64 (n mod 64) :: b64encode r
          end
      end
  end.

Definition M_HEXL : bytes := m_str "0123456789abcdef".
Definition b2a_hex (l : bytes) : bytes :=
  flat_map (fun a => [tbl_char M_HEXL (code a / 16); tbl_char M_HEXL (code a mod 16)]) l.
Definition upper (a : ascii) : ascii := let c := code a in if (97 <=? c) && (c <=? 122) then ch (c - 32) else a.
Definition lower_m (a : ascii) : ascii := let c := code a in if (65 <=? c) && (c <=? 90) then ch (c + 32) else a.

(* binascii.a2b_hex: even number of hex digits of either case *)
Definition hexval (a : ascii) : option N := index_of (lower_m a) M_HEXL.
Fixpoint a2b_hex (l : bytes) : option bytes :=
  match l with
  | [] => Some []
  | h :: lo :: r =>
      match hexval h, hexval lo with
      | Some x, Some y => option_map (fun t => ch (x * 16 + y) :: t) (a2b_hex r)
      | _, _ => None
      end
  | _ => None
  end.

Definition DOLLAR : ascii := ch 36.

Definition hexIdFromHash (h : bytes) : option bytes :=
  option_map (fun d => DOLLAR :: map upper (b2a_hex d)) (b64decode (h ++ [EQC])).

Definition hashFromHexId (x : bytes) : option bytes :=
  match x with
  | [] => None                                      (* hexid[0]: IndexError *)
  | c :: r => option_map (fun d => removelast (b64encode d)) (a2b_hex (if Ascii.eqb c DOLLAR then r else x))
  end.
