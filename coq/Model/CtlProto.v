(* Model of txtorcon.torcontrolprotocol.TorControlProtocol: line framing, the spaghetti FSM
   interpreted over Gen/CtlFsmTable.v, matchers and handlers, the command queue, event
   listeners, connection loss.  Mirrors the code, evaluation order included. *)
From Coq Require Import List Bool Ascii Arith NArith Lia.
From TxVerif Require Import Lib.Bytes Spec.Ctl Model.CtlTypes Gen.CtlFsmTable Model.Framing.
Import ListNotations.
Open Scope N_scope.

Record pstate := {
  p_buf : bytes;                       (* LineOnlyReceiver._buffer *)
  p_fsm : fstate;
  p_code : option N;                   (* self.code *)
  p_resp : bytes;                      (* self.response *)
  p_inflight : option cmd;             (* self.command (and self.defer) *)
  p_queue : list cmd;                  (* self.commands *)
  p_events : list (bytes * list N);    (* self.events: name -> callbacks, insertion ordered *)
  p_lost : bool;                       (* _when_disconnected has fired *)
  p_waiters : list N;                  (* when_disconnected() observers *)
  p_disc : bool                        (* transport.disconnecting *)
}.

Definition init : pstate :=
  {| p_buf := []; p_fsm := ctl_initial; p_code := None; p_resp := []; p_inflight := None;
     p_queue := []; p_events := []; p_lost := false; p_waiters := []; p_disc := false |}.

(* result: state, observations, false = an exception escapes the operation *)
Definition res := (pstate * list obs * bool)%type.
Definition ret (s : pstate) : res := (s, [], true).
Definition emit (s : pstate) (o : list obs) : res := (s, o, true).
Definition raise (s : pstate) (k : N) : res := (s, [Raised k], false).
Definition oos (s : pstate) : res := (s, [OutOfScope], false).
Definition andthen (r : res) (f : pstate -> res) : res :=
  let '(s1, o1, ok) := r in
  if ok then let '(s2, o2, ok2) := f s1 in (s2, o1 ++ o2, ok2) else (s1, o1, false).

Definition K_ValueError : N := 1.     (* int() / remove() *)
Definition K_RuntimeError : N := 2.
Definition K_IndexError : N := 3.
Definition K_AttributeError : N := 4.

(* ---- field updates ---- *)
Definition upd_fsm s (f : fstate) (c : option N) (r : bytes) : pstate :=
  {| p_buf := p_buf s; p_fsm := f; p_code := c; p_resp := r; p_inflight := p_inflight s;
     p_queue := p_queue s; p_events := p_events s; p_lost := p_lost s; p_waiters := p_waiters s;
     p_disc := p_disc s |}.
Definition upd_q s (i : option cmd) (q : list cmd) : pstate :=
  {| p_buf := p_buf s; p_fsm := p_fsm s; p_code := p_code s; p_resp := p_resp s; p_inflight := i;
     p_queue := q; p_events := p_events s; p_lost := p_lost s; p_waiters := p_waiters s;
     p_disc := p_disc s |}.
Definition upd_ev s (e : list (bytes * list N)) : pstate :=
  {| p_buf := p_buf s; p_fsm := p_fsm s; p_code := p_code s; p_resp := p_resp s;
     p_inflight := p_inflight s; p_queue := p_queue s; p_events := e; p_lost := p_lost s;
     p_waiters := p_waiters s; p_disc := p_disc s |}.
Definition upd_buf s (b : bytes) (d : bool) : pstate :=
  {| p_buf := b; p_fsm := p_fsm s; p_code := p_code s; p_resp := p_resp s;
     p_inflight := p_inflight s; p_queue := p_queue s; p_events := p_events s; p_lost := p_lost s;
     p_waiters := p_waiters s; p_disc := d |}.
Definition upd_lost s (w : list N) : pstate :=
  {| p_buf := p_buf s; p_fsm := p_fsm s; p_code := p_code s; p_resp := p_resp s;
     p_inflight := p_inflight s; p_queue := p_queue s; p_events := p_events s; p_lost := true;
     p_waiters := w; p_disc := p_disc s |}.
Definition upd_waiters s (w : list N) : pstate :=
  {| p_buf := p_buf s; p_fsm := p_fsm s; p_code := p_code s; p_resp := p_resp s;
     p_inflight := p_inflight s; p_queue := p_queue s; p_events := p_events s; p_lost := p_lost s;
     p_waiters := w; p_disc := p_disc s |}.

(* ---- small string helpers ---- *)
Definition digitv (a : ascii) : option N :=
  let n := code a in if (48 <=? n) && (n <=? 57) then Some (n - 48) else None.
(* int(line[:3]) on the envelope "three ASCII digits"; None = outside the envelope *)
Definition code3 (l : bytes) : option N :=
  match l with
  | a :: b :: c :: _ =>
      match digitv a, digitv b, digitv c with
      | Some x, Some y, Some z => Some (100 * x + 10 * y + z)
      | _, _, _ => None
      end
  | _ => None
  end.
Definition sep_is (l : bytes) (c : ascii) : bool :=
  match nth_error l 3 with Some x => Ascii.eqb x c | None => false end.
Definition rest4 (l : bytes) : bytes := skipn 4 l.

Fixpoint lstrip (t : bytes) : bytes :=
  match t with c :: t' => if is_ws c then lstrip t' else t | [] => [] end.
Definition strip (t : bytes) : bytes := rev (lstrip (rev (lstrip t))).

Fixpoint ends_with_nl_OK (t : bytes) : bool :=   (* resp.endswith('\nOK') *)
  match t with
  | [] => false
  | c :: t' => beqb (c :: t') (LF :: OKs) || ends_with_nl_OK t'
  end.
Definition strip_nl_OK (t : bytes) : bytes :=
  if ends_with_nl_OK t then firstn (length t - 3) t else t.

Definition names_joined (e : list (bytes * list N)) : bytes := join [SP] (map fst e).
Definition SETEVENTS : bytes := map ch [83; 69; 84; 69; 86; 69; 78; 84; 83; 32].
Definition GETINFO : bytes := map ch [71; 69; 84; 73; 78; 70; 79; 32].

Definition find_ev (e : list (bytes * list N)) (name : bytes) : option (list N) :=
  match find (fun p => beqb (fst p) name) e with Some p => Some (snd p) | None => None end.
Definition set_ev (e : list (bytes * list N)) (name : bytes) (l : list N) : list (bytes * list N) :=
  map (fun p => if beqb (fst p) name then (name, l) else p) e.
Definition del_ev (e : list (bytes * list N)) (name : bytes) : list (bytes * list N) :=
  filter (fun p => negb (beqb (fst p) name)) e.
Fixpoint remove_first (x : N) (l : list N) : option (list N) :=
  match l with
  | [] => None
  | y :: l' => if x =? y then Some l' else option_map (cons y) (remove_first x l')
  end.

(* ---- queue ---- *)
Section Queue.
  (* resolving a command: the harness callback logs it, then runs the command's script *)
  Variable run_script : pstate -> list sop -> res.

  Definition resolve (s : pstate) (c : cmd) (o : outcome) : res :=
    andthen (emit s [Resolved (cid (cl c)) o]) (fun s1 => run_script s1 (cscript c)).

  (* _maybe_issue_command, connection not lost *)
  Definition maybe_issue (s : pstate) : res :=
    match p_inflight s with
    | Some _ => ret s
    | None =>
        match p_queue s with
        | [] => ret s
        | c :: q => if p_lost s then oos s       (* no data arrives after the loss *)
                    else emit (upd_q s (Some c) q) [Wrote (crlf (ctext (cl c)))]
        end
    end.

  (* queue_command.  After the loss the queue is empty (connectionLost clears it), so the command
     is popped at once and already_fired() fires its Deferred before the caller could attach a
     callback: the caller's callbacks (Resolved, then the script) run when they are attached, i.e.
     right after queue_command returned, with no command in flight. *)
  Definition submit (s : pstate) (c : cmd) : res :=
    if p_lost s then
      match p_inflight s, p_queue s with
      | None, [] => resolve s c RDisc
      | _, _ => oos s
      end
    else maybe_issue (upd_q s (p_inflight s) (p_queue s ++ [c])).
End Queue.

Definition leaf (c : lcmd) : cmd := {| cl := c; cscript := [] |}.
Definition setevents_cmd (c : N) (e : list (bytes * list N)) : cmd :=
  leaf {| cid := c; ctext := SETEVENTS ++ names_joined e; ccb := false |}.

Section Listeners.
  Variable submit' : pstate -> cmd -> res.

  (* add_event_listener *)
  Definition add_listener (s : pstate) (name : bytes) (lid c : N) : res :=
    match find_ev (p_events s) name with
    | None =>
        let e := p_events s ++ [(name, [])] in
        andthen (submit' (upd_ev s e) (setevents_cmd c e))
                (fun s1 => ret (upd_ev s1 (set_ev (p_events s1) name [lid])))
    | Some l => ret (upd_ev s (set_ev (p_events s) name (l ++ [lid])))
    end.

  (* remove_event_listener; an unregistered callback makes list.remove raise *)
  Definition rem_listener (s : pstate) (name : bytes) (lid c : N) : res :=
    match find_ev (p_events s) name with
    | None => raise s K_ValueError
    | Some l =>
        match remove_first lid l with
        | None => raise s K_ValueError
        | Some [] =>
            let e := del_ev (p_events s) name in
            submit' (upd_ev s e) (setevents_cmd c e)
        | Some l' => ret (upd_ev s (set_ev (p_events s) name l'))
        end
    end.
End Listeners.

(* depth 0: commands submitted here have no script of their own to run (leafs) *)
Definition no_script (s : pstate) (sc : list sop) : res :=
  match sc with [] => ret s | _ => oos s end.
Definition submit0 := submit no_script.

Definition run_sop0 (s : pstate) (o : sop) : res :=
  match o with
  | SSubmit c => submit0 s (leaf c)
  | SAdd name lid c => add_listener submit0 s name lid c
  | SRem name lid c => rem_listener submit0 s name lid c
  end.
Fixpoint run_script1 (s : pstate) (sc : list sop) : res :=
  match sc with
  | [] => ret s
  | o :: sc' => andthen (run_sop0 s o) (fun s1 => run_script1 s1 sc')
  end.
(* depth 1: top-level commands, whose scripts submit leafs *)
Definition resolve1 := resolve run_script1.
Definition maybe_issue1 := maybe_issue.
Definition submit1 := submit run_script1.

(* ---- events ---- *)
Section Events.
  Variable lbehs : list (N * lbeh).
  Definition beh (lid : N) : lbeh :=
    match find (fun p => fst p =? lid) lbehs with Some p => snd p | None => LPlain end.

  (* one listener's removal script; an exception inside a listener is swallowed by got_update *)
  Fixpoint run_removes (s : pstate) (rs : list (bytes * N * N)) : pstate * list obs :=
    match rs with
    | [] => (s, [])
    | (name, lid, c) :: rs' =>
        let '(s1, o1, ok) := rem_listener submit0 s name lid c in
        if ok then let '(s2, o2) := run_removes s1 rs' in (s2, o1 ++ o2)
        else (s, [])      (* remove() raised before anything changed; the rest of the listener is skipped *)
    end.

  Fixpoint got_update (s : pstate) (lids : list N) (payload : bytes) : pstate * list obs :=
    match lids with
    | [] => (s, [])
    | l :: ls =>
        let '(s1, o1) := match beh l with
                         | LRemoves rs => run_removes s rs
                         | _ => (s, [])
                         end in
        let '(s2, o2) := got_update s1 ls payload in
        (s2, EventCb l payload :: o1 ++ o2)
    end.

  (* _handle_notify *)
  Definition handle_notify (s : pstate) (rest : bytes) : res :=
    let name := take_word rest in
    match name with
    | [] => match rest with [] => raise s K_IndexError | _ => oos s end   (* leading whitespace: envelope *)
    | _ =>
        match find_ev (p_events s) name with
        | Some lids => let '(s1, o1) := got_update s lids (skipn (S (length name)) rest) in (s1, o1, true)
        | None => ret s
        end
    end.

  (* the per-line callback of the in-flight command (_line_callback), None for 6xx codes *)
  Definition line_cb (s : pstate) : option N :=
    let cb := match p_inflight s with
              | Some c => if ccb (cl c) then Some (cid (cl c)) else None
              | None => None
              end in
    match p_code s with
    | Some c => if is_6xx c then None else cb
    | None => cb
    end.
  (* get_info_incremental's strip_ok_and_call *)
  Definition call_cb (id : N) (t : bytes) : list obs :=
    if beqb (strip t) OKs then [] else [LineCb id t].

  (* ---- matchers: Some (true/false, state) or an exception ---- *)
  Definition check_code (s : pstate) (l : bytes) (k : ascii) : option bool * N :=
    (* _is_multi_line / _is_continuation_line: (Some result) or (None, exception kind) *)
    match code3 l with
    | None => (None, 0)                        (* outside the envelope *)
    | Some c =>
        match p_code s with
        | Some c0 => if negb (c0 =? 0) && negb (c0 =? c) then (None, K_RuntimeError)
                     else match nth_error l 3 with
                          | Some x => (Some (Ascii.eqb x k), 0)
                          | None => (None, K_IndexError)
                          end
        | None => match nth_error l 3 with
                  | Some x => (Some (Ascii.eqb x k), 0)
                  | None => (None, K_IndexError)
                  end
        end
    end.

  Inductive mres := MYes (s : pstate) | MNo | MRaise (k : N) | MOos.

  Definition eval_match (s : pstate) (m : fmatch) (l : bytes) : mres :=
    match m with
    | MSingle =>
        match code3 l with
        | None => match l with _ :: _ :: _ :: _ => MOos | _ => MNo end   (* int() of non-digits: envelope *)
        | Some c => if sep_is l SP then MYes (upd_fsm s (p_fsm s) (Some c) (p_resp s)) else MNo
        end
    | MMulti => match check_code s l PLUS with
                | (Some true, _) => MYes s | (Some false, _) => MNo
                | (None, 0) => MOos | (None, k) => MRaise k end
    | MCont => match check_code s l DASH with
               | (Some true, _) => MYes s | (Some false, _) => MNo
               | (None, 0) => MOos | (None, k) => MRaise k end
    | MFinish =>
        match l with
        | [] => MNo
        | c :: _ => if Ascii.eqb c DOT then MYes s else if sep_is l SP then MYes s else MNo
        end
    | MEnd => if beqb l [DOT] then MYes s else MNo
    | MNotEnd => if beqb l [DOT] then MNo else MYes s
    end.

  (* ---- handlers ---- *)
  Definition deliver (s : pstate) (t : bytes) (fresh : bool) : res :=
    match line_cb s with
    | Some id => emit s (call_cb id t)
    | None => ret (upd_fsm s (p_fsm s) (p_code s) ((if fresh then [] else p_resp s) ++ t ++ [LF]))
    end.

  Definition broadcast (s : pstate) (l : bytes) : res :=
    let code := p_code s in
    let is2 := match code with Some c => is_2xx c | None => false end in
    let cb := match p_inflight s with
              | Some c => if ccb (cl c) then Some (cid (cl c)) else None
              | None => None
              end in
    match code with
    | None => oos s      (* self.code >= 200 on None raises TypeError; never reached from the table *)
    | Some c =>
    let '(o0, resp) :=
      if 3 <? nlen l then
        match is2, cb with
        | true, Some id => (call_cb id (rest4 l), [])
        | _, _ => ([], p_resp s ++ rest4 l)
        end
      else ([], p_resp s) in
    let s0 := upd_fsm s (p_fsm s) (p_code s) [] in
    if is_2xx c then
      match p_inflight s0 with
      | None => (s0, o0 ++ [Raised K_RuntimeError], false)
      | Some cm =>
          andthen (andthen (emit s0 o0) (fun s1 => resolve1 s1 cm (ROk (strip_nl_OK resp))))
                  (fun s2 => maybe_issue1 (upd_fsm (upd_q s2 None (p_queue s2)) (p_fsm s2) None (p_resp s2)))
      end
    else if is_5xx c then
      match p_inflight s0 with
      | None => (s0, o0 ++ [Raised K_AttributeError], false)
      | Some cm =>
          andthen (andthen (emit s0 o0) (fun s1 => resolve1 s1 cm (RErr c resp)))
                  (fun s2 => maybe_issue1 (upd_fsm (upd_q s2 None (p_queue s2)) (p_fsm s2) None (p_resp s2)))
      end
    else if is_6xx c then
      andthen (andthen (emit s0 o0) (fun s1 => handle_notify s1 resp))
              (fun s2 => ret (upd_fsm s2 (p_fsm s2) None (p_resp s2)))
    else (s0, o0 ++ [Raised K_RuntimeError], false)
    end.

  Definition run_handler (s : pstate) (h : fhandle) (l : bytes) : res :=
    match h with
    | HNoop => ret s
    | HStart =>
        match code3 l with
        | None => oos s
        | Some c => deliver (upd_fsm s (p_fsm s) (Some c) (p_resp s)) (rest4 l) true
        end
    | HAccum => deliver s (rest4 l) false
    | HAccumMulti =>
        let l' := match l with c :: t => if Ascii.eqb c DOT then t else l | [] => l end in
        deliver s l' false
    | HBroadcast => broadcast s l
    end.

  (* spaghetti: first matching transition of the current state wins *)
  Fixpoint try_trans (s : pstate) (ts : list ftrans) (l : bytes) : res :=
    match ts with
    | [] => ret s            (* "No next state": warning, the state is kept *)
    | t :: ts' =>
        if fstate_eqb (f_from t) (p_fsm s) then
          match eval_match s (f_match t) l with
          | MYes s1 =>
              andthen (run_handler s1 (f_handle t) l)
                      (fun s2 => ret (upd_fsm s2 (f_to t) (p_code s2) (p_resp s2)))
          | MNo => try_trans s ts' l
          | MRaise k => raise s k
          | MOos => oos s
          end
        else try_trans s ts' l
    end.

  (* lineReceived: ascii decode, then fsm.process *)
  Definition line_received (s : pstate) (l : bytes) : res :=
    if forallb (fun c => code c <? 128) l then try_trans s ctl_table l else oos s.

  (* dataReceived *)
  Fixpoint lines_received (s : pstate) (ls : list bytes) : res :=
    match ls with
    | [] => ret s
    | l :: ls' =>
        if p_disc s then ret s
        else if MAX_LENGTH <? nlen l then emit (upd_buf s (p_buf s) true) [LostByClient]
        else andthen (line_received s l) (fun s1 => lines_received s1 ls')
    end.

  Definition data_received (s : pstate) (chunk : bytes) : res :=
    let '(ls, b) := feed (p_buf s) chunk in
    andthen (lines_received (upd_buf s b (p_disc s)) ls)
            (fun s1 => if negb (p_disc s1) && (MAX_LENGTH <? nlen (p_buf s1))
                       then emit (upd_buf s1 (p_buf s1) true) [LostByClient] else ret s1).

  (* connectionLost *)
  Fixpoint fail_all (s : pstate) (cs : list cmd) : res :=
    match cs with
    | [] => ret s
    | c :: cs' => andthen (resolve1 s c RDisc) (fun s1 => fail_all s1 cs')
    end.
  Definition connection_lost (s : pstate) : res :=
    let out := match p_inflight s with Some c => c :: p_queue s | None => p_queue s end in
    let s1 := upd_q (upd_lost s []) None [] in
    andthen (emit s1 (map DiscNotified (p_waiters s))) (fun s2 => fail_all s2 out).

  Definition step (s : pstate) (o : op) : res :=
    match o with
    | OSubmit c => submit1 s c
    | ORecv chunk => data_received s chunk
    | OLose => connection_lost s
    | OAdd name lid c => add_listener submit0 s name lid c
    | ORem name lid c => rem_listener submit0 s name lid c
    | OWhenDisc w => if p_lost s then emit s [DiscNotified w] else ret (upd_waiters s (p_waiters s ++ [w]))
    end.

  (* one observation list per operation; the run stops at the first escaping exception *)
  Fixpoint run (s : pstate) (ops : list op) : list (list obs) :=
    match ops with
    | [] => []
    | o :: ops' => let '(s1, o1, ok) := step s o in
                   if ok then o1 :: run s1 ops' else [o1]
    end.
End Events.
