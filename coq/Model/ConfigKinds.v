(* Names for the shapes of TorConfigType.parse / .validate bodies and for the list methods
   _ListWrapper wraps.  Gen/ConfigTypes.v (regenerated from the source on every run) is a table
   over these names; a body the translator does not recognise makes the regenerated file fail
   to compile (fail-closed). *)
Inductive parse_kind :=
| PIdentity      (* return s *)
| PBool          (* if int(s): return True; return False *)
| PBoolAuto      (* if s == 'auto' or int(s) < 0: return -1; if int(s): return 1; return 0 *)
| PInt           (* return int(s) *)
| PFloat         (* return float(s) *)
| PComma         (* return [x.strip() for x in s.split(',')] *)
| PLines.        (* list -> [str(x).strip() ...]; else [x.strip() for x in s.split('\n')] *)

Inductive validate_kind :=
| VIdentity      (* return s *)
| VBool01        (* if s: return 1; return 0 *)
| VBoolAuto      (* s = int(s); <0 -> 'auto'; nonzero -> 1; else 0 *)
| VInt           (* return int(s) *)
| VLineList.     (* not a list -> ValueError; else _ListWrapper(obj, ...) *)

Inductive wrapped_op := WSetItem | WAppend | WExtend | WInsert | WRemove | WPop.

Definition wrapped_op_eqb (a b : wrapped_op) : bool :=
  match a, b with
  | WSetItem, WSetItem | WAppend, WAppend | WExtend, WExtend | WInsert, WInsert
  | WRemove, WRemove | WPop, WPop => true
  | _, _ => false
  end.
