(* C11 -- placeholder while the pipeline is brought up *)
From Coq Require Import String.
From Coq Require Import List Bool Ascii Arith NArith ZArith.
From TxVerif Require Import Lib.Bytes Lib.CfgLib Spec.CfgTypes Spec.TorStore Spec.CfgOracle Spec.C10 Spec.C11
  Model.Config Proofs.C11Proofs.
Import ListNotations.

Theorem C11_event_silent : forall names st items st' ob,
  m_step names st (OpEvent items) = Some (st', ob) -> o_wrote ob = [].
Proof. exact event_silent. Qed.
Print Assumptions C11_event_silent.
