(* C11 -- Config view equals Tor's configuration, with stable types, across change events.
   Only statements; each closed by `exact <lemma of Proofs/...>`.

   Full statement (kept visible; Spec/C11.v's oracle is its executable form):

     forall i snap tr, c11_scope i = true -> model_run i = Some (true, snap, tr) ->
                       oracle i true snap tr = true

   It is FALSE of the faithful model on one input class (open finding C11-F5 = C10-F3, see the
   _refuted theorem; the class C10-F1 of the shared oracle is also excluded).  The former findings
   C11-F1..F4 are repaired in the source: their witnesses are kept as `_now_accepted` theorems.
   What is proved for ALL inputs:
     - shape stability: in every state that any history (events with any keys / any number of
       values, edits, saves, reads) reaches from ANY bootstrapped table, an option whose declared
       type is a list type holds a TRACKED list                      (C11_shape_stable)
       [port lists get the parser String(), which is not a list type; for them the same follows,
        inside the envelope, from C11_oracle_holds_partial]
     - tracked means what the property needs: an in-place operation on the list a read returns
       makes the option pending AS that list, so that (C10_setconf_exact) the next save emits
       exactly its elements, in order                                (C11_edit_after_read_is_saved)
     - events write nothing on the control connection                (C11_event_silent)
     - THE FIRST CLAUSE of the property, for EVERY table / store / defaults of the envelope:
       the model of bootstrap/_do_setup/_get_defaults succeeds, and reading every option Tor
       lists right after attaching gives Tor's value parsed by the declared type -- the default
       when unset (a comma-list default split into its elements), port lists as the list of
       their lines whether Tor holds none, one or many (unset or "auto": the default lines, from
       config/defaults or __<X>), names resolved case-insensitively (the Spec's boot_oracle
       accepts the model's snapshot)                                 (C11_bootstrap_view)
     - and the state it leaves is synchronised with Tor's store in the sense of the simulation
       relation, so that local edits and saves after attaching satisfy the whole C10 oracle
                                                                     (C11_bootstrap_synced)
     - THE FULL STATEMENT outside the open class, from the input alone: attach, then ANY
       history of CONF_CHANGED events (0 / 1 / many values per option, any interleaving of
       lines, port lists included), local assignments, in-place edits, saves (accepted or
       rejected), reads and needs_save() -- the Spec oracle accepts the model's attach-time
       snapshot and whole trace: after every event each option without a pending local change
       reads as the NEW value parsed by its declared type (list options and port lists as
       tracked lists; unset -> default), and read-edit-save afterwards sends exactly the edited
       list                                                      (C11_oracle_holds_partial)
       [what keeps it `_partial`: c11_known i = false (exact complement of the open classes
        C10-F1 emptied_list_saved and C11-F5 = C10-F3 edit_while_detached) and `no
        socks_endpoint() operation in the history` -- socks_endpoint() is decided by the oracle
        on the correspondence run only; and flights_provable i (see Properties/C10.v): operations while a
        save() is unanswered are covered for every rejected answer, for an acknowledged one when they are
        reads / needs_save() / assignments / in-place edits (no second save(), no event)]
       Key lemma: parse_keywords(arg, multiline_values=False) groups the lines of EVERY event of
       the envelope by key (Proofs/CfgEvent.event_dict).
     - announced values the declared numeric / boolean type cannot read (`650-ORPort=auto`) lie outside
       the envelope; the checks judge the settled history (Spec.C11.settle): settling is the identity on
       every in-scope input and idempotent, and the settled witness is accepted with the unreadable
       option keeping its view  (C11_settle_identity_in_scope, C11_settle_idempotent,
                                 C11_unparsable_item_settled) *)
From Coq Require Import String.
From Coq Require Import List Bool Ascii Arith NArith ZArith.
From TxVerif Require Import Lib.Bytes Lib.CfgLib Spec.CfgTypes Spec.TorStore Spec.CfgOracle Spec.C10 Spec.C11
  Model.Config Proofs.C10Proofs Proofs.C11Proofs Proofs.CfgSim Proofs.CfgSimRun Proofs.CfgBoot Proofs.CfgTop.
Import ListNotations.

Theorem C11_shape_stable : forall i st0 ops st k v,
  m_bootstrap i = Ok st0 -> reaches (option_names i) st0 ops st ->
  list_typed st k -> dget k (m_config st) = Some v -> exists l, v = CList true l.
Proof.
  intros i st0 ops st k v Hb Hr.
  exact (proj1 (proj2 (reaches_tracked _ _ _ _ Hr (bootstrap_tracked i st0 Hb))) k v).
Qed.
Print Assumptions C11_shape_stable.

Theorem C11_edit_after_read_is_saved : forall st k l o l',
  m_getattr st k = Ok (st, k, GConfig (CList true l)) ->
  dmem k (m_unsaved st) = false ->
  py_list_op o l = inl l' ->
  exists st1, m_listop st k o = Ok (st1, None) /\
    m_unsaved st1 = m_unsaved st ++ [(k, UAlias)] /\
    m_config st1 = dset k (CList true l') (m_config st) /\
    item_args st1 (k, UAlias) = map (fun x => (k, atom_text x)) l'.
Proof. exact edit_tracked_is_pending. Qed.
Print Assumptions C11_edit_after_read_is_saved.

Theorem C11_event_silent : forall names st items st' ob,
  m_step names st (OpEvent items) = Some (st', ob) -> o_wrote ob = [].
Proof. exact event_silent. Qed.
Print Assumptions C11_event_silent.

Theorem C11_bootstrap_view : forall i,
  in_scope i = true ->
  exists st0 snap, m_bootstrap i = Ok st0 /\ m_snapshot st0 (option_names i) = Some (st0, snap) /\
                   boot_oracle i true snap = true.
Proof. exact bootstrap_view. Qed.
Print Assumptions C11_bootstrap_view.

Theorem C11_bootstrap_synced : forall i,
  table_ok (i_table i) = true -> store_ok (i_table i) (i_store i) = true ->
  defaults_ok (options (i_table i)) (i_defaults i) = true ->
  pre_ok (options (i_table i)) (i_pre i) = true ->
  exists st0, m_bootstrap i = Ok st0 /\ Rel (options (i_table i)) (i_defaults i) st0 (mon0 i).
Proof. exact bootstrap_synced. Qed.
Print Assumptions C11_bootstrap_synced.

Theorem C11_oracle_holds_partial : forall i b snap tr,
  c11_scope i = true -> c11_known i = false -> forallb c11_op (i_ops i) = true -> flights_provable i = true ->
  model_run i = Some (b, snap, tr) ->
  b = true /\ oracle i b snap tr = true.
Proof. exact c11_oracle_holds. Qed.
Print Assumptions C11_oracle_holds_partial.

(* ---- the repaired findings F1-F4: the witnesses that refuted the full statement are accepted,
        lie in no open class, and show the repaired observation ---- *)
Theorem C11_portlist_bootstrap_now_accepted :
  c11_scope w11_f1 = true /\ c11_known w11_f1 = false /\
  exists snap tr, model_run w11_f1 = Some (true, snap, tr) /\ oracle w11_f1 true snap tr = true
                  /\ option_map o_res (nth_error tr 0) = Some (XVal (RList true [bs "9050"])).
Proof. exact f11_1_now_accepted. Qed.
Print Assumptions C11_portlist_bootstrap_now_accepted.

Theorem C11_portlist_conf_changed_now_accepted :
  c11_scope w11_f2 = true /\ c11_known w11_f2 = false /\
  exists snap tr, model_run w11_f2 = Some (true, snap, tr) /\ oracle w11_f2 true snap tr = true
                  /\ option_map o_res (nth_error tr 1) = Some (XSocks (SockTcp (bs "127.0.0.1") 8888)).
Proof. exact f11_2_now_accepted. Qed.
Print Assumptions C11_portlist_conf_changed_now_accepted.

Theorem C11_multi_then_keyword_now_accepted :
  c11_scope w11_f3 = true /\ c11_known w11_f3 = false /\
  exists snap tr, model_run w11_f3 = Some (true, snap, tr) /\ oracle w11_f3 true snap tr = true
                  /\ option_map o_res (nth_error tr 0) =
                     Some (XEvent false [RGot (RList true [bs "9050"]);
                                         RGot (RList true [bs "info file /tmp/x"; bs "err stderr"]);
                                         RGot (RList true []); RGot (RAtom (AStr (bs "DEFAULT"))); RGot (RAtom (AInt 2))]).
Proof. exact f11_3_now_accepted. Qed.
Print Assumptions C11_multi_then_keyword_now_accepted.

Theorem C11_comma_default_now_accepted :
  c11_scope w11_f4 = true /\ c11_known w11_f4 = false /\
  exists snap tr, model_run w11_f4 = Some (true, snap, tr) /\ oracle w11_f4 true snap tr = true
                  /\ option_map o_res (nth_error tr 0) = Some (XVal (RList true [bs "x"; bs "y"])).
Proof. exact f11_4_now_accepted. Qed.
Print Assumptions C11_comma_default_now_accepted.

(* the oracle's two readings of a port list that names no listener at attach time: "auto" reads
   as the default lines when attaching and as ["auto"] after an event says so *)
Theorem C11_portlist_auto_accepted :
  accepted11 w11_auto 0 (XVal (RList true [bs "9050"; bs "9150 IsolateDestAddr"])) /\
  accepted11 w11_auto 2 (XVal (RList true [bs "auto"])) /\
  accepted11 w11_auto 6 (XSocks (SockTcp (bs "127.0.0.1") 9050)).
Proof. exact f11_auto_accepted. Qed.
Print Assumptions C11_portlist_auto_accepted.

(* a typed scalar option reset to its default is announced by its keyword alone: it then reads as the
   config/defaults line parsed by the declared type (an int, not the text "0") *)
Theorem C11_reset_scalar_reads_typed_default :
  accepted11 w11_reset 1 (XVal (RAtom (AInt 8))) /\ accepted11 w11_reset 3 (XVal (RAtom (AInt 0))) /\
  accepted11 w11_reset 4 (XVal (RAtom (AStr (bs "DEFAULT")))).
Proof. exact f11_reset_accepted. Qed.
Print Assumptions C11_reset_scalar_reads_typed_default.

(* TorConfig() + assignments + attach_protocol() (the launch() path) reaches the same attached view: the
   values assigned before the attachment are neither validated nor sent; afterwards reads give Tor's values,
   events and saves work as after TorConfig(protocol) *)
Theorem C11_attach_later_same_view :
  accepted11 w11_attach 0 (XVal (RAtom (AInt 2))) /\ accepted11 w11_attach 1 (XVal (RList true [bs "9050"])) /\
  accepted11 w11_attach 5 (XVal (RAtom (AInt 4))).
Proof. exact f11_attach_accepted. Qed.
Print Assumptions C11_attach_later_same_view.

(* an announced value the declared type cannot read (`650-NumCPUs=auto`) is outside the envelope of the
   theorems above; the checks judge the settled history (Spec.C11.settle: the unreadable line removed, so
   the option keeps its view and every other option of the event reads as announced).  Anchor: the
   settled witness is in scope, the model runs it and the oracle accepts; settling is idempotent. *)
Theorem C11_unparsable_item_settled :
  (c11_scope w11_unparsable = false) /\
  (i_ops (settle w11_unparsable) =
    [OpEvent [(bs "Nickname", Some (bs "carol")); (bs "Log", Some (bs "err stderr"))];
     OpRead (bs "NumCPUs"); OpRead (bs "Nickname"); OpRead (bs "Log"); OpEvent [(bs "Nickname", Some (bs "dave"))]; OpRead (bs "NumCPUs")]) /\
  accepted11 (settle w11_unparsable) 1 (XVal (RAtom (AInt 2))) /\
  accepted11 (settle w11_unparsable) 2 (XVal (RAtom (AStr (bs "carol")))) /\
  accepted11 (settle w11_unparsable) 3 (XVal (RList true [bs "err stderr"])) /\
  accepted11 (settle w11_unparsable) 5 (XVal (RAtom (AInt 2))).
Proof. exact f11_unparsable_settled. Qed.
Print Assumptions C11_unparsable_item_settled.

Theorem C11_settle_idempotent : forall i, settle (settle i) = settle i.
Proof. exact settle_idem. Qed.
Print Assumptions C11_settle_idempotent.

(* inside the envelope nothing is unreadable (every announced value of a numeric / boolean option parses
   by its declared type), so for EVERY in-scope input the settled history is the history itself: the
   verdicts the checks compute on `settle i` are those of `i`, and the theorems above apply to them *)
Theorem C11_settle_identity_in_scope : forall i, c11_scope i = true -> settle i = i.
Proof. exact c11_scope_settled. Qed.
Print Assumptions C11_settle_identity_in_scope.

(* ---- the open finding: the full statement fails on a concrete input of the class ---- *)
Theorem C11_edit_while_detached_refuted :
  exists i, edit_while_detached i = true /\ c11_scope i = true /\
            exists snap tr, model_run i = Some (true, snap, tr) /\ oracle i true snap tr = false.
Proof. exists w11_f5. destruct f11_5_refuted as [[H1 H2] H3]. auto. Qed.
Print Assumptions C11_edit_while_detached_refuted.

(* non-vacuity: an input outside every class -- defaults in use, events with many / one / zero
   values, names in any case, socks_endpoint(), read-edit-save on the list an event installed --
   meets the hypotheses and the oracle accepts the model's behaviour on it *)
Example C11_nonvacuous :
  c11_scope w11_ok = true /\ c11_known w11_ok = false /\
  exists snap tr, model_run w11_ok = Some (true, snap, tr) /\ oracle w11_ok true snap tr = true
    /\ concat (map o_wrote tr) = [bs "SETCONF Log=""info file /tmp/x"" Log=""err stderr"" Log=""debug stderr"" ExitNodes=b"].
Proof. exact ok11_example. Qed.
