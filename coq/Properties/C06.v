(* C06 -- SOCKS5 requests are RFC 1928 well-formed for every target and port.
   Only statements: each theorem is closed by `exact <lemma of Proofs/C06Proofs.v>`.

   Full statement (kept visible):
     forall ty t port, wf_target t -> oracle ty t port (model_obs ty t port) = true.
   It is FALSE of the faithful model (open finding C06-F1: CONNECT to an IPv6 literal is packed
   with '4s'), see C06_connect_ipv6_refuted; what is proved is the _partial statement whose
   extra hypothesis is exactly the complement of the finding's input class. *)
From Coq Require Import List Bool Ascii NArith.
From TxVerif Require Import Lib.Bytes Spec.Rfc1928 Spec.C05 Model.SocksTypes Model.Socks Proofs.C05Relay Model.SocksEnc Proofs.C06Proofs Spec.C06.
Import ListNotations.
Open Scope N_scope.

(* every encodable target round-trips through an independent RFC 1928 decoder:
   all hostnames <= 255 bytes, all IPv4/IPv6 addresses, all ports (by arithmetic, no sweep) *)
Theorem C06_roundtrip_partial : forall ty t port e,
  wf_target t -> expected ty t port = Some e -> is_connect_v6 ty t = false ->
  exists b, encode ty t port = Some b /\ decode_request b = Some e.
Proof. exact roundtrip_partial. Qed.
Print Assumptions C06_roundtrip_partial.

(* over-long or non-ASCII names, ports above 65535, reverse-resolve of a name: nothing is written *)
Theorem C06_refuses_unencodable : forall ty t port,
  wf_target t -> expected ty t port = None -> encode ty t port = None.
Proof. exact refuses_unencodable. Qed.
Print Assumptions C06_refuses_unencodable.

(* the Spec oracle accepts the model's behaviour on every input outside the finding's class *)
Theorem C06_oracle_holds_partial : forall ty t port,
  wf_target t -> is_connect_v6 ty t = false -> oracle ty t port (model_obs ty t port) = true.
Proof. exact oracle_holds_partial. Qed.
Print Assumptions C06_oracle_holds_partial.

Theorem C06_connect_ipv6_refuted :
  exists t port, wf_target t /\ oracle RConnect t port (model_obs RConnect t port) = false.
Proof. exact connect_v6_refuted. Qed.
Print Assumptions C06_connect_ipv6_refuted.

(* the method-selection message offers exactly "no authentication" *)
Theorem C06_greeting : version_bytes = Some greeting_noauth.
Proof. exact greeting_exact. Qed.
Print Assumptions C06_greeting.

(* "only after the server selects it": a method-selection reply that is not VER=5 METHOD=0 -- another
   method (incl. 2, which the parser lets through), another version -- makes the machine write nothing,
   whatever follows in the same segment *)
Theorem C06_no_request_unless_selected : forall cfg v m rest,
  (code v =? 5)%N && (code m =? 0)%N = false ->
  let '(_, es, _) := op_recv cfg awaiting_method (v :: m :: rest) in no_write es = true.
Proof. exact no_request_unless_selected. Qed.
Print Assumptions C06_no_request_unless_selected.

(* non-vacuity: a concrete non-trivial target meets the hypotheses *)
Example C06_hypotheses_satisfiable :
  let t := {| t_text := map ch [101; 120; 46; 99; 111; 109]; t_cls := CHost |} in
  wf_target t /\ expected RConnect t 8080 = Some (CMD_CONNECT, SHost (t_text t), 8080)
  /\ is_connect_v6 RConnect t = false.
Proof. cbn. auto. Qed.
