(* C09 -- each new stream gets exactly one attachment decision, honouring the attacher.
   Only statements; each closed by `exact <lemma of Proofs/C09Proofs.v>`.

   Full statement (Spec/C09.v's oracle is its executable form), PROVED below as C09_oracle_holds:
     forall ops, wf ops = true -> oracle ops (run ops) = true
   No input class is excluded any more: the three findings this check produced (C09-F1 via-circuit stream
   after its circuit closed, C09-F2 target merely containing ".exit", C09-F3 PriorityAttacher heap-array
   order) were repaired in /repo (f392c3b, abe169c, c8582a8) and the model follows the repaired code.
   Model/Attach.v: step/run = the code as it stands; Spec/C09.v: wf = what Tor can emit and the
   documented API allows, oracle = the property.

   What is proved for ALL histories (no well-formedness needed unless stated):
     - never two decisions for one stream                       C09_one_decision_per_stream, C09_step_at_most_one
     - the attacher's answer is translated exactly               C09_answer_translation (+ C09_decision_is_spec_decide,
       (known BUILT circuit -> that circuit; None -> 0;            C09_tor_reads_attach: Tor parses the line back)
        DO_NOT_ATTACH -> nothing; anything else -> report)
     - source-address matching is exact                          C09_via_unrelated_stream, C09_via_matching_stream,
                                                                 C09_via_only_registered_circuit, C09_registration_*
     - one attacher slot, SETCONF __LeaveStreamsUnattached        C09_second_attacher_refused, C09_install_*, C09_remove_*
   The whole property ("exactly one, and the right one", consultation order, reports, SETCONF, connect()
   outcomes) for whole histories is the oracle theorem C09_oracle_holds: for EVERY well-formed history the
   Spec oracle accepts the model's own trace. *)
From Coq Require Import List Bool Ascii Arith NArith String.
From TxVerif Require Import Lib.Bytes Lib.Dec Spec.C09 Model.Attach Proofs.C09Proofs Proofs.C09Sort Proofs.C09Oracle.
Import ListNotations.
Open Scope N_scope.

(* ---- exactly-one, upper half: for every history and every stream id, the ATTACHSTREAM commands for it
   that were written or are still queued never outnumber the times the id was seen for the first time *)
Theorem C09_one_decision_per_stream : forall sid ops,
  (cnt sid (all_writes (run ops) ++ qlines (snd (run_from st0 ops))) <= firsts sid st0 ops)%nat.
Proof. exact one_decision_per_stream. Qed.
Print Assumptions C09_one_decision_per_stream.

(* the same, one operation at a time, from ANY state: commands for sid written or queued, plus answers
   still to come, grow by at most one, and only when sid is seen for the first time *)
Theorem C09_step_at_most_one : forall sid s o, grows sid (if first_sight_m s o sid then 1 else 0) s (step s o).
Proof. exact step_grows. Qed.
Print Assumptions C09_step_at_most_one.

(* ---- answer translation, in every reachable state (ids below 9000 so that the foreign object's id is
   unknown): issue_stream_attach does what Spec.decide says about the answer at that moment *)
Theorem C09_answer_translation : forall ops sid a,
  let s := snd (run_from st0 ops) in
  lookup 9000 (circs s) = None -> issue s sid a = realise s sid (decide_now s a).
Proof. exact answer_translation_reachable. Qed.
Print Assumptions C09_answer_translation.

(* a non-Circuit answer (v = 0 a string, 1..6 the falsy values False, 0, '', [], {}, ()), delivered in any mode, is an
   invalid answer for the Spec, and the model reports it and sends nothing, from ANY state *)
Theorem C09_invalid_answer_reported : forall s tt sid v,
  decide tt (AKNotCirc v) = DInvalid /\ issue s sid (AKNotCirc v) = (s, [EReported]).
Proof. exact (fun s tt sid v => conj (not_a_circuit_invalid tt v) (not_a_circuit_reported s sid v)). Qed.
Print Assumptions C09_invalid_answer_reported.

(* a LATE answer (Deferred or coroutine, fired by OFire) is judged against the circuits known when it ARRIVES, in
   every reachable state: circuits created and BUILT since the consultation count, circuits closed since do not *)
Theorem C09_late_answer_judged_at_answer_time : forall ops n p,
  let s := snd (run_from st0 ops) in
  nth_error (pends s) n = Some p -> p_fired p = false -> lookup 9000 (circs s) = None ->
  op_fire s n =
    realise (with_pends s (set_nth n {| p_sid := p_sid p; p_kind := p_kind p; p_fired := true |} (pends s)))
            (p_sid p) (decide_now s (p_kind p)).
Proof. exact late_answer_current. Qed.
Print Assumptions C09_late_answer_judged_at_answer_time.

(* concrete: built between consultation and answer -> ATTACHSTREAM 7 4; closed in between -> reported, nothing *)
Theorem C09_circuit_built_meanwhile :
  wf w_built_meanwhile = true /\ oracle w_built_meanwhile (run w_built_meanwhile) = true /\
  all_writes (run w_built_meanwhile) = [leave_line 1; attach_line 7 4].
Proof. exact built_meanwhile_ok. Qed.
Print Assumptions C09_circuit_built_meanwhile.

Theorem C09_circuit_closed_meanwhile :
  wf w_closed_meanwhile = true /\ oracle w_closed_meanwhile (run w_closed_meanwhile) = true /\
  all_writes (run w_closed_meanwhile) = [leave_line 1] /\ n_reported (List.concat (run w_closed_meanwhile)) = 1%nat.
Proof. exact closed_meanwhile_ok. Qed.
Print Assumptions C09_circuit_closed_meanwhile.

Theorem C09_decision_is_spec_decide : forall s tt a, incs tt = map inc_of (objs s) -> decide tt a = decide_now s a.
Proof. exact decide_now_spec. Qed.
Print Assumptions C09_decision_is_spec_decide.

(* Tor reads back exactly the stream and circuit numbers that were meant, for all numbers *)
Theorem C09_tor_reads_attach : forall sid cid, parse_cmd (attach_line sid cid) = CAttach sid cid.
Proof. exact attach_line_parses. Qed.
Print Assumptions C09_tor_reads_attach.

Theorem C09_tor_reads_leave : parse_cmd (leave_line 0) = CLeave 0 /\ parse_cmd (leave_line 1) = CLeave 1.
Proof. exact leave_line_parses. Qed.
Print Assumptions C09_tor_reads_leave.

(* ---- via-circuit connections ---- *)
(* a stream whose source address is not registered: the no-preference answer, state otherwise untouched *)
Theorem C09_via_unrelated_stream : forall s sid src,
  (forall ip port, src = SrcIp ip port -> table_get (ip, port) (table s) = None) ->
  circ_attach s sid src = send s (attach_line sid 0) KAttachCmd.
Proof. exact circ_attach_unrelated. Qed.
Print Assumptions C09_via_unrelated_stream.

(* a stream from a registered address whose circuit is BUILT, in every reachable state: the registration
   is consumed, connection k is told, the stream goes to exactly that circuit *)
Theorem C09_via_matching_stream : forall ops sid ip port oid k c,
  let s := snd (run_from st0 ops) in
  table_get (ip, port) (table s) = Some (oid, k) -> nth_error (objs s) oid = Some c -> c_st c = CBuilt ->
  circ_attach s sid (SrcIp ip port) =
    then_ (att_fire (with_table s (table_del (ip, port) (table s))) k ROk)
          (fun s2 => send s2 (attach_line sid (c_id c)) KAttachCmd).
Proof. exact via_match_reachable. Qed.
Print Assumptions C09_via_matching_stream.

(* in ANY state the circuit attacher can name no circuit but the one registered under the stream's own
   source address and port *)
Theorem C09_via_only_registered_circuit : forall s sid src,
  circ_attach s sid src = send s (attach_line sid 0) KAttachCmd
  \/ exists ip port oid k,
       src = SrcIp ip port /\ table_get (ip, port) (table s) = Some (oid, k) /\
       let s1 := with_table s (table_del (ip, port) (table s)) in
       (circ_attach s sid src = (with_oos s1, [])
        \/ exists r a, (a = AKDoNot \/ a = AKCirc oid) /\
                       circ_attach s sid src = then_ (att_fire s1 k r) (fun s2 => issue s2 sid a)).
Proof. exact circ_attach_only_registered. Qed.
Print Assumptions C09_via_only_registered_circuit.

Theorem C09_registration_consumed : forall k l, table_get k (table_del k l) = None.
Proof. exact table_get_del_same. Qed.
Print Assumptions C09_registration_consumed.

Theorem C09_registration_others_kept : forall k k' l, k <> k' -> table_get k' (table_del k l) = table_get k' l.
Proof. exact table_get_del_other. Qed.
Print Assumptions C09_registration_others_kept.

(* ---- the attacher slot ---- *)
Theorem C09_second_attacher_refused : forall s x v,
  slot s = Some v -> v <> att_satt x -> op_setatt s (Some x) = (s, [ERaised 1]).
Proof. exact setatt_second_refused. Qed.
Print Assumptions C09_second_attacher_refused.

Theorem C09_install_sends_leave1 : forall s x,
  slot s = None -> op_setatt s (Some x) = send (with_slot s (Some (att_satt x))) (leave_line 1) KNone.
Proof. exact setatt_install. Qed.
Print Assumptions C09_install_sends_leave1.

Theorem C09_remove_sends_leave0 : forall s, op_setatt s None = send (with_slot s None) (leave_line 0) KNone.
Proof. exact setatt_remove. Qed.
Print Assumptions C09_remove_sends_leave0.

(* every BUILT circuit object is the one TorState.circuits lists under its id, in every reachable state *)
Theorem C09_built_implies_known : forall ops, cinv (snd (run_from st0 ops)).
Proof. exact (fun ops => reachable_cinv ops st0 cinv0). Qed.
Print Assumptions C09_built_implies_known.

(* ---- the property itself, on whole histories: all interleavings of CIRC/STREAM events, set_attacher,
   PriorityAttacher changes, late answers, concurrent via-circuit connections, Tor's replies.
   wf: what Tor can emit + the documented API.  Proved by a simulation between the model state and the
   checker state (Proofs/C09Oracle.v: record R, one lemma per operation). ---- *)
Theorem C09_oracle_holds : forall ops,
  wf ops = true -> oracle ops (run ops) = true /\ run_oos ops = false.
Proof. exact oracle_holds. Qed.
Print Assumptions C09_oracle_holds.

(* the former witness of C09-F1 (the stream of a via-circuit connection appears after its circuit closed),
   repaired in /repo by f392c3b: nothing is sent for that stream any more, connect() fails *)
Theorem C09_via_circuit_gone_now_accepted :
  wf w_via_closed = true /\ run_oos w_via_closed = false /\ oracle w_via_closed (run w_via_closed) = true.
Proof. exact via_closed_accepted. Qed.
Print Assumptions C09_via_circuit_gone_now_accepted.

(* the former witnesses of C09-F2 (target merely containing ".exit") and C09-F3 (PriorityAttacher heap-array
   order), repaired in /repo by abe169c and c8582a8, are accepted *)
Theorem C09_exit_inside_name_now_accepted :
  wf w_exit_inside = true /\ oracle w_exit_inside (run w_exit_inside) = true.
Proof. exact exit_inside_accepted. Qed.
Print Assumptions C09_exit_inside_name_now_accepted.

Theorem C09_priority_order_now_accepted :
  wf w_prio_heap = true /\ oracle w_prio_heap (run w_prio_heap) = true.
Proof. exact prio_heap_accepted. Qed.
Print Assumptions C09_priority_order_now_accepted.

(* sorting the heap array by (priority, counter) yields the Spec's order -- priority, ties in insertion
   order -- for every list of entries and whatever the array layout (any permutation) *)
Theorem C09_priority_order : forall l i, live_js (sort_hents (hents i l)) = prio_order l.
Proof. exact sorted_copy_is_priority_order. Qed.
Print Assumptions C09_priority_order.

Theorem C09_heappush_permutes : forall h x, Permutation.Permutation (heappush h x) (h ++ [x]).
Proof. exact heappush_perm. Qed.
Print Assumptions C09_heappush_permutes.

(* non-vacuity: a well-formed history with two concurrent via-circuit connections, an unrelated stream in
   between, accepted by the oracle on the model's trace *)
Example C09_nonvacuous :
  let ops := [OCirc 5 CLaunched; OCirc 5 CBuilt; OConnect 0 0; OConnect 1 0; OReply true;
              OLocal 1 2130706433 4001; OLocal 0 2130706433 4000;
              OStream 7 SNew 0 (str "example.com") 80 (SrcIp 2130706433 4002) [];
              OStream 8 SNew 0 (str "example.com") 80 (SrcIp 2130706433 4000) [];
              OSocks 0 true; OSocks 1 true;
              OStream 9 SNew 0 (str "example.com") 80 (SrcIp 2130706433 4001) []; OFlush] in
  wf ops = true /\ oracle ops (run ops) = true /\
  all_writes (run ops) = [leave_line 1; attach_line 7 0; attach_line 8 5; attach_line 9 5].
Proof. vm_compute. auto. Qed.
