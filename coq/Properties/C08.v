(* C08 -- one notification per transition; built / closed waits complete exactly once.
   Only statements; each closed by `exact <lemma of Proofs/C08*.v>`.

   Objects: Spec/C08.v (operations op, observations nev, what the history alone determines lstate/lstep =
   legality, the per-operation judgement spec_op, the oracle oracle8, its notification clause notif_check /
   notifs_exact); Model/StateNotify.v (x_op, xrun: the listener lists, SingleObservers, _closing_deferred
   callback lists and the unanswered close commands on top of the C07 model).

   FULL STATEMENT (the Spec oracle is its executable form):
     forall rts ops, legal8 ops = true -> exists tr, xrun rts ops = Some tr /\ oracle8 ops tr = true.
   It is FALSE of the faithful model (and of the code) on two input classes, the open findings C08-F1
   (Stream.close() after the stream was reported CLOSED/FAILED never completes) and C08-F2 (Circuit.close()
   on a circuit reported FAILED: an earlier close() still waiting for its acknowledgement is re-chained and
   never completes): C08_stream_close_after_gone_refuted, C08_circuit_close_after_failed_refuted.
   The intended partial theorem
     C08_oracle_partial : legal8 ops = true -> stream_close_after_gone ops = false ->
                          circuit_close_after_failed ops = false -> ... oracle8 ops tr = true
   is NOT proved.  What is proved, for ALL legal histories (any events, snapshots, listener schedules, waits
   at any position, acknowledgements in any order relative to the events; unbounded):
     - C08_notifications_exact: the notification clause of the oracle, in full, also inside the finding classes;
     - C08_waits_once: no wait id is ever reported done twice (and only requested ids are reported);
     - C08_close_waits_for_event: a close wait never succeeds while its object is still listed in
       TorState.circuits / TorState.streams (= before Tor reported it CLOSED/FAILED, by C07), whichever of
       acknowledgement and event comes first;
   and, for all legal histories WITHOUT close requests (hypothesis no_close, wider than the complement of the
   finding classes), the whole oracle: C08_oracle_no_close_partial (notifications, when_built succeeds iff
   BUILT is reached and fails at the CLOSED/FAILED that comes first, when_closed, exactly-once).
   Missing: that a close wait outside the finding classes DOES complete by max(acknowledgement, event)
   (only exercised by the correspondence runs). *)
From Coq Require Import List Bool Arith NArith.
From TxVerif Require Import Lib.Bytes Lib.NList Spec.C07 Spec.C08 Model.State Model.StateNotify
  Proofs.C08Proofs Proofs.C08Refine Proofs.C08Waits Proofs.C08Close.
Import ListNotations.
Open Scope N_scope.

(* every listener registered on the object at that moment (global before / after the object appeared,
   local, minus removed ones) hears exactly the expected calls, in order, with Tor's flags in both cases;
   nobody else hears anything; no operation of a legal history raises *)
Theorem C08_notifications_exact : forall rts ops, legal8 ops = true ->
  exists tr, xrun rts ops = Some tr /\ notifs_exact ops tr = true.
Proof. exact notifications_exact. Qed.
Print Assumptions C08_notifications_exact.

Theorem C08_waits_once : forall rts ops tr w,
  legal8 ops = true -> xrun rts ops = Some tr -> (countN w (concat (map done_ids tr)) <= 1)%nat.
Proof. exact waits_once_legal. Qed.
Print Assumptions C08_waits_once.

Theorem C08_done_only_if_requested : forall rts ops tr w,
  xrun rts ops = Some tr -> In w (concat (map done_ids tr)) -> In w (concat (map req_id ops)).
Proof. exact done_only_if_requested. Qed.
Print Assumptions C08_done_only_if_requested.

Theorem C08_close_waits_for_event : forall rts ops, legal8 ops = true -> close_sound_from (xinit rts) ops.
Proof. exact close_waits_for_event. Qed.
Print Assumptions C08_close_waits_for_event.

Theorem C08_oracle_no_close_partial : forall rts ops, legal8 ops = true -> no_close ops = true ->
  exists tr, xrun rts ops = Some tr /\ oracle8 ops tr = true.
Proof. exact oracle_no_close. Qed.
Print Assumptions C08_oracle_no_close_partial.

Theorem C08_stream_close_after_gone_refuted :
  exists ops tr, legal8 ops = true /\ stream_close_after_gone ops = true /\ circuit_close_after_failed ops = false /\
                 xrun [] ops = Some tr /\ oracle8 ops tr = false.
Proof. exact stream_close_after_gone_refuted. Qed.
Print Assumptions C08_stream_close_after_gone_refuted.

Theorem C08_circuit_close_after_failed_refuted :
  exists ops tr, legal8 ops = true /\ circuit_close_after_failed ops = true /\ stream_close_after_gone ops = false /\
                 xrun [] ops = Some tr /\ oracle8 ops tr = false.
Proof. exact circuit_close_after_failed_refuted. Qed.
Print Assumptions C08_circuit_close_after_failed_refuted.

(* the hypotheses are satisfiable by a non-trivial history: a global listener, a wait for BUILT requested
   before the circuit is built, a close requested and acknowledged BEFORE Tor reports the circuit closed *)
Example C08_nonvacuous :
  let ops := [OAddCL 1; OEv (ECirc 5 CLaunched [] [(0, 0)]); OWhenBuilt 0 7;
              OEv (ECirc 5 CBuilt [{| h_rid := 2; h_nick := 0 |}] []); OCClose 0 8; OAck;
              OEv (ECirc 5 CClosed [] [(2, 3)])] in
  legal8 ops = true /\ stream_close_after_gone ops = false /\ circuit_close_after_failed ops = false /\
  xrun [] ops = Some [[]; [NCirc 1 0 0 0 []; NCirc 1 1 0 0 []]; [];
                      [NCirc 1 2 0 2 []; NCirc 1 3 0 0 []; NDone 7 (WOkC 0)]; [NCmd 0 5]; [];
                      [NDone 8 (WOkC 0); NCirc 1 4 0 0 [(2, 3); (102, 3)]]] /\
  oracle8 ops [[]; [NCirc 1 0 0 0 []; NCirc 1 1 0 0 []]; [];
               [NCirc 1 2 0 2 []; NCirc 1 3 0 0 []; NDone 7 (WOkC 0)]; [NCmd 0 5]; [];
               [NDone 8 (WOkC 0); NCirc 1 4 0 0 [(2, 3); (102, 3)]]] = true.
Proof. vm_compute. repeat split; reflexivity. Qed.
