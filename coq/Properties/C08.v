(* TEMPORARY placeholder while the proofs are being written *)
From Coq Require Import List.
Theorem C08_tmp : True. Proof. exact I. Qed.
Print Assumptions C08_tmp.
