(* C08 -- one notification per transition; built / closed waits complete exactly once.
   Only statements; each closed by `exact <lemma of Proofs/C08*.v>`.

   Objects: Spec/C08.v (operations op, observations nev, what the history alone determines lstate/lstep =
   legality, the per-operation judgement spec_op, the oracle oracle8, its notification clause notif_check /
   notifs_exact); Model/StateNotify.v (x_op, xrun: the listener lists, SingleObservers, _closing_deferred
   callback lists and the unanswered close commands on top of the C07 model).

   FULL STATEMENT (the Spec oracle is its executable form), proved as C08_oracle with no hypothesis beyond
   legality of the history:
     forall rts ops, legal8 ops = true -> exists tr, xrun rts ops = Some tr /\ oracle8 ops tr = true.
   It covers, for any events (RESOLVE streams included), snapshots, listener schedules, listeners that raise from
   a callback or look at TorState from inside it (Spec.C08.carg: the state they see already reflects the transition),
   when_built / when_closed / close requests at any position and acknowledgements (250 or 552) in any order relative
   to the events, unbounded: no operation raises; every listener registered on the object hears exactly the expected
   calls whatever the other listeners do; when_built succeeds iff BUILT is reached and fails at the CLOSED/FAILED that
   comes first; when_closed; a close wait completes exactly once, not before the object is gone, and by the later of
   acknowledgement and event (at once when the object is already gone); a refused close command fails its wait.
   C08_state_follows_tor_view: on all legal histories the TorState part of the model is Tor's
   view after every operation, whatever listeners do.
   Histories may also contain TorState.build_circuit() calls (OBuild) and Tor's answer to the oldest unanswered one
   (OExtended id = "250 EXTENDED id", OBuildErr = 5xx), the answer before or after the first CIRC event of id: the
   call completes exactly once with the Circuit object standing for id -- the one already announced if an event came
   first (no second circuit_new; listeners and waits on it keep working), else a new one announced now.  Quantifier
   limit: answers come in command order, and the property does not depend on how close acknowledgements and
   EXTENDCIRCUIT answers interleave, so legality keeps the two kinds apart (no build_circuit() while a close command
   may be unanswered, no close request while an EXTENDCIRCUIT is unanswered).
   The former findings C08-F1 .. C08-F4 are repaired in /repo (ce7627d, b4f1a1d, 792f48d, 2365751); their witnesses
   stay as regression anchors: C08_stream_close_after_gone_now_accepted, C08_circuit_close_after_failed_now_accepted,
   C08_raising_listener_now_accepted, C08_newresolve_now_accepted.
   Kept as separately readable consequences / model-level facts: C08_notifications_exact, C08_waits_once,
   C08_done_only_if_requested, C08_close_waits_for_event. *)
From Coq Require Import List Bool Arith NArith.
From TxVerif Require Import Lib.Bytes Lib.NList Spec.C07 Spec.C08 Model.State Model.StateNotify
  Proofs.C07Proofs Proofs.C08Proofs Proofs.C08Refine Proofs.C08Waits Proofs.C08Close Proofs.C08Full.
Import ListNotations.
Open Scope N_scope.

(* the property: on every legal history the model runs without raising and its trace satisfies the whole oracle *)
Theorem C08_oracle : forall rts ops, legal8 ops = true ->
  exists tr, xrun rts ops = Some tr /\ oracle8 ops tr = true.
Proof. exact oracle_all. Qed.
Print Assumptions C08_oracle.

(* C08-F4 (repaired by 2365751): a RESOLVE request announced by NEWRESOLVE is reported as stream_new (method 0);
   it used to be reported as stream_succeeded *)
Definition wit_F4 : list op := [OAddSL 0; OEv (EStream 1 SNewResolve 0 0 0 [(0, 9)])].
Theorem C08_newresolve_now_accepted :
  legal8 wit_F4 = true /\ xrun [] wit_F4 = Some [[]; [NStream 0 0 0 0 []]] /\
  oracle8 wit_F4 [[]; [NStream 0 0 0 0 []]] = true.
Proof. vm_compute. repeat split; reflexivity. Qed.
Print Assumptions C08_newresolve_now_accepted.

(* every listener registered on the object at that moment (global before / after the object appeared,
   local, minus removed ones) hears exactly the expected calls, in order, with Tor's flags in both cases;
   nobody else hears anything; no operation of a legal history raises *)
Theorem C08_notifications_exact : forall rts ops, legal8 ops = true ->
  exists tr, xrun rts ops = Some tr /\ notifs_exact ops tr = true.
Proof. exact notifications_exact. Qed.
Print Assumptions C08_notifications_exact.

(* whatever listeners do (they only ever add outputs) and whatever is requested: after every
   operation the TorState part of the model stands for exactly Tor's view of the history so far -- C07's statement
   under C08's histories; xfinal / lfinal = the states after the whole list, and every prefix is such a list *)
Theorem C08_state_follows_tor_view : forall rts ops xs', legal8 ops = true -> xfinal (xinit rts) ops = Some xs' ->
  exists ls', lfinal ls0 ops = Some ls' /\ abs (base xs') = l_tv ls' /\ WF (base xs') /\ Complete (base xs').
Proof. exact state_follows_tor_view. Qed.
Print Assumptions C08_state_follows_tor_view.

Theorem C08_waits_once : forall rts ops tr w,
  legal8 ops = true -> xrun rts ops = Some tr -> (countN w (concat (map done_ids tr)) <= 1)%nat.
Proof. exact waits_once_legal. Qed.
Print Assumptions C08_waits_once.

Theorem C08_done_only_if_requested : forall rts ops tr w,
  xrun rts ops = Some tr -> In w (concat (map done_ids tr)) -> In w (concat (map req_id ops)).
Proof. exact done_only_if_requested. Qed.
Print Assumptions C08_done_only_if_requested.

Theorem C08_close_waits_for_event : forall rts ops, legal8 ops = true -> close_sound_from (xinit rts) ops.
Proof. exact close_waits_for_event. Qed.
Print Assumptions C08_close_waits_for_event.

(* regression anchors: the witnesses of the repaired findings C08-F1 / C08-F2 are accepted now *)
Theorem C08_stream_close_after_gone_now_accepted :
  legal8 wit_F1 = true /\ xrun [] wit_F1 = Some [[]; []; [NDone 1 (WOkS 0)]; []] /\
  oracle8 wit_F1 [[]; []; [NDone 1 (WOkS 0)]; []] = true.
Proof. exact stream_close_after_gone_now_accepted. Qed.
Print Assumptions C08_stream_close_after_gone_now_accepted.

Theorem C08_circuit_close_after_failed_now_accepted :
  legal8 wit_F2 = true /\
  xrun [] wit_F2 = Some [[]; [NCmd 0 1]; []; [NDone 2 WOkNone]; [NDone 1 WOkNone]; []] /\
  oracle8 wit_F2 [[]; [NCmd 0 1]; []; [NDone 2 WOkNone]; [NDone 1 WOkNone]; []] = true.
Proof. exact circuit_close_after_failed_now_accepted. Qed.
Print Assumptions C08_circuit_close_after_failed_now_accepted.

(* C08-F3 (repaired by 792f48d): listener 32 raises from circuit_built; listener 0, registered after it, still hears
   every transition and the when_built() wait completes at BUILT.  (A listener that raises and one that returns are the
   same to the model because every call is guarded; the corpus file runs this history on the real objects.) *)
Definition wit_F3 : list op :=
  [OAddCL 32; OAddCL 0; OEv (ECirc 1 CLaunched [] [(0, 0)]); OWhenBuilt 0 1;
   OEv (ECirc 1 CBuilt [{| h_rid := 2; h_nick := 0 |}] []); OEv (ECirc 1 CFailed [{| h_rid := 2; h_nick := 0 |}] [(2, 3)])].
Definition tr_F3 : list (list nev) :=
  [[]; []; [NCirc 32 0 0 0 []; NCirc 0 0 0 0 []; NCirc 32 1 0 0 []; NCirc 0 1 0 0 []]; [];
   [NCirc 32 2 0 2 []; NCirc 0 2 0 2 []; NCirc 32 3 0 0 []; NCirc 0 3 0 0 []; NDone 1 (WOkC 0)];
   [NCirc 32 5 0 0 [(2, 3); (102, 3)]; NCirc 0 5 0 0 [(2, 3); (102, 3)]]].
Theorem C08_raising_listener_now_accepted :
  legal8 wit_F3 = true /\ xrun [] wit_F3 = Some tr_F3 /\ oracle8 wit_F3 tr_F3 = true.
Proof. vm_compute. repeat split; reflexivity. Qed.
Print Assumptions C08_raising_listener_now_accepted.

(* the hypotheses are satisfiable by a non-trivial history: a global listener, a wait for BUILT requested
   before the circuit is built, a close requested and acknowledged BEFORE Tor reports the circuit closed *)
Example C08_nonvacuous :
  let ops := [OAddCL 1; OEv (ECirc 5 CLaunched [] [(0, 0)]); OWhenBuilt 0 7;
              OEv (ECirc 5 CBuilt [{| h_rid := 2; h_nick := 0 |}] []); OCClose 0 8; OAck;
              OEv (ECirc 5 CClosed [] [(2, 3)])] in
  legal8 ops = true /\
  xrun [] ops = Some [[]; [NCirc 1 0 0 0 []; NCirc 1 1 0 0 []]; [];
                      [NCirc 1 2 0 2 []; NCirc 1 3 0 0 []; NDone 7 (WOkC 0)]; [NCmd 0 5]; [];
                      [NDone 8 (WOkC 0); NCirc 1 4 0 0 [(2, 3); (102, 3)]]] /\
  oracle8 ops [[]; [NCirc 1 0 0 0 []; NCirc 1 1 0 0 []]; [];
               [NCirc 1 2 0 2 []; NCirc 1 3 0 0 []; NDone 7 (WOkC 0)]; [NCmd 0 5]; [];
               [NDone 8 (WOkC 0); NCirc 1 4 0 0 [(2, 3); (102, 3)]]] = true.
Proof. vm_compute. repeat split; reflexivity. Qed.

(* ... and with build_circuit(): the event before the answer (no second circuit_new, the listener and the wait added
   to the announced object are served), the answer before the event (circuit_new at the answer), an error answer *)
Example C08_builds_nonvacuous :
  let ops := [OAddCL 1; OBuild [2] 1; OEv (ECirc 4 CLaunched [] [(0, 0)]); OCListen 0 2; OWhenBuilt 0 2; OExtended 4;
              OEv (ECirc 4 CBuilt [{| h_rid := 2; h_nick := 0 |}] []); OBuild [] 3; OExtended 5; OBuild [1] 4; OBuildErr] in
  let tr := [[]; [NCmd 2 1; NCmd 3 2]; [NCirc 1 0 0 0 []; NCirc 1 1 0 0 []]; []; []; [NDone 1 (WOkC 0)];
             [NCirc 1 2 0 2 []; NCirc 2 2 0 2 []; NCirc 1 3 0 0 []; NCirc 2 3 0 0 []; NDone 2 (WOkC 0)]; [NCmd 2 0];
             [NCirc 1 0 1 0 []; NDone 3 (WOkC 1)]; [NCmd 2 1; NCmd 3 1]; [NDone 4 (WFail 4 0 0)]] in
  legal8 ops = true /\ xrun [] ops = Some tr /\ oracle8 ops tr = true.
Proof. vm_compute. repeat split; reflexivity. Qed.
