(* C17 -- onion listen(): loopback listener, exact port mapping, no leak on failure.
   Only statements; each closed by `exact <lemma of Proofs/C17Proofs.v>`.

   Objects:  cfg/lop/lrec/oracle ... : Spec/C17.v (from the property text and the documented options);
             lrun : Model/Listen.v (what txtorcon does), with the service creation inside listen()
             being Model/DescUpload.v, the model of C15, unchanged.
             lrun c ops = record of the constructing call :: record of the listen() call :: one per op.

   FULL STATEMENT (kept visible; `oracle` is its executable form, see the header of Spec/C17.v):

       forall c ops, wf c ops = true -> oracle c ops (lrun c ops) = true

   It is FALSE of the faithful model (and of the code) on two input classes, each with a witness:
     C17_disconnect_in_wait_refuted      (F3) connection lost during the descriptor wait: listen() never fires, listener stays
     C17_stealth_several_clients_refuted (F4) stealth authentication with several clients: the address reports no hostname
     C17_already_configured_refuted      (F5) the directory is already configured: a fresh port is bound, Tor is told nothing
   Repaired in /repo and now covered by the theorems (regression anchors on the old witnesses):
     C17_late_refusal_now_accepted       (was F1, fix 64ae05b) version 3 + RSA1024 key: constructor and string parser refuse at once
     C17_string_route_now_accepted       (was F2, fix d08dcab) onion:...hiddenServiceDir=..:singleHop=true refused by the parser
     C17_already_configured_no_leak_now_accepted (was F6, fix 0104264) already-configured directory beside an authenticated service
   What IS proved:
     for ALL configurations, ports and histories (unbounded):
       C17_no_leak_on_failure              after listen() has failed no local listener is open
       C17_loopback_and_mapping            at most one bind, on 127.0.0.1; at most one creating command, after a
                                           successful bind, forwarding exactly public -> 127.0.0.1:<bound port>
       C17_resolves_after_descriptor       listen() fires in exactly the step in which C15's create() fires, with the
                                           corresponding outcome (so C15's theorems transfer)
     for the whole (finite) option space of the three routes (972 + 324 + 2100 requests), any ports, any script:
       C17_invalid_refused_early           an invalid combination is refused by the constructing call and nothing at
                                           all has happened by then (and C17_valid_constructed: a valid one is constructed)
     for the finite product  option space x {one, two clients} x {directory new, already configured} x {config ready, pending} x {bind ok, fails} x 17 fault scripts,
     public port 80, bound port 45017 (bounds stated in the theorem):
       C17_oracle_on_fault_product_partial the full statement outside F3, F4 and F5 *)
From Coq Require Import List Bool Arith NArith.
From TxVerif Require Import Lib.ListSet Spec.C15 Spec.C17 Model.DescUpload Model.Listen Proofs.C15Proofs Proofs.C17Proofs.
Import ListNotations.
Open Scope N_scope.

Theorem C17_no_leak_on_failure : forall c ops, no_leak false (lrun c ops) = true.
Proof. exact lrun_noleak. Qed.
Print Assumptions C17_no_leak_on_failure.

Theorem C17_loopback_and_mapping : forall c ops, loopback_and_mapping c 0 0 false (lrun c ops) = true.
Proof. exact lrun_loopback_and_mapping. Qed.
Print Assumptions C17_loopback_and_mapping.

(* composition with C15: projected on results, the listen trace IS the create() trace *)
Theorem C17_resolves_after_descriptor : forall c q ops m op pp oo,
  J m -> m_created m = false ->
  map res15 (lrun_from c q {| p_ph := PCreate m; p_open := op; p_port := pp; p_oos := oo |} (map LDesc ops))
  = map dones15 (run_from c15cfg m ops).
Proof. intros c q ops. exact (listen_follows_create c q ops). Qed.
Print Assumptions C17_resolves_after_descriptor.

Theorem C17_invalid_refused_early : forall r pub bound pend bind two same ops,
  let c := {| g_route := r; g_pub := pub; g_bound := bound; g_pending := pend; g_bind_ok := bind; g_two_clients := two; g_same_dir := same |} in
  valid c = false -> lrun c ops = [{| l_evs := [ORefused]; l_open := 0 |}].
Proof. exact invalid_refused_early. Qed.
Print Assumptions C17_invalid_refused_early.

Theorem C17_valid_constructed : forall r, accepted_ok r = true.
Proof. exact accepted_ok_all. Qed.
Print Assumptions C17_valid_constructed.

Theorem C17_oracle_on_fault_product_partial : forall r pend bind two same ops,
  In ops fault_scripts ->
  let c := {| g_route := r; g_pub := 80; g_bound := 45017; g_pending := pend; g_bind_ok := bind; g_two_clients := two; g_same_dir := same |} in
  wf c ops = true -> disconnect_while_waiting c ops = false -> stealth_several_clients c = false ->
  directory_already_configured c = false ->
  oracle c ops (lrun c ops) = true.
Proof. exact oracle_on_product. Qed.
Print Assumptions C17_oracle_on_fault_product_partial.

Theorem C17_disconnect_in_wait_refuted :
  exists c ops, wf c ops = true /\ oracle c ops (lrun c ops) = false.
Proof. exact disconnect_in_wait_refuted. Qed.
Print Assumptions C17_disconnect_in_wait_refuted.

Theorem C17_stealth_several_clients_refuted :
  exists c ops, wf c ops = true /\ disconnect_while_waiting c ops = false /\ oracle c ops (lrun c ops) = false.
Proof. exact stealth_two_clients_refuted. Qed.
Print Assumptions C17_stealth_several_clients_refuted.

Theorem C17_already_configured_refuted :
  exists c ops, wf c ops = true /\ disconnect_while_waiting c ops = false /\ stealth_several_clients c = false
    /\ oracle c ops (lrun c ops) = false.
Proof. exact already_configured_refuted. Qed.
Print Assumptions C17_already_configured_refuted.

Theorem C17_already_configured_no_leak_now_accepted :
  let c := {| g_route := RCtor {| a_eph := TNone; a_hsdir := true; a_auth := ANone; a_stealth_kw := false;
                                  a_key := KNone; a_ver := VNone; a_single := TNone |};
              g_pub := 80; g_bound := 45017; g_pending := false; g_bind_ok := true; g_two_clients := false;
              g_same_dir := true |} in
  no_leak false (lrun c []) = true /\ flat_map (fun r => results (l_evs r)) (lrun c []) = [LOk true true true].
Proof. exact already_configured_no_leak_now_accepted. Qed.
Print Assumptions C17_already_configured_no_leak_now_accepted.

(* basic authentication with two clients (one shared hostname): the address reports it *)
Theorem C17_basic_two_clients_reported :
  let c := {| g_route := RCtor {| a_eph := TNone; a_hsdir := false; a_auth := ABasic; a_stealth_kw := false;
                                  a_key := KNone; a_ver := V2; a_single := TNone |};
              g_pub := 80; g_bound := 45017; g_pending := false; g_bind_ok := true; g_two_clients := true; g_same_dir := false |} in
  let ops := [LDesc Reply; LDesc (Ev KUpload 1 1); LDesc (Ev KUploaded 1 1)] in
  oracle c ops (lrun c ops) = true
  /\ flat_map (fun r => results (l_evs r)) (lrun c ops) = [LOk true true true].
Proof. exact basic_two_clients_reported. Qed.
Print Assumptions C17_basic_two_clients_reported.

(* ---- regression anchors: the witnesses of the repaired findings are refused at once now ---- *)
Theorem C17_late_refusal_now_accepted :
  let c := cfg_of (RCtor {| a_eph := TNone; a_hsdir := false; a_auth := ANone; a_stealth_kw := false; a_key := KRsa;
                            a_ver := V3; a_single := TNone |}) in
  let cs := cfg_of (RStr {| s_hsd := false; s_key := KRsa; s_keyfile := KFNone; s_ver := SV3; s_hop := SHNone;
                            s_control := false |}) in
  let cf := cfg_of (RStr {| s_hsd := false; s_key := KNone; s_keyfile := KFPem; s_ver := SV3; s_hop := SHNone;
                            s_control := true |}) in
  lrun c [] = refused_only /\ oracle c [] (lrun c []) = true
  /\ lrun cs [] = refused_only /\ oracle cs [] (lrun cs []) = true
  /\ lrun cf [] = refused_only /\ oracle cf [] (lrun cf []) = true.
Proof. exact late_refusal_now_accepted. Qed.
Print Assumptions C17_late_refusal_now_accepted.

Theorem C17_string_route_now_accepted :
  let c := cfg_of (RStr {| s_hsd := true; s_key := KNone; s_keyfile := KFNone; s_ver := SVNone; s_hop := SHtrue;
                           s_control := false |}) in
  lrun c [] = refused_only /\ oracle c [] (lrun c []) = true.
Proof. exact string_started_tor_now_accepted. Qed.
Print Assumptions C17_string_route_now_accepted.

(* the hypotheses are satisfiable by a non-trivial case: a filesystem service with stealth authentication
   whose configuration arrives late; one upload fails, the other succeeds; then the user stops the port *)
Example C17_nonvacuous :
  let c := {| g_route := RCtor {| a_eph := TNone; a_hsdir := true; a_auth := AStealth; a_stealth_kw := false;
                                  a_key := KNone; a_ver := V2; a_single := TNone |};
              g_pub := 443; g_bound := 45017; g_pending := true; g_bind_ok := true; g_two_clients := false; g_same_dir := false |} in
  let ops := [LCfgOk; LDesc Reply; LDesc (Ev KUpload 1 1); LDesc (Ev KUpload 1 2); LDesc (Ev KFailed 1 1);
              LDesc (Ev KUploaded 1 2); LStop] in
  wf c ops = true /\ oracle c ops (lrun c ops) = true
  /\ map l_open (lrun c ops) = [0; 0; 1; 1; 1; 1; 1; 1; 0]
  /\ map (fun r => results (l_evs r)) (lrun c ops) = [[]; []; []; []; []; []; []; [LOk true true true]; []].
Proof. vm_compute. repeat split; reflexivity. Qed.
