(* C07 -- the live state lists exactly Tor's circuits and streams; attachments consistent in both
   directions.  Only statements; each closed by `exact <lemma of Proofs/C07Proofs.v>`.

   Objects: Spec/C07.v (events, Tor's own view tor_view, what Tor can emit: legal, the oracle on the
   observations of TorState.circuits / TorState.streams); Model/State.v (the heap model of TorState /
   Circuit / Stream: step, steps, run, observe); Proofs/C07Proofs.v (abs: the Tor view a model state stands
   for: dict order kept, a stream is "on c" when its .circuit cell is the one listed as c in
   TorState.circuits, "dangling" when that cell is listed nowhere any more).

   Full statement = C07_refines_tor_view: for ALL relay tables, snapshots and event histories Tor can emit
   (unbounded length, unbounded ids), no event raises and the observation after the snapshot and after every
   single event passes the Spec oracle (exactly Tor's circuits/streams with their latest attributes; every
   stream under exactly the circuit object it is on, once; none under any object after DETACHED / CLOSED /
   FAILED, also when that circuit closed first).  It is proved in full, no clause is refuted or partial.
   The other theorems restate clauses of the property directly on model states.

   C07_refines_tor_view_with_builds is the same statement for histories that also contain build_circuit() calls
   and Tor's answers to them (Spec.C07.stim: the answer 250 EXTENDED id to the oldest outstanding call, or an error,
   at any later position, before or after the first CIRC event of id): in addition every call completes with the
   Circuit object listed under the id Tor named, which is the object listed before the answer if the circuit had
   been announced already (one object per id).  The answer is read as Tor's statement "id EXTENDED" (no keywords, no
   path); legality requires that no hop of id was reported before it. *)
From Coq Require Import List Bool Arith NArith.
From TxVerif Require Import Lib.Bytes Lib.NList Spec.C07 Model.State Proofs.C07Proofs Proofs.C07Builds.
Import ListNotations.
Open Scope N_scope.

Theorem C07_refines_tor_view : forall rts snap evs, legal snap evs = true ->
  exists tr, run rts snap evs = Some tr /\ oracle snap evs tr = true.
Proof. exact run_satisfies_oracle. Qed.
Print Assumptions C07_refines_tor_view.

Theorem C07_refines_tor_view_with_builds : forall rts snap l, legal2 snap l = true ->
  exists tr, run2 rts snap l = Some tr /\ oracle2 snap l tr = true.
Proof. exact run2_satisfies_oracle2. Qed.
Print Assumptions C07_refines_tor_view_with_builds.

(* the model state after any legal history abstracts to exactly Tor's view of that history
   (ids in the same order, latest status / purpose / flags / path / target / source, attachment) *)
Theorem C07_state_is_tor_view : forall rts evs, legal_from tv0 evs = true ->
  exists s, steps (init rts) evs = Some s /\ abs s = tor_view evs.
Proof. exact thm_state_is_tor_view. Qed.
Print Assumptions C07_state_is_tor_view.

(* after any legal history, for EVERY Circuit object (listed in TorState.circuits or closed earlier):
   its .streams has no duplicates and contains exactly the live streams whose .circuit is that object *)
Theorem C07_attachment_bidirectional : forall rts evs s,
  legal_from tv0 evs = true -> steps (init rts) evs = Some s ->
  forall coid c, get_c coid s = Some c ->
    NoDup (c_streams c) /\
    (forall soid, In soid (c_streams c) <->
                  exists id x, In (id, soid) (streams s) /\ get_s soid s = Some x /\ s_circ x = Some coid).
Proof. exact thm_bidirectional. Qed.
Print Assumptions C07_attachment_bidirectional.

(* CLOSED / FAILED of a stream at any point of any legal history: the id is gone from TorState.streams and
   no Circuit object in the heap -- including one whose circuit closed first -- lists the Stream object *)
Theorem C07_terminal_removes_everywhere : forall rts evs s id soid st cid host port kw,
  legal_from tv0 (evs ++ [EStream id st cid host port kw]) = true -> s_terminal st = true ->
  steps (init rts) evs = Some s -> In (id, soid) (streams s) ->
  exists s', step s (EStream id st cid host port kw) = Some s' /\
             ~ In id (map fst (streams s')) /\ ~ In soid (map snd (streams s')) /\
             (forall c, In c (cheap s') -> ~ In soid (c_streams c)).
Proof. exact thm_stream_terminal. Qed.
Print Assumptions C07_terminal_removes_everywhere.

(* CLOSED / FAILED of a circuit at any point of any legal history: gone from TorState.circuits *)
Theorem C07_closed_circuit_removed : forall rts evs s id st path kw,
  legal_from tv0 (evs ++ [ECirc id st path kw]) = true -> c_terminal st = true ->
  steps (init rts) evs = Some s ->
  exists s', step s (ECirc id st path kw) = Some s' /\ ~ In id (map fst (circuits s')).
Proof. exact thm_circuit_terminal. Qed.
Print Assumptions C07_closed_circuit_removed.

(* the hypotheses are satisfiable by a non-trivial history: a stream attached to circuit 1, the circuit
   closes under it, the id 1 is reused by a new circuit, then the stream is closed *)
Example C07_nonvacuous :
  let evs := [ECirc 1 CBuilt [{| h_rid := 2; h_nick := 1 |}] [(0, 0)];
              EStream 7 SNew 0 3 80 [(4, 65536 + 4444)];
              EStream 7 SSentConnect 1 3 80 [];
              ECirc 1 CClosed [] [(2, 3)];
              ECirc 1 CLaunched [] [];
              EStream 7 SClosed 1 3 80 [(2, 5)]] in
  legal [] evs = true /\
  option_map (map (fun o => (map co_id (o_circs o), map so_id (o_streams o), o_heap o))) (run [] [] evs) =
  Some [([], [], []); ([1], [], [(0, [])]); ([1], [7], [(0, [])]); ([1], [7], [(0, [0])]);
        ([], [7], [(0, [0])]); ([1], [7], [(0, [0]); (1, [])]); ([1], [], [(1, [])])].
Proof. vm_compute. split; reflexivity. Qed.

(* with builds: the event before the answer, and the answer before the event; one object per circuit *)
Example C07_builds_nonvacuous :
  let l := [SBuild [2; 3]; SEv (ECirc 4 CLaunched [] [(0, 0)]); SExtended 4; SBuild []; SExtended 5;
            SEv (ECirc 5 CLaunched [] []); SBuild [1]; SBuildErr] in
  legal2 [] l = true /\
  option_map (map (fun x => (listing (fst x), snd x))) (run2 [] [] l) =
  Some [([], []); ([], [(0, 2); (3, 2); (3, 3)]); ([(4, 0)], []); ([(4, 0)], [(1, 0); (4, 0)]); ([(4, 0)], [(0, 0)]);
        ([(4, 0); (5, 1)], [(1, 1); (4, 1)]); ([(4, 0); (5, 1)], []); ([(4, 0); (5, 1)], [(0, 1); (3, 1)]);
        ([(4, 0); (5, 1)], [(2, 2)])].
Proof. vm_compute. split; reflexivity. Qed.
