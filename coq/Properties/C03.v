(* C03 -- connection loss fails every unanswered command once; nothing is left pending.
   Only statements; each closed by `exact <lemma>`.  The model is Model/CtlProto.v.
   Full statement (the Spec oracle j_c03 of Spec/CtlOracle.v is its executable form): for every
   history, after OLose every command outstanding or submitted later has exactly one
   `Resolved _ RDisc`, nothing is written, every disconnect observer is told once.
   Proved here for ALL states and histories of the model:
     - the loss leaves nothing in flight and nothing queued, and writes nothing;
     - it notifies each registered observer once and fails each outstanding command once, in
       order (exact trace, for commands whose callbacks submit nothing; the general case is
       covered by the first theorem plus the oracle on the correspondence run);
     - afterwards every submission fails at once with the disconnect error;
     - afterwards no operation of the application can cause a write.
   "No id is ever resolved twice" over whole traces follows from C03_model_is_reference for the
   histories it covers, and is proved outright at command level (below).
   Caller-side cancellation (Deferred.cancel(), an expired addTimeout) is treated at command level
   (Spec/C03Cancel.v, Model/CtlCancel.v, Proofs/C03Cancel.v: whole replies, one `called` flag per
   command), together with disconnect observers whose callbacks call back into the protocol (ask to
   be told again, submit a command): C03_cancel_* - the model of queue_command / _maybe_issue_command /
   reply dispatch / when_disconnected / connectionLost IS the reference machine for every operation
   sequence; no command is resolved twice; after the loss every submitted command - those submitted
   from inside a disconnect notification included - is resolved (by its reply, by the caller, or by
   the loss); every request to be told is honoured exactly once; nothing is written after the loss.
   The loss may also arrive from inside a reply callback (QReplyLose: the caller's callback on the in-flight
   command's reply hangs up and the transport reports the loss synchronously, so connectionLost runs while
   that command is still recorded as in flight): all C03_cancel_* theorems quantify over every operation list
   and so cover it; C03_cancel_replylose_fails_queue gives its exact trace. *)
From Coq Require Import List Bool Ascii Arith NArith.
From TxVerif Require Import Lib.Bytes Spec.Ctl Model.CtlProto Proofs.CtlInv.
From TxVerif Require Import Spec.CtlOracle Proofs.CtlRefine Proofs.CtlRefine3.
From TxVerif Require Import Spec.C03Cancel Model.CtlCancel Proofs.C03Cancel.
Import ListNotations.

Theorem C03_loss_clears_everything : forall s,
  let '(s', o, _) := connection_lost s in idle_lost s' /\ no_wrote o = true.
Proof. exact connection_lost_idle. Qed.
Print Assumptions C03_loss_clears_everything.

Theorem C03_all_fail_once_in_order : forall s,
  forallb (fun c => match cscript c with [] => true | _ => false end)
          (match p_inflight s with Some c => c :: p_queue s | None => p_queue s end) = true ->
  let out := match p_inflight s with Some c => c :: p_queue s | None => p_queue s end in
  connection_lost s =
  (upd_q (upd_lost s []) None [],
   map DiscNotified (p_waiters s) ++ map (fun c => Resolved (cid (cl c)) RDisc) out, true).
Proof. exact connection_lost_plain. Qed.
Print Assumptions C03_all_fail_once_in_order.

Theorem C03_submit_after_loss_fails_at_once : forall s c,
  idle_lost s -> submit1 s c = resolve1 s c RDisc.
Proof. exact submit_after_loss. Qed.
Print Assumptions C03_submit_after_loss_fails_at_once.

Theorem C03_resolution_is_reported_first : forall s c o,
  exists s' os ok, resolve1 s c o = (s', Resolved (cid (cl c)) o :: os, ok).
Proof. exact resolve1_head. Qed.
Print Assumptions C03_resolution_is_reported_first.

Theorem C03_no_write_after_loss : forall lbehs s ops,
  idle_lost s -> forallb app_op ops = true -> no_wrote (concat (run lbehs s ops)) = true.
Proof. exact nothing_written_after_loss. Qed.
Print Assumptions C03_no_write_after_loss.

(* L3 refinement (shared by C01, C02, C03): on EVERY history -- any interleaving of submissions
   (plain, per-line-callback, with callbacks that submit / add / remove listeners), listener changes,
   disconnect-notification requests, a connection loss, and chunks that each carry one whole
   well-formed item (reply or event, any wire form) -- that the reference machine of
   Spec/CtlOracle.v does not flag (causal, nothing after the loss, listeners removed only while
   registered) and on which no exception escapes the model, the model's per-operation trace IS the
   reference trace.  The reference machine is the oracle the check evaluates, so on these
   histories the oracle accepts the model by construction.  Arbitrary chunkings reduce to this by
   C01_protocol_segmentation_independent / the framing theorems. *)
Theorem C03_model_is_reference : forall lbehs items ops tr,
  aligned items ops -> a_good lbehs (a_init items) ops ->
  run_ok lbehs init ops = Some tr ->
  run lbehs init ops = fst (a_run lbehs (a_init items) ops).
Proof. exact model_is_reference. Qed.
Print Assumptions C03_model_is_reference.

(* ---- command level: caller-side cancellation and re-entrant disconnect observers; every operation
   sequence of submissions, cancellations, whole replies, notification requests (whose callbacks do
   nothing / ask again / submit a command) and the loss ---- *)
Theorem C03_cancel_model_is_reference : forall ops, q_run ops = q_ref ops.
Proof. exact model_is_reference_cancel. Qed.
Print Assumptions C03_cancel_model_is_reference.

Theorem C03_cancel_resolved_at_most_once : forall ops tr, q_ref ops = Some tr -> NoDup (res_ids tr).
Proof. exact cancel_resolved_at_most_once. Qed.
Print Assumptions C03_cancel_resolved_at_most_once.

(* r_n of the final state = how many commands were submitted, by the application or by observers' callbacks *)
Theorem C03_cancel_all_resolved_after_loss : forall ops s' tr,
  r_exec r_init ops = Some (s', tr) -> r_lost s' = true ->
  forall k, (k < r_n s')%N -> In k (res_ids tr).
Proof. exact cancel_all_resolved_after_loss. Qed.
Print Assumptions C03_cancel_all_resolved_after_loss.

Theorem C03_cancel_notified_at_most_once : forall ops tr, q_ref ops = Some tr -> NoDup (note_ids tr).
Proof. exact cancel_notified_at_most_once. Qed.
Print Assumptions C03_cancel_notified_at_most_once.

(* r_nw of the final state = how many requests to be told were made, nested ones included *)
Theorem C03_cancel_all_notified_after_loss : forall ops s' tr,
  r_exec r_init ops = Some (s', tr) -> r_lost s' = true ->
  forall w, (w < r_nw s')%N -> In w (note_ids tr).
Proof. exact cancel_all_notified_after_loss. Qed.
Print Assumptions C03_cancel_all_notified_after_loss.

Theorem C03_cancel_loss_is_final : forall ops s' tr,
  r_exec r_init ops = Some (s', tr) -> In QLose ops -> r_lost s' = true.
Proof. intros ops s' tr H Hin. exact (exec_lost ops _ _ _ H (or_introl Hin)). Qed.
Print Assumptions C03_cancel_loss_is_final.

Theorem C03_cancel_nothing_written_after_loss : forall pre post tr,
  q_ref (pre ++ QLose :: post) = Some tr -> quiet (List.concat (skipn (length pre) tr)) = true.
Proof. exact cancel_nothing_written_after_loss. Qed.
Print Assumptions C03_cancel_nothing_written_after_loss.

(* the two statements above that name QLose, generalised to "QLose or an effective QReplyLose"
   (loses s o: o is QLose, or o is QReplyLose and nobody has resolved the command in flight in s;
   s1 is the state the prefix leads to) *)
Theorem C03_cancel_loss_is_final_gen : forall pre o post s1 t1 s' tr,
  r_exec r_init pre = Some (s1, t1) -> loses s1 o = true ->
  r_exec r_init (pre ++ o :: post) = Some (s', tr) -> r_lost s' = true.
Proof. exact cancel_loss_is_final_gen. Qed.
Print Assumptions C03_cancel_loss_is_final_gen.

Theorem C03_cancel_nothing_written_after_loss_gen : forall pre o post s1 t1 tr,
  r_exec r_init pre = Some (s1, t1) -> loses s1 o = true ->
  q_ref (pre ++ o :: post) = Some tr -> quiet (List.concat (skipn (length pre) tr)) = true.
Proof. exact cancel_nothing_written_after_loss_gen. Qed.
Print Assumptions C03_cancel_nothing_written_after_loss_gen.

(* a reply whose callback hangs up, in EVERY state (reachable or not) in which a command nobody has resolved
   is in flight: that command is resolved with its reply; the observers are told (d holds notifications
   only); every later command nobody has resolved - the queued ones, and those the observers' callbacks have
   just submitted - fails exactly once, in submission order; the answered command does not fail; nothing is
   written (the next queued command is not sent); the connection is lost *)
Theorem C03_cancel_replylose_fails_queue : forall s s' es,
  r_step s QReplyLose = Some (s', es) -> memN (r_a s) (r_res s) = false ->
  exists d,
    es = QRes (r_a s) QOk :: d ++
         map (fun k => QRes k QDisc)
             (filter (fun k => negb (memN k (r_res s)))
                     (seqN (r_a s + 1) (N.to_nat (r_n s' - (r_a s + 1))))) /\
    flat_map ev_res d = [] /\ quiet es = true /\ r_lost s' = true /\ r_w s' = r_w s.
Proof. exact cancel_replylose_fails_queue. Qed.
Print Assumptions C03_cancel_replylose_fails_queue.

(* non-vacuity: one command in flight, two queued (the caller gives up on the second), an observer whose
   callback submits a command; the reply of the first arrives and its callback hangs up: it is answered, the
   observer is told, commands 1 and 3 fail - 3 is the one just submitted -, 2 does not fail again, 1 is never
   written; a later submission fails at once; a second loss is outside the envelope *)
Example C03_cancel_replylose_nonvacuous :
  q_run [QSubmit; QSubmit; QSubmit; QWatch WSubmit; QCancel 2; QReplyLose; QSubmit]%N
  = Some [[QWrote 0]; []; []; []; [QRes 2 QCancelled];
          [QRes 0 QOk; QNote 0; QRes 1 QDisc; QRes 3 QDisc]; [QRes 4 QDisc]]%N /\
  q_run [QSubmit; QSubmit; QCancel 0; QReplyLose; QLose]%N
  = Some [[QWrote 0]; []; [QRes 0 QCancelled]; [QWrote 1]; [QRes 1 QDisc]]%N /\
  q_run [QSubmit; QReplyLose; QLose]%N = None.
Proof. vm_compute. repeat split. Qed.

(* three commands, the caller gives up on the one in flight and on a queued one; two observers, one
   submitting a command, one asking again; then the loss: the observers are told in order (the nested
   request at once), the command submitted by the callback joins the outstanding ones, only the
   commands nobody has resolved fail; a late submission fails at once *)
Example C03_cancel_nonvacuous :
  q_run [QSubmit; QSubmit; QSubmit; QWatch WSubmit; QWatch WNested; QCancel 0; QCancel 2; QLose; QSubmit]%N
  = Some [[QWrote 0]; []; []; []; []; [QRes 0 QCancelled]; [QRes 2 QCancelled];
          [QNote 0; QNote 1; QNote 2; QRes 1 QDisc; QRes 3 QDisc]; [QRes 4 QDisc]]%N.
Proof. vm_compute. reflexivity. Qed.

(* non-vacuity: two commands outstanding and one observer, then the loss, then a late submit *)
Example C03_nonvacuous :
  let c n := {| cl := {| cid := n; ctext := map ch [88]; ccb := false |}; cscript := [] |} in
  concat (run [] init [OSubmit (c 1%N); OSubmit (c 2%N); OWhenDisc 7%N; OLose; OSubmit (c 3%N)])
  = [Wrote (map ch [88; 13; 10]); DiscNotified 7%N; Resolved 1%N RDisc; Resolved 2%N RDisc; Resolved 3%N RDisc].
Proof. vm_compute. reflexivity. Qed.
