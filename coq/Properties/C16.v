(* C16 -- the relay view equals the latest consensus document, nothing carried over.
   Only statements; each closed by `exact <lemma of Proofs/C16*.v>`.

   Full statement (kept visible; Spec.C16.oracle is its executable form):
     forall ds, ds <> [] -> forallb input_ok ds = true ->
       exists vs, run ds = Some vs /\ oracle (map fst ds) vs = true
   where a history ds is a list of (document, extra lookup keys), the first document delivered as
   the GETINFO ns/all block, the others as NEWCONSENSUS events; input_ok = the document is
   well-formed (wf_doc: tokens, 20-byte identities distinct within the document, at least one
   flag, ...) and the extra keys do not name unknown fingerprints.  The oracle demands, after every
   document: every relay of the document known under its identity as one Router object of its own
   carrying exactly the document's nickname / identity / $hex / IPv4 / ports / IPv6 list / flags /
   bandwidth; routers_by_hash, all_routers, routers, routers_by_name with nothing else in them;
   lookup by identity always and by nickname iff the nickname is unique; guards / authorities =
   the relays carrying the flag; and (c_identity) a relay of the previous document keeps its object.

   It is FALSE of the faithful model on the input class of the open finding
     C16-F2 (two Authority relays sharing a nickname)        -> C16_dup_authority_nick_refuted
   and is proved for every other history, of any length, as C16_view_equals_document_partial:
   its extra hypothesis (history_ok) is input_ok plus exactly the complement of that class.
   C16-F1 (an entry with a "p" line and no "w" line made the parser raise) is repaired in /repo
   (c31e0a3); its former refutation witness is kept as C16_p_without_w_now_accepted. *)
From Coq Require Import List Bool Ascii Arith NArith String.
From TxVerif Require Import Lib.Bytes Spec.C16 Model.MicrodescTypes Model.Microdesc Model.IdCodec Model.Consensus
  Proofs.C16Parse Proofs.C16State Proofs.C16Proofs.
Import ListNotations.

Theorem C16_view_equals_document_partial : forall ds, ds <> [] -> history_ok ds = true ->
  exists vs, run ds = Some vs /\ oracle (map fst ds) vs = true.
Proof. exact oracle_holds_partial. Qed.
Print Assumptions C16_view_equals_document_partial.

(* regression anchor of the repaired finding C16-F1, on its former witness ("r", "s", "p" without "w") *)
Theorem C16_p_without_w_now_accepted :
  forallb input_ok f1_witness = true
  /\ existsb (fun e => match e_bw e, e_policy e with None, Some _ => true | _, _ => false end)
             (flat_map fst f1_witness) = true
  /\ exists vs, run f1_witness = Some vs /\ oracle (map fst f1_witness) vs = true.
Proof. exact p_without_w_now_accepted. Qed.
Print Assumptions C16_p_without_w_now_accepted.

Theorem C16_dup_authority_nick_refuted :
  exists ds, forallb input_ok ds = true /\ forallb (fun dx => doc_dup_authority_nick (fst dx)) ds = true
             /\ exists vs, run ds = Some vs /\ oracle (map fst ds) vs = false.
Proof. exact dup_authority_nick_refuted. Qed.
Print Assumptions C16_dup_authority_nick_refuted.

(* the line parser (interpreted over the table regenerated from _microdesc_parser.py) reads back
   every well-formed document (also entries with "p" and no "w"), from each state a previous document
   can leave it in (waiting_r / waiting_w / waiting_p): the relays handed to create_relay while
   the lines are fed are doc_out, and together with the one still pending they are exactly the
   document's entries, in order (C16_parser_emits_all) *)
Theorem C16_parser_reads_document : forall d q rest,
  forallb wf_entry d = true -> good_state q = true ->
  feed {| ps := q; attrs := None |} (render_doc d ++ rest) =
  let '(s2, o2, e2) := feed (doc_end {| ps := q; attrs := None |} d) rest in (s2, doc_out None d ++ o2, e2).
Proof. exact parser_reads_document. Qed.
Print Assumptions C16_parser_reads_document.

Theorem C16_parser_emits_all : forall d s,
  doc_out (attrs s) d ++ emit_pending (attrs (doc_end s d)) = emit_pending (attrs s) ++ map kw_of d.
Proof. exact parser_emits_all. Qed.
Print Assumptions C16_parser_emits_all.

(* identity conversion: on every 20-byte digest d the two functions of router.py map the
   document's base64 form and the $hex fingerprint to each other, and both forms determine d *)
Theorem C16_id_codec_roundtrip : forall d, List.length d = 20%nat ->
  hexIdFromHash (identity_text d) = Some (fingerprint d) /\ hashFromHexId (fingerprint d) = Some (identity_text d).
Proof. exact id_codec_roundtrip. Qed.
Print Assumptions C16_id_codec_roundtrip.

Theorem C16_id_codec_injective : forall d1 d2, List.length d1 = 20%nat -> List.length d2 = 20%nat ->
  (identity_text d1 = identity_text d2 -> d1 = d2) /\ (fingerprint d1 = fingerprint d2 -> d1 = d2).
Proof. exact id_codec_injective. Qed.
Print Assumptions C16_id_codec_injective.

(* the codec clause of the check (Spec.C16.codec_ok) holds of the model on every 20-byte digest,
   also for the fingerprint written without its "$" *)
Theorem C16_id_codec_oracle : forall d, List.length d = 20%nat -> codec_ok (codec_run d) = true.
Proof. exact codec_run_ok. Qed.
Print Assumptions C16_id_codec_oracle.

(* non-vacuity: a three-document history (duplicate nickname, a relay that leaves, flags and
   "a"/"w" lines that go away, an empty last document) meets the hypotheses *)
Example C16_hypotheses_satisfiable : ex_history <> [] /\ history_ok ex_history = true.
Proof. exact ex_history_ok. Qed.
