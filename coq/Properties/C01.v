(* C01 -- control replies resolve commands FIFO, exactly once, one command in flight.
   Only statements; each closed by `exact <lemma>`.  Model: Model/Framing.v + Model/CtlProto.v,
   the FSM table regenerated from TorControlProtocol.__init__ (Gen/CtlFsmTable.v).
   Full statement = the Spec oracle j_c01 of Spec/CtlOracle.v on `run lbehs init ops`.
   Proved here, for ALL inputs:
   (1) segmentation: the lines handed to the protocol depend only on the concatenation of the
       chunks (every chunking, including cuts inside CR LF);
   (2) parsing: from the resting state, the lines of ANY well-formed reply (any number of mid
       and data-block parts; data lines arbitrary 7-bit text incl. lines that look like status
       lines, "." lines, empty lines) to the in-flight command resolve exactly that command,
       with exactly the reply text (2xx: final OK line removed; 5xx: code and text), after which
       the in-flight slot is cleared and the head of the queue -- nothing else -- is written;
       a per-line-callback command gets every line through its callback;
   (3) the protocol is back in the resting state afterwards (so (2) applies to the next reply).
   C01_cb_lines_partial carries the hypothesis `no_oklike`, the complement of open finding
   C01-F1's input class; C01_cb_oklike_refuted shows the full statement fails without it. *)
From Coq Require Import List Bool Ascii Arith NArith.
From TxVerif Require Import Lib.Bytes Spec.Ctl Model.CtlTypes Model.Framing Model.CtlProto
  Proofs.FramingProofs Proofs.CtlParse Proofs.CtlText Proofs.CtlItem Proofs.CtlRest Proofs.CtlFifo Proofs.CtlSegment.
From TxVerif Require Import Spec.CtlOracle Proofs.CtlRefine Proofs.CtlRefine3.
Import ListNotations.

Theorem C01_framing_segmentation_independent : forall cs1 cs2,
  concat cs1 = concat cs2 -> feed_all [] cs1 = feed_all [] cs2.
Proof. exact framing_segmentation_independent. Qed.
Print Assumptions C01_framing_segmentation_independent.

Theorem C01_framing_is_split : forall chunks, feed_all [] chunks = pysplit (concat chunks).
Proof. exact feed_all_concat. Qed.
Print Assumptions C01_framing_is_split.

(* the same at protocol level: for every state of the FSM / queue / listeners and every reachable
   receive buffer, receiving a ++ b at once has the same outcome (observations, success, state) as
   receiving a and then b, for every split point incl. inside CR LF -- provided no line exceeds
   MAX_LENGTH (the hypotheses on l1 l2 b1 b2; otherwise the connection is dropped) *)
Theorem C01_protocol_segmentation_independent : forall lbehs s a b l1 b1 l2 b2,
  stable (rev (p_buf s)) -> p_disc s = false ->
  feed (p_buf s) a = (l1, b1) -> feed b1 b = (l2, b2) ->
  forallb line_fits (l1 ++ l2) = true -> line_fits b1 = true -> line_fits b2 = true ->
  same_outcome (data_received lbehs s (a ++ b))
               (andthen (data_received lbehs s a) (fun s1 => data_received lbehs s1 b)).
Proof. exact data_received_split. Qed.
Print Assumptions C01_protocol_segmentation_independent.

(* session level: cutting any chunk of any history in two leaves the flattened trace unchanged *)
Theorem C01_session_split_invariant : forall lbehs s a b l1 b1 l2 b2 ops,
  stable (rev (p_buf s)) -> p_disc s = false ->
  feed (p_buf s) a = (l1, b1) -> feed b1 b = (l2, b2) ->
  forallb line_fits (l1 ++ l2) = true -> line_fits b1 = true -> line_fits b2 = true ->
  concat (run lbehs s (ORecv (a ++ b) :: ops)) = concat (run lbehs s (ORecv a :: ORecv b :: ops)).
Proof. exact run_split. Qed.
Print Assumptions C01_session_split_invariant.

Theorem C01_reply_ok_resolves_inflight : forall lbehs s i cm,
  at_rest s -> p_inflight s = Some cm -> ccb (cl cm) = false ->
  wf_item i = true -> is_2xx (icode i) = true -> item_fits i = true ->
  lines_received lbehs s (render_lines i) =
  finish_cmd (upd_fsm s (item_fsm i) (Some (icode i)) []) [] cm (ROk (reply_text_ok i)).
Proof. exact reply_ok_plain. Qed.
Print Assumptions C01_reply_ok_resolves_inflight.

Theorem C01_reply_err_fails_inflight : forall lbehs s i cm,
  at_rest s -> p_inflight s = Some cm -> ccb (cl cm) = false ->
  wf_item i = true -> is_5xx (icode i) = true -> item_fits i = true ->
  lines_received lbehs s (render_lines i) =
  finish_cmd (upd_fsm s (item_fsm i) (Some (icode i)) []) [] cm (RErr (icode i) (item_text i)).
Proof. exact reply_err_plain. Qed.
Print Assumptions C01_reply_err_fails_inflight.

Theorem C01_reply_to_callback_command : forall lbehs s i cm,
  at_rest s -> p_inflight s = Some cm -> ccb (cl cm) = true ->
  wf_item i = true -> is_2xx (icode i) = true -> item_fits i = true ->
  lines_received lbehs s (render_lines i) =
  finish_cmd (upd_fsm s (item_fsm i) (Some (icode i)) []) (cb_calls (cid (cl cm)) i) cm (ROk []).
Proof. exact reply_ok_cb. Qed.
Print Assumptions C01_reply_to_callback_command.

Theorem C01_cb_lines_partial : forall id i,
  no_oklike i = true -> cb_calls id i = map (LineCb id) (cb_lines i).
Proof. exact cb_calls_spec. Qed.
Print Assumptions C01_cb_lines_partial.

Theorem C01_cb_oklike_refuted : exists i, wf_item i = true /\ cb_calls 1%N i <> map (LineCb 1%N) (cb_lines i).
Proof. exact cb_oklike_refuted. Qed.
Print Assumptions C01_cb_oklike_refuted.

(* (3): after any complete reply the protocol is at rest again *)
Theorem C01_back_at_rest_after_reply : forall s f c o0 cm o,
  p_disc s = false ->
  let '(s', _, ok) := finish_cmd (upd_fsm s f (Some c) []) o0 cm o in ok = true -> at_rest s'.
Proof. exact finish_cmd_rest. Qed.
Print Assumptions C01_back_at_rest_after_reply.

Theorem C01_next_command_is_queue_head : forall s c q,
  p_inflight s = None -> p_queue s = c :: q -> p_lost s = false ->
  maybe_issue1 s = (upd_q s (Some c) q, [Wrote (crlf (ctext (cl c)))], true).
Proof. exact maybe_issue_head. Qed.
Print Assumptions C01_next_command_is_queue_head.

(* session level, unbounded: any number of plain commands submitted up front, then any number
   (not more) of well-formed replies in any wire form: the trace is exactly one write, then for
   each reply in order: the resolution of the oldest unanswered command with that reply's outcome,
   followed by the write of the next command (answers: see Proofs/CtlFifo.v) *)
Theorem C01_fifo_batch : forall lbehs c1 cs items,
  forallb plain (c1 :: cs) = true -> forallb is_reply items = true -> (length items <= S (length cs))%nat ->
  concat (run lbehs init (map OSubmit (c1 :: cs) ++ map (fun i => ORecv (render i)) items))
  = Wrote (crlf (ctext (cl c1))) :: answers c1 cs items.
Proof. exact fifo_batch. Qed.
Print Assumptions C01_fifo_batch.

(* L3 refinement (shared by C01, C02, C03): on EVERY history -- any interleaving of submissions
   (plain, per-line-callback, with callbacks that submit / add / remove listeners), listener changes,
   disconnect-notification requests, a connection loss, and chunks that each carry one whole
   well-formed item (reply or event, any wire form) -- that the reference machine of
   Spec/CtlOracle.v does not flag (causal, nothing after the loss, listeners removed only while
   registered) and on which no exception escapes the model, the model's per-operation trace IS the
   reference trace.  The reference machine is the oracle the check evaluates, so on these
   histories the oracle accepts the model by construction.  Arbitrary chunkings reduce to this by
   C01_protocol_segmentation_independent / the framing theorems. *)
Theorem C01_model_is_reference : forall lbehs items ops tr,
  aligned items ops -> a_good lbehs (a_init items) ops ->
  run_ok lbehs init ops = Some tr ->
  run lbehs init ops = fst (a_run lbehs (a_init items) ops).
Proof. exact model_is_reference. Qed.
Print Assumptions C01_model_is_reference.

(* the hypotheses of the refinement theorem are met by a non-trivial history: a command whose
   callback submits another, a listener added while it is in flight, a data-block reply, a
   multi-line event, a plain OK, an error reply *)
Example C01_refinement_nonvacuous :
  let c1 := {| cl := {| cid := 1%N; ctext := map ch [65]; ccb := false |};
               cscript := [SSubmit {| cid := 3%N; ctext := map ch [67]; ccb := true |}] |} in
  let r1 := {| icode := 250%N; iparts := [Data (map ch [107; 61]) [map ch [46; 120]; map ch [50; 53; 48; 32; 79; 75]]];
               ifinal := map ch [79; 75] |} in
  let ev := {| icode := 650%N; iparts := [Mid (map ch [67; 73; 82; 67; 32; 49])]; ifinal := map ch [79; 75] |} in
  let ok := {| icode := 250%N; iparts := []; ifinal := map ch [79; 75] |} in
  let r3 := {| icode := 552%N; iparts := []; ifinal := map ch [110; 111] |} in
  let items := [r1; ev; ok; r3] in
  let ops := [OSubmit c1; OAdd (map ch [67; 73; 82; 67]) 1%N 10%N; ORecv (render r1); ORecv (render ev);
              ORecv (render ok); OWhenDisc 7%N; ORecv (render r3); OLose] in
  aligned items ops /\ a_good [] (a_init items) ops /\
  exists tr, run_ok [] init ops = Some tr /\ List.length (List.concat tr) = 8%nat.
Proof. vm_compute. repeat split; try reflexivity. eexists. split; reflexivity. Qed.

(* non-vacuity: a two-command session with a data block whose lines look like status lines *)
Example C01_nonvacuous :
  let c n := {| cl := {| cid := n; ctext := map ch [88]; ccb := false |}; cscript := [] |} in
  let i := {| icode := 250%N; iparts := [Data (map ch [107; 61]) [map ch [50; 53; 48; 32; 79; 75]; map ch [46]]];
              ifinal := map ch [79; 75] |} in
  concat (run [] init [OSubmit (c 1%N); OSubmit (c 2%N); ORecv (render i)])
  = [Wrote (map ch [88; 13; 10]);
     Resolved 1%N (ROk (map ch [107; 61; 10; 50; 53; 48; 32; 79; 75; 10; 46]));
     Wrote (map ch [88; 13; 10])].
Proof. vm_compute. reflexivity. Qed.
