(* C13 -- GETINFO/GETCONF results map each key to exactly the value Tor sent.
   Only statements; each closed by `exact <lemma of Proofs/C13Proofs.v>`.
   Model: Model/Keywords.v (parse_keywords, unquote, get_info, get_info_single, get_conf_single) on
   top of the reply text proved in C01.  Full statement:
     forall r, wf_request r = true -> oracle r (model_obs r) = true
   It is FALSE of the faithful model on three input classes (open findings C13-F1/F2/F3, see the
   _refuted theorems); the _partial theorems carry exactly the complements of those classes as
   hypotheses (no quote-wrapped value; no OK-looking data line and no data line of the form
   `<requested key>=...`). *)
From Coq Require Import List Bool Ascii Arith NArith.
From TxVerif Require Import Lib.Bytes Spec.Ctl Spec.C13 Model.CtlProto Model.Keywords Proofs.C13Lemmas Proofs.C13Proofs.
Import ListNotations.

(* any number of distinct keys, arbitrary single-line values (incl. '=' and spaces) *)
Theorem C13_getinfo_roundtrip_partial : forall skvs : list (bytes * bytes),
  skvs <> [] ->
  forallb (fun kv => wf_key (fst kv) && wf_text (snd kv) && negb (quote_wrapped (snd kv))) skvs = true ->
  distinct (map fst skvs) = true ->
  model_obs (RGetInfo (singles skvs)) = OResult (expected (RGetInfo (singles skvs))).
Proof. exact getinfo_singles_roundtrip. Qed.
Print Assumptions C13_getinfo_roundtrip_partial.

(* one key, data-block value: every line intact and in order (dot lines, status-looking lines,
   key=value-looking lines of other keys, empty lines) *)
Theorem C13_multiline_intact_partial : forall k (ls : list bytes),
  wf_key k = true -> forallb wf_text ls = true -> forallb (plain_line k) ls = true ->
  model_obs (RGetInfo [(k, IMulti ls)]) = OResult (expected (RGetInfo [(k, IMulti ls)])).
Proof. exact getinfo_multiline_intact. Qed.
Print Assumptions C13_multiline_intact_partial.

(* GETCONF of one option: unset is reported as DEFAULT ... *)
Theorem C13_getconf_unset : forall key, wf_key key = true ->
  model_obs (RGetConf key None) = OResult (expected (RGetConf key None)).
Proof. exact getconf_unset. Qed.
Print Assumptions C13_getconf_unset.

(* ... set to the empty string as "", one value as that value, several values as the list in Tor's order *)
Theorem C13_getconf_values_partial : forall key (vs : list bytes), wf_key key = true -> vs <> [] ->
  forallb (fun v => wf_text v && negb (quote_wrapped v)) vs = true ->
  model_obs (RGetConf key (Some vs)) = OResult (expected (RGetConf key (Some vs))).
Proof. exact getconf_values. Qed.
Print Assumptions C13_getconf_values_partial.

Theorem C13_quote_wrapped_refuted : exists r, wf_request r = true /\ oracle r (model_obs r) = false.
Proof. exact quote_wrapped_refuted. Qed.
Print Assumptions C13_quote_wrapped_refuted.
Theorem C13_data_line_ok_refuted : exists r, wf_request r = true /\ oracle r (model_obs r) = false.
Proof. exact data_line_ok_refuted. Qed.
Print Assumptions C13_data_line_ok_refuted.
Theorem C13_data_line_own_key_refuted : exists r, wf_request r = true /\ oracle r (model_obs r) = false.
Proof. exact data_line_own_key_refuted. Qed.
Print Assumptions C13_data_line_own_key_refuted.

Example C13_nonvacuous :
  let k := map ch [107] in let k2 := map ch [118] in
  wf_key k = true /\
  forallb (fun kv => wf_key (fst kv) && wf_text (snd kv) && negb (quote_wrapped (snd kv)))
          [(k, map ch [97; 32; 98; 61; 99]); (k2, map ch [61; 61])] = true /\
  forallb (plain_line k) [map ch [46]; map ch [120; 61; 121]; map ch [50; 53; 48; 32; 79; 75]] = true /\
  expected (RGetConf k (Some [[]])) <> expected (RGetConf k None).
Proof. repeat split; try (vm_compute; reflexivity). vm_compute. discriminate. Qed.
