(* C04 -- authentication order, method preference, SAFECOOKIE proof discipline, ready exactly once.
   Only statements; each closed by `exact <lemma of Proofs/C04*.v>`.

   Full statement (`oracle` of Spec/C04Oracle.v is its executable form), PROVED below as
   C04_oracle_holds for ALL hmac functions, method lists, file systems, cookie paths (all 256 byte
   values), providers, nonces and stimulus sequences the model accepts:
     forall hmac e, List.length (e_nonce e) = 32 -> cmp_injective hmac e ->
       forall ops tr, run hmac e ops = Some tr -> oracle hmac e ops tr = true
   (`wf e` is the nonce length; `cmp_injective` is the only cryptographic hypothesis:
   compare_via_hash has no collision).  Finding C04-F1 (a cookie path with a byte >= 128 was
   mangled) was repaired in /repo by a1fd963; its former witness now satisfies the oracle
   (C04_former_witness_ok) and the unescape round-trip holds for every path. *)
From Coq Require Import String List Bool Ascii Arith NArith.
From TxVerif Require Import Lib.Bytes Lib.Hex Spec.C04 Spec.C04Oracle Gen.AuthConsts Model.Auth
  Proofs.C04Unescape Proofs.C04Auth Proofs.C04Sim Proofs.C04Sim4 Proofs.C04Proofs
  Proofs.C04Clauses Proofs.C04Clauses2 Proofs.C04Clauses3 Proofs.C04Clauses4 Proofs.C04Clauses5
  Proofs.C04Refuted.
Import ListNotations.
Open Scope N_scope.

(* the Spec oracle (clauses A-E) accepts every trace of the model *)
Theorem C04_oracle_holds : forall hmac e, wf e -> cmp_injective hmac e ->
  forall ops tr, run hmac e ops = Some tr -> oracle hmac e ops tr = true.
Proof. exact oracle_holds. Qed.
Print Assumptions C04_oracle_holds.

(* first usable of SAFECOOKIE, COOKIE, password, NULL, for every method list *)
Theorem C04_preference : forall e, wf e -> pi_auth (e_pi e) = true ->
  exists r, do_authenticate e = Some r /\
  match expected e with
  | Some MSafe => exists c, good_cookie e = Some c /\ r = (PhChal c, [chal_line e])
  | Some MCookie => exists c, good_cookie e = Some c /\ r = (PhAuth, [auth_line c])
  | Some MPassword => r = fail 1 0 /\ cookie_advertised e = true \/ r = pw_action e
  | Some MNull => r = fail 1 0 /\ cookie_advertised e = true
                  \/ r = (PhAuth, [line (bs "AUTHENTICATE")])
  | None => r = fail 1 0
  end.
Proof. exact preference. Qed.
Print Assumptions C04_preference.

Theorem C04_password_only_without_cookie : forall e r, wf e -> do_authenticate e = Some r ->
  In EPwCall (snd r) -> good_cookie e = None /\ expected e = Some MPassword.
Proof. exact password_only_without_cookie. Qed.
Print Assumptions C04_password_only_without_cookie.

Theorem C04_cookie_is_32 : forall e r, wf e -> do_authenticate e = Some r ->
  (forall c, fst r = PhChal c -> nlen c = 32) /\
  (forall c, good_cookie e = Some c -> In (auth_line c) (snd r) -> nlen c = 32) /\
  (fst r = PhAuth -> expected e = Some MCookie ->
   exists c, nlen c = 32 /\ snd r = [auth_line c] /\ good_cookie e = Some c).
Proof. exact cookie_is_32. Qed.
Print Assumptions C04_cookie_is_32.

(* whatever answers the AUTHCHALLENGE: something is written only if the reply is a challenge
   reply whose hash passed the comparison, and then it is exactly the client proof *)
Theorem C04_safecookie_proof_after_check : forall hmac e ck o s' evs, wf e ->
  Auth.step hmac e {| ph := PhChal ck; lost := false |} o = Some (s', evs) ->
  forall b, In (EWrote b) evs ->
  exists ch ht nt sh sn,
    o = OOk (DChal ch) /\ ch_hash ch = Some ht /\ ch_nonce ch = Some nt /\
    b16decode ht = Some sh /\ b16decode nt = Some sn /\
    let msg := ck ++ e_nonce e ++ sn in
    hmac (e_cmpkey e) (hmac SERVER_KEY msg) = hmac (e_cmpkey e) sh /\
    evs = [proof_line (hmac CLIENT_KEY msg)].
Proof. exact proof_after_check. Qed.
Print Assumptions C04_safecookie_proof_after_check.

(* whole histories under SAFECOOKIE: every AUTHENTICATE argument ever written is a client proof *)
Theorem C04_safecookie_only_proof : forall hmac e ck,
  wf e -> expected e = Some MSafe -> good_cookie e = Some ck ->
  forall ops tr, run hmac e ops = Some tr -> Forall (safe_writes hmac e ck) tr.
Proof. exact safecookie_only_proof. Qed.
Print Assumptions C04_safecookie_only_proof.

(* every state: before acceptance (and except the accepting step itself) a step writes nothing
   but PROTOCOLINFO / AUTHCHALLENGE / AUTHENTICATE (the application submits nothing: stated) *)
Theorem C04_only_auth_commands_before_accept : forall hmac e s o s' evs,
  Auth.step hmac e s o = Some (s', evs) ->
  match ph s with PhBoot _ => False | _ => True end ->
  ~ (ph s = PhAuth /\ exists d, o = OOk d) ->
  writes_auth evs.
Proof. exact pre_accept_only_auth. Qed.
Print Assumptions C04_only_auth_commands_before_accept.

(* at most once in every history; exactly once in every history that ends with nothing in
   flight and no password awaited (= the maximal histories) *)
Theorem C04_ready_exactly_once : forall hmac e ops tr, run hmac e ops = Some tr ->
  (n_ready (all_events tr) <= 1)%nat /\
  (n_ready (all_events tr) = 1%nat <->
   ph (end_state hmac e {| ph := PhProto; lost := false |} ops) = PhIdle).
Proof. exact ready_once. Qed.
Print Assumptions C04_ready_exactly_once.

(* success is notified only by the 250 that answers the last of the four bootstrap commands *)
Theorem C04_ready_ok_only_after_bootstrap : forall hmac e s o s' evs,
  Auth.step hmac e s o = Some (s', evs) -> In (EReady ROk) evs ->
  ph s = PhBoot 3 /\ exists d, o = OOk d.
Proof. exact ready_ok_only_after_bootstrap. Qed.
Print Assumptions C04_ready_ok_only_after_bootstrap.

(* unescape_quoted_string followed by the latin-1 re-encoding gives back the original BYTES of
   every path Tor can escape (all 256 byte values) *)
Theorem C04_unescape_roundtrip : forall p, unescape (esc_for_log p) = Some p.
Proof. exact unescape_roundtrip. Qed.
Print Assumptions C04_unescape_roundtrip.

(* the former witness of finding C04-F1: a 32-byte cookie at /tmp/caf\xc3\xa9, METHODS=COOKIE *)
Theorem C04_former_witness_ok : exists tr,
  high_path_valid_cookie w_env = true /\
  run (tab_hmac []) w_env [OOk DProto] = Some tr /\ oracle (tab_hmac []) w_env [OOk DProto] tr = true /\
  In (auth_line (rep 32 99)) (List.concat tr).
Proof. exact former_witness_ok. Qed.
Print Assumptions C04_former_witness_ok.

(* the hypotheses are satisfiable by a non-trivial case: SAFECOOKIE over a quoted path, a correct
   server hash, signal/names refused with 552, ready = success, then the connection is lost *)
Example C04_nonvacuous :
  wf x_env /\ cmp_injective toy x_env /\
  exists tr, run toy x_env x_ops = Some tr /\ oracle toy x_env x_ops tr = true /\
             In (EWrote (bs "AUTHENTICATE " ++ hex_upper (toy CLIENT_KEY x_msg) ++ [CR; LF])) (List.concat tr) /\
             In (EReady ROk) (List.concat tr).
Proof. exact nonvacuous. Qed.
