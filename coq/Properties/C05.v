(* C05 -- SOCKS5: no data before success; afterwards every byte relayed; one outcome.
   Only statements; each closed by `exact <lemma of Proofs/C05Proofs.v>`.

   Full statement (kept visible; the Spec oracle of Spec/C05.v is its executable form):
     forall cfg chunks lost, <target encodable> ->
       oracle (c_ty cfg) chunks lost (run cfg chunks lost) = true
   It is FALSE of the faithful model on the input class of open finding C05-F1 (CONNECT answered
   by a success reply with a domain-name bound address), see C05_connect_domain_refuted.
   Proved below for ALL states / inputs / segmentations / loss points: the outcome is reported at
   most once; the application is created at most once and receives data or a loss notice only
   after it was created (so never before a success reply, the only transition that creates it);
   the error of every reply code 0..255 is the class RFC 1928 names.  The "prompt relay" clause
   is decided by the oracle on the correspondence run and by the theorems of C05Chunk (below,
   when present). *)
From Coq Require Import String List Bool Ascii Arith NArith.
From TxVerif Require Import Lib.Bytes Spec.Rfc1928 Spec.C06 Spec.C05 Model.SocksTypes Model.Socks Proofs.C05Proofs Proofs.C05Relay.
Import ListNotations.

Theorem C05_done_at_most_once : forall cfg chunks lost,
  (n_done (List.concat (run cfg chunks lost)) <= 1)%nat.
Proof. exact run_done_at_most_once. Qed.
Print Assumptions C05_done_at_most_once.

Theorem C05_no_app_event_before_creation : forall cfg chunks lost,
  app_ok false (List.concat (run cfg chunks lost)) = true.
Proof. exact run_app_ok. Qed.
Print Assumptions C05_no_app_event_before_creation.

(* finite domain: all 256 reply codes (bound stated), lifted from a vm_compute sweep *)
Theorem C05_error_mapping : forall c, (c < 256)%N ->
  socks_error c = RErr (error_class c) (Some c).
Proof. exact error_mapping. Qed.
Print Assumptions C05_error_mapping.

(* prompt relay: once relaying, every chunk -- whatever its size -- is handed to the application
   whole, in the same operation, and the machine stays ready for the next one *)
Theorem C05_relaying_is_prompt : forall cfg b bs,
  op_recv cfg relaying_state (b :: bs) = (relaying_state, [EAppData (b :: bs)], true).
Proof. exact relaying_relays_chunk. Qed.
Print Assumptions C05_relaying_is_prompt.

(* nothing withheld: a success reply sharing its segment with ANY payload creates the application,
   reports success and hands over exactly that payload in the same operation *)
Theorem C05_success_reply_with_payload : forall cfg rsv a1 a2 a3 a4 p1 p2 payload,
  c_ty cfg = RConnect ->
  op_recv cfg awaiting_reply (ch 5 :: ch 0 :: rsv :: ch 1 :: a1 :: a2 :: a3 :: a4 :: p1 :: p2 :: payload) =
  (relaying_state,
   [EAppCreated true; EDone RProto] ++ match payload with [] => [] | _ => [EAppData payload] end, true).
Proof. exact success_reply_with_payload. Qed.
Print Assumptions C05_success_reply_with_payload.

(* the step invariant itself, for every fuel, state, input and argument *)
Theorem C05_step_invariant : forall cfg fuel s i a, wfst s -> good' s (fire cfg fuel s i a).
Proof. exact fire_good. Qed.
Print Assumptions C05_step_invariant.

Example C05_nonvacuous :
  let cfg := {| c_ty := RConnect; c_target := {| t_text := map ch [97]; t_cls := CHost |}; c_port := 80%N |} in
  List.concat (run cfg [map ch [5; 0]; map ch [5; 0; 0; 1; 1; 2; 3; 4; 0; 80; 72; 73]] true)
  = [EWrote (map ch [5; 1; 0]); EWrote (map ch [5; 1; 0; 3; 1; 97; 0; 80]);
     EAppCreated true; EDone RProto; EAppData (map ch [72; 73]); ELoseConn; EAppLost].
Proof. vm_compute. reflexivity. Qed.
