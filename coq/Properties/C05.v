(* C05 -- SOCKS5: no data before success; afterwards every byte relayed; one outcome.
   Only statements; each closed by `exact <lemma of Proofs/C05*.v>`.
   Full statement (the Spec oracle of Spec/C05.v is its executable form), PROVED as C05_oracle_holds:
     forall cfg chunks lost, <target encodable> ->
       oracle (c_ty cfg) (fed cfg chunks) (lost && negb (raised cfg chunks)) (run cfg chunks lost) = true
   where fed/raised say which chunks the connection delivered before an operation raised (Twisted
   drops the connection then; nothing is delivered afterwards).  Every stream, every segmentation,
   every loss point.  The proof is a simulation between the machine and the oracle's own state
   (Proofs/C05Sim.v) and rests on C05_decision_is_rfc: what _parse_request_reply decides on any
   buffer is what RFC 1928 says the bytes mean (Spec.status_of).
   History: the statement used to be false of the faithful model on two input classes, both found
   by this development and repaired in /repo: C05-F1 (CONNECT answered by a success reply with a
   domain-name bound address; witness kept as C05_connect_domain_now_accepted) and C05-F2 (a reply
   with an empty domain name, complete at 7 bytes, was not looked at before an 8th byte arrived;
   the proof of C05_decision_is_rfc forced the hypothesis that exposed it).
   Also proved for ALL states / inputs / segmentations / loss points: the outcome is reported at
   most once; the application is created at most once and receives data or a loss notice only
   after it was created; the error of every reply code 0..255 is the class RFC 1928 names. *)
From Coq Require Import String List Bool Ascii Arith NArith.
From TxVerif Require Import Lib.Bytes Spec.Rfc1928 Spec.C06 Spec.C05 Model.SocksTypes Model.SocksEnc Model.Socks Proofs.C05Proofs Proofs.C05Relay
  Proofs.C05Status Proofs.C05Parse Proofs.C05Dec Proofs.C05Mono Proofs.C05Sim.
Import ListNotations.

Theorem C05_done_at_most_once : forall cfg chunks lost,
  (n_done (List.concat (run cfg chunks lost)) <= 1)%nat.
Proof. exact run_done_at_most_once. Qed.
Print Assumptions C05_done_at_most_once.

Theorem C05_no_app_event_before_creation : forall cfg chunks lost,
  app_ok false (List.concat (run cfg chunks lost)) = true.
Proof. exact run_app_ok. Qed.
Print Assumptions C05_no_app_event_before_creation.

(* finite domain: all 256 reply codes (bound stated), lifted from a vm_compute sweep *)
Theorem C05_error_mapping : forall c, (c < 256)%N ->
  socks_error c = RErr (error_class c) (Some c).
Proof. exact error_mapping. Qed.
Print Assumptions C05_error_mapping.

(* prompt relay: once relaying, every chunk -- whatever its size -- is handed to the application
   whole, in the same operation, and the machine stays ready for the next one *)
Theorem C05_relaying_is_prompt : forall cfg b bs,
  op_recv cfg relaying_state (b :: bs) = (relaying_state, [EAppData (b :: bs)], true).
Proof. exact relaying_relays_chunk. Qed.
Print Assumptions C05_relaying_is_prompt.

(* nothing withheld: a success reply sharing its segment with ANY payload creates the application,
   reports success and hands over exactly that payload in the same operation *)
Theorem C05_success_reply_with_payload : forall cfg rsv a1 a2 a3 a4 p1 p2 payload,
  c_ty cfg = RConnect ->
  op_recv cfg awaiting_reply (ch 5 :: ch 0 :: rsv :: ch 1 :: a1 :: a2 :: a3 :: a4 :: p1 :: p2 :: payload) =
  (relaying_state,
   [EAppCreated true; EDone RProto] ++ match payload with [] => [] | _ => [EAppData payload] end, true).
Proof. exact success_reply_with_payload. Qed.
Print Assumptions C05_success_reply_with_payload.

(* the step invariant itself, for every fuel, state, input and argument *)
Theorem C05_step_invariant : forall cfg fuel s i a, wfst s -> good' s (fire cfg fuel s i a).
Proof. exact fire_good. Qed.
Print Assumptions C05_step_invariant.

(* the whole oracle: every stream, every segmentation, every loss point *)
Theorem C05_oracle_holds : forall cfg req, encode (c_ty cfg) (c_target cfg) (c_port cfg) = Some req ->
  forall chunks lost,
  oracle (c_ty cfg) (fed cfg chunks) (lost && negb (raised cfg chunks)) (run cfg chunks lost) = true.
Proof. exact oracle_run. Qed.
Print Assumptions C05_oracle_holds.

Theorem C05_oracle_holds_no_raise : forall cfg req chunks lost,
  encode (c_ty cfg) (c_target cfg) (c_port cfg) = Some req ->
  raised cfg chunks = false ->
  oracle (c_ty cfg) chunks lost (run cfg chunks lost) = true.
Proof. exact oracle_run_no_raise. Qed.
Print Assumptions C05_oracle_holds_no_raise.

(* regression anchor: the former witness of C05-F1 *)
Theorem C05_connect_domain_now_accepted :
  let c := {| c_ty := RConnect; c_target := {| t_text := map ch [97]; t_cls := CHost |}; c_port := 80%N |} in
  let chunks := [map ch [5; 0]; map ch [5; 0; 0; 3; 1; 97; 0; 80; 72; 73]] in
  stream_has_domain_success chunks = true /\ raised c chunks = false /\
  List.concat (run c chunks false) =
    [EWrote (map ch [5; 1; 0]); EWrote (map ch [5; 1; 0; 3; 1; 97; 0; 80]);
     EAppCreated true; EDone RProto; EAppData (map ch [72; 73])] /\
  oracle RConnect chunks false (run c chunks false) = true.
Proof. exact connect_domain_now_accepted. Qed.
Print Assumptions C05_connect_domain_now_accepted.

(* the reply parser against RFC 1928, for every request type and every buffer *)
Theorem C05_decision_is_rfc : forall ty d,
  match parse_dec ty d with
  | PWait => reply_status ty d = SPending \/ exists r, reply_status ty d = SFailing r
  | PErr r => reply_status ty d = SFailed r \/ reply_status ty d = SFailing r
  | PConn rest => reply_status ty d = SConnected rest
  | PName r rest => ty <> RConnect -> reply_status ty d = SResolved r
  end.
Proof. exact dec_status. Qed.
Print Assumptions C05_decision_is_rfc.

Theorem C05_parser_is_decision : forall cfg n d,
  fire cfg (S (S (S n))) {| st := sent_request; buf := d; has_sender := false; fired := false |} got_data ANone
  = after_parse cfg d.
Proof. exact got_data_sent_request. Qed.
Print Assumptions C05_parser_is_decision.

(* once relaying, the meaning of the stream only grows by the bytes appended *)
Theorem C05_connected_is_stable : forall ty d r x,
  reply_status ty d = SConnected r -> reply_status ty (d ++ x) = SConnected (r ++ x).
Proof. exact reply_status_conn_app. Qed.
Print Assumptions C05_connected_is_stable.

Example C05_nonvacuous :
  let cfg := {| c_ty := RConnect; c_target := {| t_text := map ch [97]; t_cls := CHost |}; c_port := 80%N |} in
  List.concat (run cfg [map ch [5; 0]; map ch [5; 0; 0; 1; 1; 2; 3; 4; 0; 80; 72; 73]] true)
  = [EWrote (map ch [5; 1; 0]); EWrote (map ch [5; 1; 0; 3; 1; 97; 0; 80]);
     EAppCreated true; EDone RProto; EAppData (map ch [72; 73]); ELoseConn; EAppLost].
Proof. vm_compute. reflexivity. Qed.
