(* C02 -- 650 events reach exactly their listeners, in order, and never touch replies.
   Only statements; each closed by `exact <lemma>`.  Model: Model/CtlProto.v.
   Full statement = the Spec oracle j_c02 of Spec/CtlOracle.v.  Proved for ALL inputs:
   - every well-formed 650 item (single-line, multi-line, data-block), whatever command is queued
     or in flight -- with or without a per-line callback -- is handed as a whole, with its exact
     text, to _handle_notify and to nothing else (C02_event_is_routed_to_notify);
   - delivery: every listener registered for the name when the event completes is called exactly
     once, in registration order, whatever listeners do (raise, unsubscribe themselves or others)
     (C02_delivery_exact_and_isolated);
   - nobody else / non-interference: for listeners that do not unsubscribe anybody, and for names
     nobody listens to, the protocol state after the event is EXACTLY the state before it (same
     in-flight command, queue, accumulator, FSM state): no reply can be changed, delayed or
     absorbed (C02_event_non_interference, C02_unsubscribed_event_invisible). *)
From Coq Require Import List Bool Ascii Arith NArith.
From TxVerif Require Import Lib.Bytes Spec.Ctl Model.CtlTypes Model.CtlProto
  Proofs.CtlParse Proofs.CtlItem Proofs.CtlInv Proofs.CtlEvents.
From TxVerif Require Import Spec.CtlOracle Proofs.CtlRefine Proofs.CtlRefine3.
Import ListNotations.

Theorem C02_event_is_routed_to_notify : forall lbehs s i,
  at_rest s -> wf_item i = true -> is_6xx (icode i) = true -> item_fits i = true ->
  lines_received lbehs s (render_lines i) =
  finish_event lbehs (upd_fsm s (item_fsm i) (Some (icode i)) []) (item_text i).
Proof. exact event_item. Qed.
Print Assumptions C02_event_is_routed_to_notify.

Theorem C02_delivery_exact_and_isolated : forall lbehs s lids payload,
  filter is_evcb (snd (got_update lbehs s lids payload)) = map (fun l => EventCb l payload) lids.
Proof. exact got_update_delivers_all. Qed.
Print Assumptions C02_delivery_exact_and_isolated.

Theorem C02_event_non_interference : forall lbehs s i lids,
  at_rest s -> wf_item i = true -> is_6xx (icode i) = true -> item_fits i = true ->
  event_name i <> [] -> find_ev (p_events s) (event_name i) = Some lids -> passive lbehs lids = true ->
  lines_received lbehs s (render_lines i) = (s, map (fun l => EventCb l (event_payload i)) lids, true).
Proof. exact event_non_interference. Qed.
Print Assumptions C02_event_non_interference.

Theorem C02_unsubscribed_event_invisible : forall lbehs s i,
  at_rest s -> wf_item i = true -> is_6xx (icode i) = true -> item_fits i = true ->
  event_name i <> [] -> find_ev (p_events s) (event_name i) = None ->
  lines_received lbehs s (render_lines i) = (s, [], true).
Proof. exact event_unsubscribed_is_invisible. Qed.
Print Assumptions C02_unsubscribed_event_invisible.

(* L3 refinement (shared by C01, C02, C03): on EVERY history -- any interleaving of submissions
   (plain, per-line-callback, with callbacks that submit / add / remove listeners), listener changes,
   disconnect-notification requests, a connection loss, and chunks that each carry one whole
   well-formed item (reply or event, any wire form) -- that the reference machine of
   Spec/CtlOracle.v does not flag (causal, nothing after the loss, listeners removed only while
   registered) and on which no exception escapes the model, the model's per-operation trace IS the
   reference trace.  The reference machine is the oracle the check evaluates, so on these
   histories the oracle accepts the model by construction.  Arbitrary chunkings reduce to this by
   C01_protocol_segmentation_independent / the framing theorems. *)
Theorem C02_model_is_reference : forall lbehs items ops tr,
  aligned items ops -> a_good lbehs (a_init items) ops ->
  run_ok lbehs init ops = Some tr ->
  run lbehs init ops = fst (a_run lbehs (a_init items) ops).
Proof. exact model_is_reference. Qed.
Print Assumptions C02_model_is_reference.

(* non-vacuity: a data-block event while a per-line-callback command is in flight, two listeners,
   the first one raises: both are called, the command's callback sees nothing of the event *)
Example C02_nonvacuous :
  let c := {| cl := {| cid := 1%N; ctext := map ch [71; 69; 84; 73; 78; 70; 79; 32; 120]; ccb := true |}; cscript := [] |} in
  let ev := {| icode := 650%N; iparts := [Data (map ch [78; 83]) [map ch [114; 32; 97]]]; ifinal := map ch [79; 75] |} in
  concat (run [(1%N, LRaises)] init
              [OAdd (map ch [78; 83]) 1%N 10%N; OAdd (map ch [78; 83]) 2%N 11%N; OSubmit c;
               ORecv (render {| icode := 250%N; iparts := []; ifinal := map ch [79; 75] |}); ORecv (render ev)])
  = [Wrote (map ch [83; 69; 84; 69; 86; 69; 78; 84; 83; 32; 78; 83; 13; 10]);
     Resolved 10%N (ROk (map ch [79; 75]));
     Wrote (map ch [71; 69; 84; 73; 78; 70; 79; 32; 120; 13; 10]);
     EventCb 1%N (map ch [114; 32; 97; 10; 79; 75]); EventCb 2%N (map ch [114; 32; 97; 10; 79; 75])].
Proof. vm_compute. reflexivity. Qed.
