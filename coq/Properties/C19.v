(* C19 -- launch fires at most once; success only after full bootstrap; tempdir removed.
   Only statements; each closed by `exact <lemma of Proofs/C19Proofs.v>`.

   C19_oracle is the full-strength statement: for EVERY configuration (timeout or not, caller data
   directory or not, kill_on_stderr or not, any number of round trips for attaching the TorConfig) and
   EVERY physically possible history of stimuli (wf: the process ends at most once and is silent
   afterwards; waiter numbers distinct) -- stdout chunks cut anywhere, stderr, connection attempts
   succeeding / failing, authentication outcomes, commands acknowledged / rejected, the round trips of
   the config attach (the last stage of _tor_connected, or done by launch() itself) answered / rejected,
   progress events, the timeout, the exit, when_connected() calls (passive ones, and ones whose
   callback calls when_connected() again from inside the delivery), reactor shutdown, in any order and
   any number -- the trace of the model satisfies the oracle of Spec/C19.v:
     * no waiter (the launch() result included) fires twice;
     * at the first of {100% on a connection that is authenticated and on which TAKEOWNERSHIP was sent,
       the launch timeout, the process's end} every waiter fires, with success in the first case and
       failure in the other two; a request made by a callback during the delivery gets that same
       outcome in the same step; later callers get it at once; nothing fires otherwise;
       the one exception: on success the launch() result may be held back while a config attach is in
       flight, and is then delivered by the answer that ends that attach (success if it was accepted,
       failure if it was rejected);
     * TERM is sent when the timeout elapses undecided, and no signal is ever sent otherwise;
     * the first connection attempt happens exactly when the stdout seen so far contains the
       listener line, however it was cut;
     * a directory made by launch() exists until the process has ended (or the reactor shuts down)
       and not afterwards; a caller's directory always exists.
   No finding is open for C19 on the current tree (D19a, D19b were repaired).
   The other theorems restate single clauses directly on the model's trace. *)
From Coq Require Import List Bool Ascii Arith NArith.
From TxVerif Require Import Lib.Bytes Spec.C19 Model.Launch Proofs.C19Sound Proofs.C19Proofs.
Import ListNotations.

Theorem C19_oracle : forall cf h, wf h = true -> oracle cf h (run cf h) = true.
Proof. exact model_satisfies_oracle. Qed.
Print Assumptions C19_oracle.

Theorem C19_fires_at_most_once : forall cf h, wf h = true ->
  NoDup (map fst (fires (concat (run cf h)))).
Proof. exact fires_at_most_once. Qed.
Print Assumptions C19_fires_at_most_once.

(* "it succeeds only after Tor reported 100% bootstrap over the authenticated control connection, on
   which ownership of the process is also requested", and only if the process had not ended before:
   witness h tr' = the history splits as h1 ++ OProgress c 100 :: h2 with OBoot c true in h1,
   ESent c TAKEOWNERSHIP in the trace of h1, no OExit in h1 and no success in the trace of h1
   (ok_fired es = some waiter fires ROk in es; both defined in Proofs/C19Sound.v) *)
Theorem C19_success_needs_full_bootstrap : forall cf h, wf h = true ->
  ok_fired (concat (run cf h)) -> exists es0 tr', run cf h = es0 :: tr' /\ witness h tr'.
Proof. exact model_success_needs_full_bootstrap. Qed.
Print Assumptions C19_success_needs_full_bootstrap.

Theorem C19_user_dir_never_removed : forall cf h b,
  c_userdir cf = true -> In (EDir b) (concat (run cf h)) -> b = true.
Proof. exact user_dir_kept. Qed.
Print Assumptions C19_user_dir_never_removed.

Theorem C19_temp_dir_removed_once_ended : forall cf h1 x h2 b,
  c_userdir cf = false ->
  In (EDir b) (concat (run_from cf (exec cf (m0 cf) h1) (OExit x :: h2))) -> b = false.
Proof. exact temp_dir_removed. Qed.
Print Assumptions C19_temp_dir_removed_once_ended.

Theorem C19_temp_dir_kept_while_running : forall cf h b,
  forallb no_end h = true -> In (EDir b) (concat (run cf h)) -> b = true.
Proof. exact temp_dir_kept. Qed.
Print Assumptions C19_temp_dir_kept_while_running.

(* non-trivial instance: the listener line in two pieces, success at 100% while TAKEOWNERSHIP is still
   unanswered (launch() attaches the config itself: two round trips, its result is held back and
   delivered by the second answer), a late caller, then the timeout (nothing happens) and the exit (the
   temporary directory goes) *)
Example C19_nonvacuous :
  let cf := {| c_timeout := true; c_userdir := false; c_killerr := true; c_attach := 2 |} in
  let h := [OOut (firstn 10 LISTENER); OOut (skipn 10 LISTENER); OConnOk; OBoot 0 true; OAck 0 true;
            OWhenR 1 3; OProgress 0 100; OWhenR 2 4; OAck 0 true; OAck 0 true; OAttach true; OAttach true;
            OTimeout; OExit (XCode 0)] in
  wf h = true /\
  run cf h = [[EDir true]; [EDir true]; [EConnecting; EDir true]; [EDir true];
              [ESent 0 w_SETEVENTS_SC; EDir true]; [ESent 0 w_TAKEOWNERSHIP; EDir true]; [EDir true];
              [EProgress 100; EAttach 0; EFired 1 ROk; EFired 3 ROk; EDir true];
              [EFired 2 ROk; EFired 4 ROk; EDir true];
              [ESent 0 w_RESETCONF; EDir true]; [EDir true]; [EDir true]; [EFired 0 ROk; EDir true];
              [EDir true]; [EDir false]].
Proof. vm_compute. auto. Qed.
