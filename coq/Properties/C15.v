(* C15 -- onion creation completes only on this service's confirmed descriptor upload.
   Only statements; each closed by `exact <lemma of Proofs/C15Proofs.v>`.

   Objects:  cfg/op/rec/oracle ... : Spec/C15.v (what the property demands, from the text);
             run : Model/DescUpload.v (what txtorcon does, defects included);
             run c ops = the record of the create() call followed by one record per op.

   FULL STATEMENT (kept visible; `oracle` is its executable form, see the header of Spec/C15.v):

       forall c ops, wf ops = true -> oracle c ops (run c ops) = true

   i.e. for every waiting mode, every ordering of UPLOAD/UPLOADED/FAILED events of the service and of
   other services over any number of directories, and the reply (or a rejection) before / between /
   after the events: create() fires exactly once, at the later of "the reply" and "the first moment the
   service's own uploads satisfy the success or the all-failed condition", with the outcome that
   condition gives; never in the op of another service's event; and from then on the HS_DESC listener
   is gone.

   It is FALSE of the faithful model (and of the code) on two input classes, each with a witness:
     C15_foreign_events_inert_refuted   (F1, D15a)  UPLOADED of another service for a shared directory
     C15_completion_point_refuted       (F2, D15d)  own events before the reply are ignored
   Repaired in /repo and now covered by the theorems (regression anchors on the old witnesses):
     C15_await_all_now_accepted         (was F3, fix e8b566b)  await-all compared set sizes
     C15_rejected_now_accepted          (was F4, fix 3df3186)  a rejected command left the listener
     C15_two_forms_now_accepted         (was F5, fix 1b606af)  one directory named "$FP" and "$FP~nick" counted as two
   What IS proved, for ALL histories of unbounded length and any number of directories:
     C15_once                                  at most one completion/failure, on every history whatsoever
     C15_unsubscribes_always                   subscription removed afterwards, on every history whatsoever
     C15_foreign_events_inert_partial          foreign events change nothing;   hypothesis = not F1
     C15_ok_only_after_own_upload_partial      Ok only after the reply and an own UPLOADED; hypothesis = not F1
     C15_model_meets_oracle_partial            the full statement; hypotheses = not F1, not F2 (directories as names)
     C15_model_meets_oracle_named_partial      the same for named histories; hypotheses = not F1, not F2
   (the last one contains the completion point: in a conformant history the single ODone sits exactly
   in the record where both `accepted` and the first decision hold, with an outcome allowed by it). *)
From Coq Require Import List Bool Arith NArith.
From TxVerif Require Import Lib.ListSet Spec.C15 Model.DescUpload Proofs.C15Proofs.
Import ListNotations.
Open Scope N_scope.

(* ---- exactly once: every configuration, every history (inside or outside any envelope) ---- *)
Theorem C15_once : forall c ops, (n_done (run c ops) <= 1)%nat.
Proof. exact run_done_at_most_once. Qed.
Print Assumptions C15_once.

(* ---- the full statement outside the two open finding classes ---- *)
Theorem C15_model_meets_oracle_partial : forall c ops,
  wf ops = true ->
  foreign_uploaded_shared_dir c ops = false ->
  own_event_before_reply c ops = false ->
  oracle c ops (run c ops) = true.
Proof. exact model_meets_oracle. Qed.
Print Assumptions C15_model_meets_oracle_partial.

(* ---- the same for histories as the implementation sees them: directories NAMED "$FP" or "$FP~nick"
        (control-spec HsDir = LongName / Fingerprint); the oracle judges the history of directories
        (Spec.C15.canon); the code keys by fingerprint (run_named, fix 1b606af) ---- *)
Theorem C15_model_meets_oracle_named_partial : forall c ops,
  wf ops = true ->
  foreign_uploaded_shared_dir c (canon ops) = false ->
  own_event_before_reply c (canon ops) = false ->
  oracle_named c ops (run_named c ops) = true.
Proof. exact model_meets_oracle_named. Qed.
Print Assumptions C15_model_meets_oracle_named_partial.

(* any renaming of directory NAMES that keeps each name's fingerprint (injective or not: the form may change
   from event to event) changes nothing *)
Theorem C15_names_irrelevant : forall g c ops,
  (forall d, dir_id (g d) = dir_id d) -> run_named c (map (ren_op g) ops) = run_named c ops.
Proof. exact names_irrelevant. Qed.
Print Assumptions C15_names_irrelevant.

(* and the directories themselves are interchangeable: an injective renaming of the keys changes nothing *)
Theorem C15_directories_interchangeable : forall (f : N -> N) c ops,
  (forall x y, In x (names_of ops) -> In y (names_of ops) -> f x = f y -> x = y) ->
  run c (map (ren_op f) ops) = run c ops.
Proof. exact run_injective_renaming. Qed.
Print Assumptions C15_directories_interchangeable.

Theorem C15_two_forms_now_accepted :
  let c := {| c_await := false; c_own := 1; c_early := false; c_shared := false; c_progress := true |} in
  let ops := [Reply; Ev KUpload 1 3; Ev KUploaded 1 2] in
  oracle_named c ops (run_named c ops) = true /\ n_dones_of (run_named c ops) = 1%nat.
Proof. exact two_forms_now_accepted. Qed.
Print Assumptions C15_two_forms_now_accepted.

(* ---- subscription removed after completion AND after failure, a rejected command included ---- *)
Theorem C15_unsubscribes_always : forall c ops, unsub_all c false (run c ops) = true.
Proof. exact run_unsubscribes. Qed.
Print Assumptions C15_unsubscribes_always.

(* ---- events of other services: deleting them deletes their (empty) records and nothing else ---- *)
Theorem C15_foreign_events_inert_partial : forall c ops,
  foreign_uploaded_shared_dir c ops = false ->
  run c (filter (keeps c) ops) = start_rec c :: own_part c ops (run_from c m0 ops)
  /\ foreign_silent c ops (run_from c m0 ops) = true.
Proof. exact run_foreign_inert. Qed.
Print Assumptions C15_foreign_events_inert_partial.

Theorem C15_foreign_events_inert_refuted :
  exists c ops, wf ops = true /\ oracle c ops (run c ops) = false.
Proof. exact foreign_uploaded_refuted. Qed.
Print Assumptions C15_foreign_events_inert_refuted.

(* ---- success only after the reply and after an UPLOADED carrying this service's address ---- *)
Theorem C15_ok_only_after_own_upload_partial : forall c ops,
  foreign_uploaded_shared_dir c ops = false -> ok_only_after c s0 ops (run_from c m0 ops) = true.
Proof. exact run_ok_only_after. Qed.
Print Assumptions C15_ok_only_after_own_upload_partial.

(* ---- witness of the other open finding (outside the class listed before it) ---- *)
Theorem C15_completion_point_refuted :
  exists c ops, wf ops = true /\ foreign_uploaded_shared_dir c ops = false /\ oracle c ops (run c ops) = false.
Proof. exact event_before_reply_refuted. Qed.
Print Assumptions C15_completion_point_refuted.

(* ---- regression anchors: the witnesses of the repaired findings are accepted now ---- *)
Theorem C15_await_all_now_accepted :
  let c := {| c_await := true; c_own := 1; c_early := false; c_shared := false; c_progress := true |} in
  let ops := [Reply; Ev KUpload 1 1; Ev KUpload 1 2; Ev KFailed 1 1; Ev KUpload 1 1; Ev KUploaded 1 1] in
  oracle c ops (run c ops) = true
  /\ n_dones_of (run c ops) = 0%nat
  /\ oracle c (ops ++ [Ev KFailed 1 2]) (run c (ops ++ [Ev KFailed 1 2])) = true
  /\ n_dones_of (run c (ops ++ [Ev KFailed 1 2])) = 1%nat.
Proof. exact await_all_retry_now_accepted. Qed.
Print Assumptions C15_await_all_now_accepted.

Theorem C15_rejected_now_accepted :
  let c := {| c_await := false; c_own := 1; c_early := false; c_shared := false; c_progress := true |} in
  oracle c [Reject] (run c [Reject]) = true
  /\ unsub_all c false (run c [Reject]) = true
  /\ map r_ncb (run c [Reject]) = [1; 0].
Proof. exact rejected_now_accepted. Qed.
Print Assumptions C15_rejected_now_accepted.

(* the hypotheses of the partial theorems are satisfiable by a non-trivial history: await-all, two
   directories, one upload fails, the other succeeds, a foreign event in between, reply first *)
Example C15_nonvacuous :
  let c := {| c_await := true; c_own := 1; c_early := false; c_shared := false; c_progress := true |} in
  let ops := [Reply; Ev KUpload 1 1; Ev KUpload 1 2; Ev KFailed 2 1; Ev KFailed 1 1; Ev KUploaded 1 2] in
  wf ops = true /\ foreign_uploaded_shared_dir c ops = false /\ own_event_before_reply c ops = false
  /\ map (fun r => dones (r_evs r)) (run c ops) = [[]; []; []; []; []; []; [ROk true]]
  /\ map r_ncb (run c ops) = [1; 1; 1; 1; 1; 1; 0].
Proof. vm_compute. repeat split; reflexivity. Qed.
