(* C20 -- the address map holds a name exactly until its latest mapping expires.
   Only statements; each closed by `exact <lemma of Proofs/C20Proofs.v>`.

   Full statement (kept visible; the oracle of Spec/C20.v is its executable form):
     forall h, in_scope h = true -> exists tr, run h = Some tr /\ oracle h tr = true
   (h: any sequence of ADDRMAP lines, clock advances, lookups and listener registrations.)
   (h: any sequence of ADDRMAP lines in every form the control-spec allows -- the all-positional
   `name addr "local" "utc"` form included, the UTC time being the one that counts --, clock advances,
   lookups and registrations of listeners, passive or ACTIVE: a listener may look keys up, feed the map
   a newer mapping for the same name, or raise, from inside addrmap_added / addrmap_expired.)
   It is FALSE of the faithful model -- and of the code -- on two input classes, each an open
   finding with a witness below (C20_*_refuted):
     C20-F2 key_collision  a string used both as a name and as an address: entries overwrite each other
     C20-F3 stale_lookup   a lookup (by the caller or from inside a callback) while a held mapping has
                           reached its expiry and its timer has not run yet
   (C20-F1, an <error> mapping for a name that is not held, was repaired in /repo by a1d3211, and
   C20-F4, a raising listener starved the listeners registered after it, by a2f579a; the model follows
   the repaired code and both classes are now covered by C20_oracle_partial; C20_raise_starves_now_accepted
   anchors the old witness of F4.)
   C20_oracle_partial proves the full statement for ALL histories outside these two classes (its
   two extra hypotheses are exactly the complements of the finding predicates of Spec/C20.v); this
   includes what the statement demands inside a callback: the expired mapping is already gone under
   every key, a mapping fed from inside the callback is an event like any other, every listener hears
   every transition exactly once.
   The remaining theorems state the clauses of the property one by one, for all histories, with
   only the hypotheses each clause needs.  `feedless h`: no listener of h feeds the map -- a listener that
   answers 'expired' with a newer mapping rightly makes the name findable again, so the two theorems
   about what is found right after one event carry it. *)
From Coq Require Import List Bool Ascii Arith NArith ZArith.
From TxVerif Require Import Lib.Bytes Spec.C20 Model.AddrMap Proofs.C20Proofs.
Import ListNotations.

Theorem C20_oracle_partial : forall h,
  in_scope h = true -> key_collision h = false -> stale_lookup h = false ->
  exists tr, run h = Some tr /\ oracle h tr = true.
Proof. exact model_satisfies_oracle. Qed.
Print Assumptions C20_oracle_partial.

Theorem C20_key_collision_refuted : exists h,
  in_scope h = true /\ stale_lookup h = false /\
  exists tr, run h = Some tr /\ oracle h tr = false.
Proof. exact collision_refuted_ex. Qed.
Print Assumptions C20_key_collision_refuted.

Theorem C20_stale_lookup_refuted : exists h,
  in_scope h = true /\ key_collision h = false /\
  exists tr, run h = Some tr /\ oracle h tr = false.
Proof. exact stale_refuted_ex. Qed.
Print Assumptions C20_stale_lookup_refuted.

(* the witness of the repaired finding C20-F4 (listener 1 raises inside addrmap_expired, listener 2
   follows): in scope, outside the two open classes, and the oracle accepts the model's trace, in which
   listener 2 hears the expiry *)
Theorem C20_raise_starves_now_accepted :
  in_scope wit_starve = true /\ key_collision wit_starve = false /\ stale_lookup wit_starve = false /\
  run wit_starve = Some [[]; []; [EAdded 1 (str n_a) (str ip1); EAdded 2 (str n_a) (str ip1)];
                         [EExpired 1 (str n_a); ESub ERaised; EExpired 2 (str n_a)]] /\
  match run wit_starve with Some tr => oracle wit_starve tr | None => false end = true.
Proof. exact starve_accepted. Qed.
Print Assumptions C20_raise_starves_now_accepted.

(* The map finds exactly the names the reference semantics HOLDS, with the latest address and
   expiry: full strength up to F2 (no F3 hypothesis). *)
Theorem C20_find_name_held_partial : forall h n m,
  in_scope h = true -> key_collision h = false -> In n (ev_names h) -> state_after h = Some m ->
  find m n = match s_map (spec_after h) n with
             | Some v => [EFound n (m_ip v) (exp_opt (m_exp v))]
             | None => [ENotFound]
             end.
Proof. exact find_name_held. Qed.
Print Assumptions C20_find_name_held_partial.

(* "looking up a name succeeds exactly when Tor's most recent mapping for it has not yet expired" *)
Theorem C20_lookup_iff_unexpired_partial : forall h n m,
  in_scope h = true -> key_collision h = false -> In n (ev_names h) -> state_after h = Some m ->
  due_in (s_now (spec_after h)) (s_map (spec_after h)) n = false ->
  find m n = match live (spec_after h) n with
             | Some v => [EFound n (m_ip v) (exp_opt (m_exp v))]
             | None => [ENotFound]
             end.
Proof. exact lookup_iff_unexpired. Qed.
Print Assumptions C20_lookup_iff_unexpired_partial.

(* the extra hypothesis of the previous theorem holds for every name once any time has passed
   (in_scope: a listener may not feed, from inside the callback, a mapping that is already expired) *)
Theorem C20_fresh_after_advance : forall h dt n, in_scope h = true ->
  due_in (s_now (spec_after (h ++ [OAdvance dt]))) (s_map (spec_after (h ++ [OAdvance dt]))) n = false.
Proof. exact after_advance_fresh. Qed.
Print Assumptions C20_fresh_after_advance.

(* "a later event for the same name replaces the address and moves expiry to the new time, earlier or
   later, however far in the future": whatever happened before, t is any Z *)
Theorem C20_expiry_moves_both_ways_partial : forall h ts n a t dt m,
  in_scope h = true -> key_collision (h ++ [OEv ts]) = false -> feedless h = true ->
  parse_ev ts = Some {| v_name := n; v_addr := Some a; v_exp := XAt t |} ->
  state_after (h ++ [OEv ts; OAdvance dt]) = Some m ->
  find m n = if (t <=? s_now (spec_after h) + Z.of_N dt)%Z then [ENotFound] else [EFound n a (Some t)].
Proof. exact expiry_moves. Qed.
Print Assumptions C20_expiry_moves_both_ways_partial.

(* "never-expiring mappings persist" *)
Theorem C20_never_persists_partial : forall h ts n a h2 m,
  in_scope (h ++ OEv ts :: h2) = true -> key_collision (h ++ OEv ts :: h2) = false ->
  parse_ev ts = Some {| v_name := n; v_addr := Some a; v_exp := XNever |} ->
  Forall (not_about n) h2 ->
  state_after (h ++ OEv ts :: h2) = Some m ->
  find m n = [EFound n a None].
Proof. exact never_persists. Qed.
Print Assumptions C20_never_persists_partial.

(* "error mappings are dropped at once" *)
Theorem C20_error_dropped_at_once_partial : forall h ts n x m,
  in_scope h = true -> key_collision (h ++ [OEv ts]) = false -> feedless h = true ->
  parse_ev ts = Some {| v_name := n; v_addr := None; v_exp := x |} ->
  state_after (h ++ [OEv ts]) = Some m ->
  find m n = [ENotFound].
Proof. exact error_dropped. Qed.
Print Assumptions C20_error_dropped_at_once_partial.

(* "when a mapping expires it is no longer returned under either the name or the address": whatever
   key is looked up, what is returned is the live (latest, unexpired) mapping of its name *)
Theorem C20_expired_gone_under_both_keys_partial : forall h k m n ip e,
  in_scope h = true -> key_collision h = false -> state_after h = Some m ->
  existsb (due_in (s_now (spec_after h)) (s_map (spec_after h))) (s_names (spec_after h)) = false ->
  find m k = [EFound n ip e] ->
  exists v, live (spec_after h) n = Some v /\ ip = m_ip v /\ e = exp_opt (m_exp v).
Proof. exact found_is_live. Qed.
Print Assumptions C20_expired_gone_under_both_keys_partial.

(* the model is total on the envelope *)
Theorem C20_model_total : forall h, in_scope h = true -> key_collision h = false ->
  exists m, state_after h = Some m.
Proof. exact state_exists. Qed.
Print Assumptions C20_model_total.

(* the hypotheses are satisfiable by a non-trivial history: a 2-day mapping shortened to 5 s by a line
   in the all-positional form whose local time is 5 h ahead of the UTC time; listener 1 looks the name
   and the address up from inside both callbacks and answers 'expired' with a newer mapping that lives
   5 s; listener 2 only records *)
Example C20_nonvacuous :
  let a := str n_a in let i1 := str ip1 in let i2 := str ip2 in
  let h := [OAddL 1 {| b_added := [AFindName]; b_expired := [AFindName; AFindKey i1; AFeed i2 (FIn 5)] |};
            OAddL 2 passive_l;
            OEv [W n_a; W ip1; T 1382400; X 1382400]; OEv [W n_a; W ip1; T 144040; T 40];
            OAdvance 39; OFind a; OAdvance 1; OFind a; OFind i1; OAdvance 40; OFind a] in
  in_scope h = true /\ key_collision h = false /\ stale_lookup h = false /\
  run h = Some [[]; []; [EAdded 1 a i1; ESub (EFound a i1 (Some 1382400%Z)); EAdded 2 a i1]; []; [];
                [EFound a i1 (Some 40%Z)];
                [EExpired 1 a; ESub ENotFound; ESub ENotFound; ESub (EAdded 1 a i2); ESub (EAdded 2 a i2); EExpired 2 a];
                [EFound a i2 (Some 80%Z)]; [ENotFound];
                [EExpired 1 a; ESub ENotFound; ESub ENotFound; ESub (EAdded 1 a i2); ESub (EAdded 2 a i2); EExpired 2 a];
                [EFound a i2 (Some 120%Z)]].
Proof. vm_compute. auto 6. Qed.
