(* C12 -- the SETCONF line produced for any list of key/value pairs, read with Tor's control-port
   grammar, yields exactly those keys and values in order; no key or value, whatever characters
   it contains, can cause more than one command line to be written.
   Only statements: each theorem is closed by `exact <lemma of Proofs/C12Proofs.v>`.

   set_conf, run      : Model/SetConf.v (literals from Gen/SetConfTable.v, i.e. from the source)
   parse_kvline(_strict), command_args, one_line : Spec/TorGrammar.v (Tor's reader)
   pairs_of, text_of, must_accept, in_scope, oracle : Spec/C12.v

   Envelope of the round-trip clause (in_scope): every string is ASCII and NUL-free and no value
   contains VT (0x0b).  The property's own alphabet (printable ASCII, TAB, CR, LF) lies inside it
   (C12_quantified_alphabet_in_scope).  VT is a separator for Tor but not a quoting trigger for
   the code; it is outside the property's alphabet and C12_vt_outside_envelope shows that the
   exclusion is necessary.  The one-line clause has no envelope at all. *)
From Coq Require Import List Bool Ascii NArith ZArith.
From TxVerif Require Import Lib.Bytes Spec.TorGrammar Spec.C12 Model.SetConf Proofs.C12Proofs.
Import ListNotations.
Open Scope N_scope.

(* Clause 1, full: every list of pairs whose names Tor can read as keywords (1+ characters
   33..126 without quote, apostrophe, =) and whose values are ANY in-scope strings (or ints /
   bools, through str()) is accepted, and Tor's reader, including its final check of the keys,
   returns exactly those pairs in order. *)
Theorem C12_roundtrip : forall args kvs,
  pairs_of (map text_of args) = Some kvs -> must_accept kvs = true -> in_scope kvs = true ->
  exists line rest, set_conf args = ScLine line /\ command_args SETCONF line = Some rest /\
                    parse_kvline_strict rest = Some kvs.
Proof. exact roundtrip. Qed.
Print Assumptions C12_roundtrip.

(* Clause 1 for hostile keys: whatever the arguments, a line that is handed to the queue was
   built from an even number of arguments and (in scope) reads back as exactly those pairs:
   a key can be refused, never misread as another option or another value. *)
Theorem C12_never_misread : forall args line, set_conf args = ScLine line ->
  exists kvs, pairs_of (map text_of args) = Some kvs /\
    (in_scope kvs = true ->
     exists rest, command_args SETCONF line = Some rest /\ tor_reads kvs rest = Some kvs).
Proof. exact never_misread. Qed.
Print Assumptions C12_never_misread.

(* an odd number of arguments is refused with a failed Deferred; nothing is queued *)
Theorem C12_refuses_non_pairs : forall args,
  pairs_of (map text_of args) = None -> set_conf args = ScRejected 1.
Proof. exact set_conf_odd. Qed.
Print Assumptions C12_refuses_non_pairs.

(* Clause 2, full, no hypothesis on keys or values: in every history of calls, other commands
   and answers, every transport write is body ++ CR LF with neither CR nor LF in body. *)
Theorem C12_single_line : forall ops tr, run ops = Some tr ->
  forall evs w, In evs tr -> In (EvWrite w) evs ->
  exists body, w = body ++ [CR; LF] /\ no_crlf body = true.
Proof. exact single_line. Qed.
Print Assumptions C12_single_line.

(* the model satisfies the whole Spec oracle on every history of the envelope (an answer only
   while a command is in flight): every write is one line, lines appear in submission order,
   one per accepted call, each SETCONF reads back as the pairs of its call, refused calls write
   nothing, calls that must be accepted are, nothing is lost or duplicated. *)
Theorem C12_oracle_holds : forall ops tr, run ops = Some tr -> oracle ops tr = true.
Proof. exact oracle_holds. Qed.
Print Assumptions C12_oracle_holds.

Theorem C12_quantified_alphabet_in_scope : forall v,
  forallb quantified_char v = true -> val_in_scope v = true.
Proof. exact quantified_in_scope. Qed.
Print Assumptions C12_quantified_alphabet_in_scope.

(* outside the property's alphabet: k = a VT b is written bare and Tor reads k=a and a keyword b *)
Theorem C12_vt_outside_envelope :
  exists kvs line rest, pairs_of (map text_of vt_args) = Some kvs /\ must_accept kvs = true /\
    set_conf vt_args = ScLine line /\ command_args SETCONF line = Some rest /\
    parse_kvline rest <> Some kvs.
Proof. exact vt_witness. Qed.
Print Assumptions C12_vt_outside_envelope.

(* non-vacuity: Log = notice file "/tmp/a b\c" CR LF, X = -17, Y = True  meets the hypotheses *)
Example C12_hypotheses_satisfiable :
  let args := [AStr (map ch [76; 111; 103]);
               AStr (map ch [110; 111; 116; 105; 99; 101; 32; 34; 47; 116; 109; 112; 47; 97; 32; 98; 92; 99; 34; 13; 10]);
               AStr (map ch [88]); AInt (-17)%Z; AStr (map ch [89]); ABool true] in
  exists kvs, pairs_of (map text_of args) = Some kvs /\ must_accept kvs = true /\ in_scope kvs = true
              /\ length kvs = 3%nat.
Proof. eexists. repeat split; vm_compute; reflexivity. Qed.
