(* C10 -- Config changes reach Tor only on save, as one SETCONF with exactly the changes.
   Only statements; each closed by `exact <lemma of Proofs/...>`.

   Full statement (kept visible; Spec/C10.v's oracle is its executable form):

     forall i snap tr, c10_scope i = true -> model_run i = Some (true, snap, tr) -> oracle i tr = true

   It is FALSE of the faithful model on three input classes (open findings C10-F1, C10-F3 and C10-F4,
   see the _refuted theorems; the former C10-F2 is repaired in the source, its witness is kept as a
   `_now_accepted` theorem).  What is proved for ALL states / histories of the model:
     - nothing is written by any operation other than save()            (C10_silent_until_save)
     - save() writes nothing when nothing is pending, otherwise exactly one SETCONF line, and
       Spec/TorStore.v's kvline parser reads back from it exactly the pending set: every pending
       option, scalars once with str(validated value), lists once per element in list order,
       nothing else                                                      (C10_setconf_exact)
     - that line decodes to its arguments for ALL keys set_conf accepts and ALL byte-string
       values (quoting and escaping tables regenerated from the source)  (C10_wire_roundtrip)
     - after an acknowledged save nothing is pending and a further save writes nothing
                                                                         (C10_accept_clears)
     - after a rejected save the same options stay pending, in the same order, with the same
       values, so the next save sends the same arguments                 (C10_reject_keeps_pending)
     - the hypothesis `unsaved_wf` of the above holds in every state any history reaches from
       a bootstrapped configuration                                      (C10_pending_wf_reachable)
     - the model's per-type validate / parse (selected through the regenerated config_types
       table) agree with the Spec's typed semantics on every declared type and every value of
       the envelope                                  (C10_validate_agrees, C10_parse_agrees)
     - THE FULL STATEMENT outside the two open finding classes, from any model state that is
       synchronised with Tor's store (relation Rel of Proofs/CfgSim.v: parsers = the table, every
       option's view = Tor's value parsed by type, nothing pending): the Spec oracle accepts the
       model's whole trace -- the pending set IS the set of options changed since the last
       acknowledged save with their validated values, the one SETCONF is exactly that set, after
       an acknowledgement nothing is pending and every read returns the saved value, after a
       rejection everything stays pending                        (C10_oracle_holds_partial)
       [what keeps it `_partial`: the hypothesis c10_known i = false, i.e. exactly the complement
        of the two open finding classes emptied_list_saved and edit_while_detached]
     - the same FROM THE INPUT ALONE: bootstrap (the model of _do_setup) establishes that
       synchronised state for EVERY table / store / defaults of the envelope (port lists with
       none, one or many lines included), so the whole model_run -- attach, then the history --
       is accepted by the oracle                            (C10_holds_outside_findings_partial)
       [`_partial` because of c10_known i = false and, for OpSaveDuring (operations performed while a
        save() is unanswered), flights_provable i: every REJECTED one is covered whatever is done in
        between; an ACKNOWLEDGED one is covered when reads, needs_save(), assignments and in-place edits
        happen in between -- what was changed after the save was sent stays pending, what was sent and
        not changed since stops being pending (the repaired F5); only a second save() or an event
        before the acknowledgement are judged by the oracle on the correspondence run alone] *)
From Coq Require Import String.
From Coq Require Import List Bool Ascii Arith NArith ZArith.
From TxVerif Require Import Lib.Bytes Lib.CfgLib Spec.CfgTypes Spec.TorStore Spec.CfgOracle Spec.C10
  Model.ConfigKinds Model.Config Proofs.CfgWire Proofs.C10Proofs Proofs.CfgAgree Proofs.CfgSim Proofs.CfgSimRun
  Proofs.CfgBoot Proofs.CfgTop.
Import ListNotations.

Theorem C10_silent_until_save : forall names ops st tr,
  m_run names st ops = Some tr ->
  Forall2 (fun o ob => is_save o = false -> o_wrote ob = []) ops tr.
Proof. exact run_silent. Qed.
Print Assumptions C10_silent_until_save.

Theorem C10_setconf_exact : forall st rej st' wrote r,
  unsaved_wf st -> m_save st rej = Some (st', wrote, r) ->
  match m_unsaved st with
  | [] => wrote = [] /\ r = SOk /\ st' = st
  | _ =>
      (wrote = [] /\ r = SErr E_Value) \/
      (exists line, wrote = [line] /\ parse_setconf line = Some (map entry_of (pending_args st))
                    /\ r = match rej with None => SOk | Some c => SFail c end)
  end.
Proof. exact save_writes_exactly_pending. Qed.
Print Assumptions C10_setconf_exact.

Theorem C10_wire_roundtrip : forall args,
  existsb (fun kv : bytes * bytes => key_refused (fst kv)) args = false ->
  parse_setconf (setconf_line args) = Some (map entry_of args).
Proof. exact setconf_line_parses. Qed.
Print Assumptions C10_wire_roundtrip.

Theorem C10_accept_clears : forall st st' wrote,
  m_save st None = Some (st', wrote, SOk) ->
  m_unsaved st' = [] /\ forall rej, m_save st' rej = Some (st', [], SOk).
Proof. exact save_accept_clears. Qed.
Print Assumptions C10_accept_clears.

Theorem C10_reject_keeps_pending : forall st c st' wrote r,
  unsaved_wf st -> m_save st (Some c) = Some (st', wrote, r) ->
  map fst (m_unsaved st') = map fst (m_unsaved st) /\ pending_args st' = pending_args st.
Proof. exact save_reject_keeps. Qed.
Print Assumptions C10_reject_keeps_pending.

Theorem C10_pending_wf_reachable : forall i st0 ops st,
  m_bootstrap i = Ok st0 -> reaches (option_names i) st0 ops st -> unsaved_wf st.
Proof.
  intros i st0 ops st Hb Hr. apply (reaches_wf _ _ _ _ Hr).
  unfold unsaved_wf. rewrite (bootstrap_unsaved i st0 Hb). constructor.
Qed.
Print Assumptions C10_pending_wf_reachable.

Theorem C10_validate_agrees : forall k v,
  assign_ok k v = true -> pending_agrees (validate (vk_of k) v) (spec_validate k v).
Proof. exact validate_agrees_all. Qed.
Print Assumptions C10_validate_agrees.

Theorem C10_parse_agrees : forall k a, validated k a ->
  exists a', parse (pk_of k) (PAtom a) = Ok (PAtom a') /\ parse_scalar k (atom_text a) = Some a'.
Proof. exact parse_agrees. Qed.
Print Assumptions C10_parse_agrees.

Theorem C10_oracle_holds_partial : forall i st tr,
  c10_scope i = true -> c10_known i = false -> flights_provable i = true ->
  Rel (options (i_table i)) (i_defaults i) st (mon0 i) ->
  m_run (option_names i) st (i_ops i) = Some tr ->
  oracle i tr = true.
Proof. exact oracle_from_synced. Qed.
Print Assumptions C10_oracle_holds_partial.

Theorem C10_holds_outside_findings_partial : forall i b snap tr,
  c10_scope i = true -> c10_known i = false -> flights_provable i = true ->
  model_run i = Some (b, snap, tr) ->
  b = true /\ boot_oracle i b snap = true /\ oracle i tr = true.
Proof. exact c10_oracle_holds. Qed.
Print Assumptions C10_holds_outside_findings_partial.

(* ---- the open findings: the full statement fails on a concrete input of each class ---- *)
Theorem C10_emptied_list_refuted :
  exists i, emptied_list_saved i = true /\ c10_scope i = true /\
            exists snap tr, model_run i = Some (true, snap, tr) /\ oracle i tr = false.
Proof. exists w_f1. destruct f1_refuted as [[H1 H2] H3]. auto. Qed.
Print Assumptions C10_emptied_list_refuted.

(* the repaired finding F2: its witness (remove a missing element, needs_save(), save) is accepted,
   lies in no open class; needs_save() answers False and the save writes nothing *)
Theorem C10_failed_listop_now_accepted :
  c10_scope w_f2 = true /\ c10_known w_f2 = false /\
  exists snap tr, model_run w_f2 = Some (true, snap, tr) /\ oracle w_f2 tr = true
    /\ nth_error (map o_res tr) 1 = Some (XBool false) /\ map o_wrote tr = [[]; []; []].
Proof. exact f2_now_accepted. Qed.
Print Assumptions C10_failed_listop_now_accepted.

Theorem C10_odd_element_refuted :
  exists i, odd_element_saved i = true /\ c10_scope i = true /\
            exists snap tr, model_run i = Some (true, snap, tr) /\ oracle i tr = false.
Proof. exists w_f4. destruct f4_refuted as [[H1 H2] [H3 _]]. auto. Qed.
Print Assumptions C10_odd_element_refuted.

(* falsy list elements (the integer 0, an empty string) are put on the wire like any other element *)
Theorem C10_falsy_elements_are_sent :
  c10_scope w_falsy = true /\ c10_known w_falsy = false /\
  exists snap tr, model_run w_falsy = Some (true, snap, tr) /\ oracle w_falsy tr = true
    /\ concat (map o_wrote tr) = [bs "SETCONF Log=0 Log= Log=x"].
Proof. exact falsy_example. Qed.
Print Assumptions C10_falsy_elements_are_sent.

(* the repaired finding F5 (df54f2d): a change made while a save() is unanswered survives the acknowledgement --
   on the former witness the 8 is still pending after the 250 and the next save sends it *)
Theorem C10_changed_during_flight_now_accepted :
  c10_scope w_f5 = true /\ c10_known w_f5 = false /\
  exists snap tr, model_run w_f5 = Some (true, snap, tr) /\ oracle w_f5 tr = true
    /\ concat (map o_wrote tr) = [bs "SETCONF NumCPUs=4"; bs "SETCONF NumCPUs=8"]
    /\ nth_error (map o_res tr) 2 = Some (XBool true).
Proof. exact f5_now_accepted. Qed.
Print Assumptions C10_changed_during_flight_now_accepted.

(* ... and so does an in-place list edit (and the assignment of another option) made in that window *)
Theorem C10_edited_during_flight_now_accepted :
  c10_scope w_f5l = true /\ c10_known w_f5l = false /\
  exists snap tr, model_run w_f5l = Some (true, snap, tr) /\ oracle w_f5l tr = true
    /\ concat (map o_wrote tr) = [bs "SETCONF Log=""notice stdout"" Log=a"; bs "SETCONF Log=""notice stdout"" Log=a Log=b NumCPUs=8"].
Proof. exact f5l_now_accepted. Qed.
Print Assumptions C10_edited_during_flight_now_accepted.

(* with a REJECTED answer everything stays pending: the assignment and the in-place edit made while the
   SETCONF was unanswered are carried by the second save() (written once the first is answered) and by the next *)
Theorem C10_flight_rejected_keeps_everything :
  c10_scope w_flight_rej = true /\ c10_known w_flight_rej = false /\
  exists snap tr, model_run w_flight_rej = Some (true, snap, tr) /\ oracle w_flight_rej tr = true
    /\ concat (map o_wrote tr) = [bs "SETCONF NumCPUs=4"; bs "SETCONF NumCPUs=8 Log=""notice stdout"" Log=x";
                                  bs "SETCONF NumCPUs=8 Log=""notice stdout"" Log=x"].
Proof. exact flight_rej_example. Qed.
Print Assumptions C10_flight_rejected_keeps_everything.

(* an acknowledged save with reads, needs_save() and a second save() before the answer: the second SETCONF
   repeats what is not yet acknowledged; afterwards nothing is pending and a further save writes nothing *)
Theorem C10_flight_acknowledged_quiet :
  c10_scope w_flight_ack = true /\ c10_known w_flight_ack = false /\
  exists snap tr, model_run w_flight_ack = Some (true, snap, tr) /\ oracle w_flight_ack tr = true
    /\ concat (map o_wrote tr) = [bs "SETCONF NumCPUs=4"; bs "SETCONF NumCPUs=4"]
    /\ nth_error (map o_res tr) 2 = Some (XBool false).
Proof. exact flight_ack_example. Qed.
Print Assumptions C10_flight_acknowledged_quiet.

Theorem C10_edit_while_detached_refuted :
  exists i, edit_while_detached i = true /\ c10_scope i = true /\
            exists snap tr, model_run i = Some (true, snap, tr) /\ oracle i tr = false.
Proof. exists w_f3. destruct f3_refuted as [[H1 H2] H3]. auto. Qed.
Print Assumptions C10_edit_while_detached_refuted.

(* config.A = config.B (the tracked list read from B is assigned to A) leaves two independent options:
   each SETCONF names exactly the option that was changed, the other one reads as before *)
Theorem C10_copy_keeps_options_apart :
  c10_scope w_copy = true /\ c10_known w_copy = false /\
  exists snap tr, model_run w_copy = Some (true, snap, tr) /\ oracle w_copy tr = true
    /\ concat (map o_wrote tr) = [bs "SETCONF Log=a Log=b"; bs "SETCONF Log=a Log=b Log=x"; bs "SETCONF ExitNodes=a";
                                  bs "SETCONF ExitNodes=a"]
    /\ nth_error (map o_res tr) 5 = Some (XVal (RList true [bs "a"; bs "b"]))
    /\ nth_error (map o_res tr) 8 = Some (XVal (RList true [bs "a"; bs "b"; bs "x"])).
Proof. exact copy_example. Qed.
Print Assumptions C10_copy_keeps_options_apart.

(* non-vacuity: a history outside the open classes with a rejected and an accepted save, quoting,
   case-insensitive names and in-place edits meets every hypothesis, and the oracle accepts it *)
Example C10_nonvacuous :
  c10_scope w_ok = true /\ c10_known w_ok = false /\
  exists snap tr, model_run w_ok = Some (true, snap, tr) /\ oracle w_ok tr = true
    /\ map o_wrote tr = [[]; []; []; [bs "SETCONF NumCPUs=7 Log=""notice stdout"" Log=""info file /tmp/x"""]; []; []; [];
                         [bs "SETCONF NumCPUs=7 Log=""q\""uote"" Log=""notice stdout"" Log=""info file /tmp/x"""]; []; []; []; []].
Proof. exact ok_example. Qed.
