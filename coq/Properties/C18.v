(* C18 -- choosing a SOCKS port never alters Tor's existing SOCKS listeners.
   Only statements; each is closed by `exact <lemma of Proofs/C18Proofs.v>`.

   Full statement (kept visible; [oracle] of Spec/C18.v is its executable form):

     forall t ops picks, wf_hist t ops = true -> oracle_hist t ops (run t ops picks) = true
     forall given outs, oracle_client given outs (client_run given outs) = true

   [wf_hist] is the envelope: SocksPort lines as Tor reports them, one-word ports asked for, one
   kind of API per history.  [picks] resolves Python's set iteration order (which of several usable
   ports _create_socks_endpoint returns); every theorem holds for every resolution.

   A request is a SocksPort line: a port (first word only) or a whole line with option words.
   The entry asked for is the one that IS that line, byte for byte, or whose first word is the
   request; for a request with other option words than the configured line of the same port the
   oracle allows both using that line and adding the requested one.

   The second line is proved as stated (C18_client_fallback).  The model follows /repo after the
   repairs 5de976f (C18-F1), 73db4d4 (C18-F2), 9344c47 (C18-F3), a76a42b (C18-F5).  The first line
   is FALSE of the faithful model on the input class of the one open finding
     C18-F4  a TorConfig call made after Tor refused a SETCONF of an earlier call
   (witness: C18_cfg_call_after_refused_setconf_refuted); what is proved for ALL histories of the
   envelope is
     * C18_every_call_ok_or_known: every call satisfies all clauses of the oracle, or is in that
       class (so nothing else can hide behind the finding);
     * C18_oracle_holds_partial: the full statement with the extra hypothesis "no call of the
       history is in the class", its exact complement;
     * C18_listeners_never_altered: flagged or not, after the whole history Tor's configuration
       still starts with the listeners it had, byte for byte and in order (the title clause holds
       of the model without exception). *)
From Coq Require Import List Bool Ascii NArith String.
From TxVerif Require Import Lib.Bytes Lib.Words Gen.SocksPortConsts Spec.C18 Model.SocksPort Proofs.C18Proofs.
Import ListNotations.
Open Scope N_scope.

(* ---- histories of calls ---- *)
Theorem C18_every_call_ok_or_known : forall t ops picks,
  wf_hist t ops = true -> oracle_known t false ops (run t ops picks) = true.
Proof. exact run_known. Qed.
Print Assumptions C18_every_call_ok_or_known.

Theorem C18_oracle_holds_partial : forall t ops picks,
  wf_hist t ops = true -> flagged t ops (run t ops picks) = false ->
  oracle_hist t ops (run t ops picks) = true.
Proof. exact oracle_holds_partial. Qed.
Print Assumptions C18_oracle_holds_partial.

Theorem C18_listeners_never_altered : forall t ops picks,
  wf_hist t ops = true ->
  is_prefix (listeners t) (listeners (final_tor t ops (run t ops picks))) = true.
Proof. exact listeners_never_altered. Qed.
Print Assumptions C18_listeners_never_altered.

(* about the oracle itself, for ANY observations (not only the model's): traces it accepts never
   alter an existing listener *)
Theorem C18_oracle_implies_listeners_kept : forall ops t obs,
  oracle_hist t ops obs = true -> is_prefix (listeners t) (listeners (final_tor t ops obs)) = true.
Proof. exact oracle_keeps_listeners. Qed.
Print Assumptions C18_oracle_implies_listeners_kept.

(* ---- one call of _create_socks_endpoint, spelled out (DESIGN: C18_existing_preserved,
   C18_use_means_no_setconf, C18_use_only_if_usable).  [same_port] is the request reduced to its
   first word.  Either nothing but GETCONF is written and the result is the endpoint of a usable
   entry for that port (never a port-0 line) with Tor left as it was; or no usable entry has that
   first word (so none is the one asked for) and exactly one SETCONF follows the queries which, read
   with Tor's grammar, is every listener entry Tor reported, byte for byte and in order, then the new
   line.  Full (since a76a42b also for requests with option words). *)
Theorem C18_create_existing_preserved : forall t o pick,
  tor_ok t -> dflt_le1 t -> wf_op o = true ->
  let r := choose t (o_want o) (o_avail o) (o_accept o) pick in
  let same_port := option_map first_word (o_want o) in
  (exists e, sent (fst r) = queries t /\ out (fst r) = OEp e
             /\ In e (usable_eps same_port (entries t)) /\ snd r = t)
  \/
  (usable_eps same_port (entries t) = [] /\ usable_eps (o_want o) (entries t) = [] /\
   exists s, sent (fst r) = queries t ++ [s] /\ is_setconf s = true /\
     decode_setconf s = Some (map (fun v => (tx key_setconf, v)) (listeners t ++ [new_line o])) /\
     (o_accept o = true ->
        exists e, out (fst r) = OEp e /\ addr_of (first_word (new_line o)) = Some e
                  /\ snd r = {| sp := RVals (listeners t ++ [new_line o]); dflt := dflt t |}) /\
     (o_accept o = false -> (exists n, out (fst r) = OErr n) /\ snd r = t)).
Proof. exact create_cases. Qed.
Print Assumptions C18_create_existing_preserved.

(* TorConfig.socks_endpoint() / create_socks_endpoint(None): nothing is written; the result is the
   endpoint of the FIRST USABLE entry (never port 0, never a line that cannot be connected to), or
   a refusal when no entry is usable.  Full since 9344c47. *)
Theorem C18_cfg_first_usable : forall st,
  (forall e, In e (m_cfg st) -> okline0 e = true) ->
  fst (cfg_first st) = {| sent := [];
                          out := match usable_eps None (m_cfg st) with
                                 | ep :: _ => OEp ep
                                 | [] => OErr K_Runtime
                                 end |}
  /\ snd (cfg_first st) = st.
Proof. exact cfg_first_spec. Qed.
Print Assumptions C18_cfg_first_usable.

(* the queries are read-only *)
Theorem C18_queries_read_only : forall t,
  forallb (fun l => is_getconf l || is_setconf l) (queries t) = true /\ filter is_setconf (queries t) = [].
Proof. exact queries_facts. Qed.
Print Assumptions C18_queries_read_only.

(* set_conf's quoting: whatever the lines contain, Tor reads back exactly them (all byte strings) *)
Theorem C18_setconf_reads_back : forall k vals,
  keyok k = true -> decode_setconf (setconf_line k vals) = Some (map (fun v => (k, v)) vals).
Proof. exact decode_roundtrip. Qed.
Print Assumptions C18_setconf_reads_back.

(* on a line of the envelope the code's reading of a SocksPort line is Tor's meaning of its first
   word, option words or not, unix: or not (full since 73db4d4); port 0 is the caller's business *)
Theorem C18_line_to_endpoint : forall l,
  okline0 l = true -> first_word l <> ZERO -> parse_line l = addr_of (first_word l).
Proof. exact parse_line_spec. Qed.
Print Assumptions C18_line_to_endpoint.

(* ---- the open finding: the full statement fails on this input ---- *)
Theorem C18_cfg_call_after_refused_setconf_refuted : refutes w_f4_tor w_f4_ops.
Proof. exact f4_refuted. Qed.
Print Assumptions C18_cfg_call_after_refused_setconf_refuted.

(* regression anchor of the repaired C18-F5: the former witness is accepted, only GETCONF is written *)
Theorem C18_create_full_line_already_configured_now_accepted :
  wf_hist w_f5_tor w_f5_ops = true /\
  run w_f5_tor w_f5_ops [] = [{| sent := [tx "GETCONF SOCKSPort"]; out := OEp (EpTcp LOCALHOST 9150) |}] /\
  oracle_hist w_f5_tor w_f5_ops (run w_f5_tor w_f5_ops []) = true.
Proof. exact f5_now_accepted. Qed.
Print Assumptions C18_create_full_line_already_configured_now_accepted.

(* the same whole-line request through TorConfig.create_socks_endpoint is served from the existing
   line, nothing is written (this is what the seeded change C18-s2 broke) *)
Theorem C18_cfg_full_line_request_uses_existing :
  run w_f5_tor [mkop ACfgCreate (Some (tx "9150 IPv6Traffic PreferIPv6")) true] []
  = [{| sent := []; out := OEp (EpTcp LOCALHOST 9150) |}].
Proof. exact full_line_request_cfg. Qed.
Print Assumptions C18_cfg_full_line_request_uses_existing.

(* the witnesses of the three repaired findings are accepted now *)
Theorem C18_repaired_witnesses_hold :
  oracle_hist w_f1_tor [mkop ACreate None true] (run w_f1_tor [mkop ACreate None true] []) = true /\
  oracle_hist w_f2_tor [mkop ACfgEndpoint None true] (run w_f2_tor [mkop ACfgEndpoint None true] []) = true /\
  oracle_hist w_f3_tor [mkop ACfgEndpoint None true] (run w_f3_tor [mkop ACfgEndpoint None true] []) = true /\
  oracle_hist w_f3b_tor [mkop ACfgCreate None true] (run w_f3b_tor [mkop ACfgCreate None true] []) = true.
Proof. exact repaired_witnesses. Qed.
Print Assumptions C18_repaired_witnesses_hold.

(* ---- client endpoint without a SOCKS endpoint ---- *)
Theorem C18_client_fallback : forall given outs,
  oracle_client given outs (client_run given outs) = true.
Proof. exact client_oracle. Qed.
Print Assumptions C18_client_fallback.

(* for any port table: if every attempt fails with a connection error all ports are tried, in
   table order, and the error of the last one is reported *)
Theorem C18_fallback_all_fail : forall host ports outs idx last,
  (forall i, (i < List.length ports)%nat -> exists k, nth i outs TPending = TConnErr k) ->
  fst (fallback host ports outs idx last) = map (EpTcp host) ports /\
  snd (fallback host ports outs idx last)
  = match ports with
    | [] => match last with Some i => CConnErr i | None => COther end
    | _ => CConnErr (idx + N.of_nat (List.length ports) - 1)
    end.
Proof. exact fallback_all_fail. Qed.
Print Assumptions C18_fallback_all_fail.

(* anything but a connection error ends the loop at once with that outcome *)
Theorem C18_fallback_stops : forall host ports outs idx last p ps,
  ports = p :: ps -> (forall k, hd TPending outs <> TConnErr k) ->
  fallback host ports outs idx last = ([EpTcp host p], m_res (hd TPending outs) idx).
Proof. exact fallback_stops. Qed.
Print Assumptions C18_fallback_stops.

(* the table in the source is the well-known pair, tried on the loopback address, and the loop
   moves on after twisted.internet.error.ConnectError only *)
Theorem C18_fallback_table :
  socks_ports_to_try = well_known /\ tx fallback_host = LOCALHOST /\ fallback_except = "ConnectError"%string.
Proof. exact (conj ports_table (conj host_table except_table)). Qed.
Print Assumptions C18_fallback_table.

(* non-vacuity: a Tor Browser style configuration with option words, a request for an absent
   port, then the default endpoint; the hypotheses hold and the history is not flagged *)
Example C18_hypotheses_satisfiable :
  let t := {| sp := RVals [tx "9150 IPv6Traffic PreferIPv6 KeepAliveIsolateSOCKSAuth"; tx "unix:/run/tor/socks WorldWritable"; tx "0"];
              dflt := [] |} in
  let ops := [ {| o_api := ACreate; o_want := Some (tx "9999"); o_avail := tx "40001"; o_accept := true |};
               {| o_api := ADefault; o_want := None; o_avail := tx "40001"; o_accept := true |} ] in
  wf_hist t ops = true /\ flagged t ops (run t ops []) = false /\
  map sent (run t ops [])
  = [ [tx "GETCONF SOCKSPort";
       tx "SETCONF SOCKSPort=""9150 IPv6Traffic PreferIPv6 KeepAliveIsolateSOCKSAuth"" SOCKSPort=""unix:/run/tor/socks WorldWritable"" SOCKSPort=9999"];
      [tx "GETCONF SOCKSPort"] ].
Proof. vm_compute. auto. Qed.
