(* C14 -- creating an ephemeral onion service sends exactly one ADD_ONION whose key specifier, port
   mappings, flags and client-auth entries correspond exactly to the request; the address is the
   one Tor returned; key custody follows the request; DEL_ONION names exactly that address.
   Only statements: each theorem is closed by `exact <lemma of Proofs/C14Proofs.v>`.

   phase_create, run : Model/AddOnion.v (literals from Gen/OnionTable.v, i.e. from the source)
   parse_add_onion, expected, must_send, must_refuse, in_scope, oracle : Spec/C14.v
   no_unknown, reply_ok : Proofs/C14Proofs.v (the modelling envelope, see below)

   The former finding C14-F1 (a line break in a client name, a client token or the text of a port
   mapping was written into the command line) was repaired in /repo by 6a4374c; the model follows the
   repaired code (the assembled command is checked for CR/LF just before it is queued, after the
   clients that came with a token have been added to the service) and the class is now covered by
   C14_refuses / C14_rejects_linebreaks_anywhere instead of being excluded.

   C14_oracle_holds has two hypotheses that describe what the model / the drive covers, not classes
   of requests that are excused:
     no_unknown q : numbers are plain digit strings and a free port exists for every int entry,
     reply_ok q rp: the answer is as Tor sends it: ServiceID / PrivateKey occur at most once, the key
                    has no surrounding whitespace, ClientAuth lines have a colon and name distinct
                    new clients.
   The read-back and client-token clauses of the oracle apply to requests in scope (in_scope: key,
   targets, names, tokens free of Tor's separators and NUL, names without colon and distinct); for
   the others the oracle checks the counting, one-line, refusal, liveness and custody clauses, and
   the theorem covers those as well.  The custody and refusal theorems need no hypothesis. *)
From Coq Require Import String.
From Coq Require Import List Bool Ascii NArith.
From TxVerif Require Import Lib.Bytes Spec.TorGrammar Spec.C14 Model.AddOnion Proofs.C14Proofs.
Import ListNotations.
Open Scope N_scope.

(* Clause 1: every request of the property's product (any version 2/3, key none / discard / bare /
   prefixed of the right type, any flags, any basic-auth client list, 1..N good port mappings in
   any of the forms) makes create() send exactly one command, and Tor's reader returns exactly
   the requested key specifier, port mappings in order, flag set and client entries in order. *)
Theorem C14_roundtrip : forall q, (q_version q = 2 \/ q_version q = 3) -> must_send q = true ->
  exists cmd d e a, phase_create q = Ok ([ECmd cmd; snap (svc1 q d)], CSvc (svc1 q d) true) /\
    expected q = Some e /\ parse_add_onion cmd = Some a /\ ao_eqb a e = true.
Proof. exact roundtrip. Qed.
Print Assumptions C14_roundtrip.

(* whatever create() sends (also for keys of the other type and targets it merely tolerates):
   in scope it reads back as exactly the request *)
Theorem C14_never_misread : forall q cmd evs st e,
  phase_create q = Ok (ECmd cmd :: evs, st) -> in_scope q = true -> expected q = Some e ->
  exists a, parse_add_onion cmd = Some a /\ ao_eqb a e = true.
Proof. exact sent_reads_back. Qed.
Print Assumptions C14_never_misread.

(* key material with a line break, a line break in any other argument, or an entry that is not a port
   mapping (must_refuse): the creation fails and
   no command at all is sent, whatever the rest of the request and whatever Tor would answer *)
Theorem C14_refuses : forall q rp tr, must_refuse q = true -> run q rp = Some tr ->
  exists p1, tr = [p1; []; []; []] /\ cmds_of p1 = [] /\ failed p1 = true.
Proof. exact refused_run. Qed.
Print Assumptions C14_refuses.

Theorem C14_rejects_linebreak_keys : forall q s,
  q_key q = KText s -> has_linebreak s = true -> must_refuse q = true.
Proof. exact linebreak_key_refused. Qed.
Print Assumptions C14_rejects_linebreak_keys.

(* a CR or LF in any client name, client token or port-mapping text (names distinct, otherwise the
   request is ambiguous): refused as well, by C14_refuses nothing at all is sent *)
Theorem C14_rejects_linebreaks_anywhere : forall q,
  hostile_linebreak q = true -> names_distinct q = true -> must_refuse q = true.
Proof. exact linebreak_anywhere_refused. Qed.
Print Assumptions C14_rejects_linebreaks_anywhere.

(* discarding: in no phase, for no answer (even one that carries PrivateKey=), does the service hold
   a key.  (That the DiscardPK flag is sent is part of C14_roundtrip: it is in [expected].) *)
Theorem C14_discard_never_stored : forall q rp tr, q_key q = KDiscard -> run q rp = Some tr ->
  forall evs h k c, In evs tr -> In (ESnap h k c) evs -> key_is_text k = false.
Proof. exact discard_never_stored. Qed.
Print Assumptions C14_discard_never_stored.

(* a supplied key: what the service holds, in every phase and for every answer, is the supplied key
   with its type prefix, i.e. exactly the key specifier that is sent *)
Theorem C14_supplied_key_kept : forall q rp tr s kt kb m, q_key q = KText s ->
  key_expect (q_version q) (q_key q) = KCExact kt kb m -> run q rp = Some tr ->
  forall evs h k c, In evs tr -> In (ESnap h k c) evs -> k = KSText (kt ++ COLON :: kb).
Proof. exact supplied_key_kept. Qed.
Print Assumptions C14_supplied_key_kept.

(* the whole Spec oracle on the model's own trace, for every request: counting and one-line clauses,
   refusals, liveness, read-back, key custody, address = ServiceID.onion, generated key retained,
   client tokens, the caller gets the registered object, DEL_ONION <ServiceID> *)
Theorem C14_oracle_holds : forall q rp tr,
  run q rp = Some tr -> no_unknown q = true -> reply_ok q rp = true -> oracle q rp tr = true.
Proof. exact oracle_holds. Qed.
Print Assumptions C14_oracle_holds.

(* the witness of the former finding C14-F1 (client name  a CR LF b): now refused, oracle satisfied *)
Theorem C14_former_finding_now_refused :
  hostile_linebreak f1_request = true /\ must_refuse f1_request = true /\
  exists tr, run f1_request RError = Some tr /\ oracle f1_request RError tr = true.
Proof. exact f1_now_refused. Qed.
Print Assumptions C14_former_finding_now_refused.

(* non-vacuity: version 3, discard, detach, single-hop, basic auth with two clients, three mappings *)
Example C14_hypotheses_satisfiable :
  let q := {| q_version := 3; q_key := KDiscard;
              q_ports := [PInt 80; PPair (NInt 443) (LText (lit "unix:/run/web.sock") false);
                          PStr (lit "22 192.168.1.2:2222") true];
              q_detach := true; q_single := true;
              q_auth := Some [(lit "alice", None); (lit "bob", Some (lit "c4r0ls33kr1tc4r0ls33kr"))];
              q_free := [40123] |} in
  must_send q = true /\ in_scope q = true /\ no_unknown q = true /\
  reply_ok q (RLines [lit "ServiceID=abcdefghijklmnop"; lit "ClientAuth=alice:0123456789abcdefghijkl"]) = true.
Proof. cbv zeta. repeat split; vm_compute; reflexivity. Qed.
