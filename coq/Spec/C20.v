(* C20: the address map holds a name exactly until its latest mapping expires.
   Written from the property text and the control-spec grammar of ADDRMAP:
     "650" SP "ADDRMAP" SP Address SP NewAddress SP Expiry [SP Error] [SP GMTExpiry] [SP KEY=VALUE]...
     NewAddress = address / "<error>";  Expiry = DQUOTE ISOTime DQUOTE / "NEVER" (local time);
     GMTExpiry = "EXPIRES=" DQUOTE ISOTime DQUOTE (authoritative when present).
   Independent of Model/ and Gen/.

   Time is counted in ticks of 1/8 second (Z) from a fixed origin.  An ADDRMAP line is handed
   over as its list of tokens (what shlex.split returns); a token is a literal prefix followed
   optionally by one time stamp "%Y-%m-%d %H:%M:%S" (carried as its tick value: the calendar
   conversion is Python's strftime/strptime on both sides and is trusted). *)
From Coq Require Import List Bool Ascii Arith NArith ZArith Lia.
From TxVerif Require Import Lib.Bytes.
Import ListNotations.
Open Scope N_scope.

Record tok := { t_pre : bytes; t_time : option Z }.

Inductive op :=
| OEv (ts : list tok)      (* one ADDRMAP line (event or address-mappings/all line) *)
| OAdvance (dt : N)        (* dt ticks pass; the reactor runs whatever is due *)
| OFind (k : bytes)        (* AddrMap.find(k) *)
| OAddL (l : N).           (* AddrMap.add_listener(listener number l) *)

Inductive obs :=
| EFound (n ip : bytes) (e : option Z)    (* the Addr found: .name, str(.ip), .expires (None = never) *)
| ENotFound                               (* KeyError *)
| EAdded (l : N) (n ip : bytes)           (* listener l: addrmap_added(addr) with addr.name, str(addr.ip) *)
| EExpired (l : N) (n : bytes)            (* listener l: addrmap_expired(name) *)
| ERaised.                                (* any other exception *)

Definition oz_eqb (a b : option Z) : bool := option_eqb Z.eqb a b.

Definition obs_eqb (a b : obs) : bool :=
  match a, b with
  | EFound n i e, EFound n' i' e' => beqb n n' && beqb i i' && oz_eqb e e'
  | ENotFound, ENotFound => true
  | EAdded l n i, EAdded l' n' i' => N.eqb l l' && beqb n n' && beqb i i'
  | EExpired l n, EExpired l' n' => N.eqb l l' && beqb n n'
  | ERaised, ERaised => true
  | _, _ => false
  end.

(* ---- ASCII case ---- *)
Definition lower_a (a : ascii) : ascii :=
  let c := code a in if (65 <=? c) && (c <=? 90) then ch (c + 32) else a.
Definition upper_a (a : ascii) : ascii :=
  let c := code a in if (97 <=? c) && (c <=? 122) then ch (c - 32) else a.
Definition lower (b : bytes) : bytes := map lower_a b.
Definition upper (b : bytes) : bytes := map upper_a b.

Definition str (l : list N) : bytes := map ch l.
Definition w_NEVER : bytes := str [78;69;86;69;82].                       (* NEVER *)
Definition w_ERROR : bytes := str [60;101;114;114;111;114;62].            (* <error> *)
Definition w_EXPIRES : bytes := str [69;88;80;73;82;69;83;61].            (* EXPIRES= *)
Definition w_expires_lc : bytes := str [101;120;112;105;114;101;115;61].  (* expires= *)

(* ---- reading one line (control-spec) ---- *)
Inductive sexp := XNever | XAt (t : Z).
Record sev := { v_name : bytes; v_addr : option bytes (* None = <error> *); v_exp : sexp }.

Definition is_word (t : tok) : bool := match t_time t with None => true | Some _ => false end.
Definition plain_word (t : tok) : bool :=
  is_word t && negb (memb EQC (t_pre t)) && match t_pre t with [] => false | _ => true end.

(* a keyword argument KEY=VALUE; a key that is "expires" in any other spelling than EXPIRES, or an
   EXPIRES without a time stamp, is outside the envelope *)
Definition kw_ok (t : tok) : bool :=
  memb EQC (t_pre t) &&
  (if prefixb w_expires_lc (lower (t_pre t))
   then beqb (t_pre t) w_EXPIRES && negb (is_word t) else true).

Definition gmt_of (rest : list tok) : list Z :=
  flat_map (fun t => if beqb (t_pre t) w_EXPIRES
                     then match t_time t with Some g => [g] | None => [] end else []) rest.

Definition parse_ev (ts : list tok) : option sev :=
  match ts with
  | a :: b :: c :: rest =>
      if plain_word a && plain_word b && forallb kw_ok rest then
        let addr := if beqb (t_pre b) w_ERROR then None else Some (t_pre b) in
        match t_time c with
        | None =>
            if beqb (t_pre c) w_NEVER then
              match gmt_of rest with
              | [] => Some {| v_name := t_pre a; v_addr := addr; v_exp := XNever |}
              | _ => None
              end
            else None
        | Some l =>
            match t_pre c with
            | [] =>
                match gmt_of rest with
                | [] => match rest with      (* old form without GMT expiry: nothing may follow *)
                        | [] => Some {| v_name := t_pre a; v_addr := addr; v_exp := XAt l |}
                        | _ => None
                        end
                | [g] => Some {| v_name := t_pre a; v_addr := addr; v_exp := XAt g |}
                | _ => None
                end
            | _ => None
            end
        end
      else None
  | _ => None
  end.

Definition op_in_scope (o : op) : bool :=
  match o with OEv ts => match parse_ev ts with Some _ => true | None => false end | _ => true end.
Definition in_scope (h : list op) : bool := forallb op_in_scope h.

(* ---- what Tor's mappings are: per name, the latest one ---- *)
Record mp := { m_ip : bytes; m_exp : sexp }.
Definition smap := bytes -> option mp.

Definition sset (n : bytes) (v : mp) (m : smap) : smap := fun k => if beqb n k then Some v else m k.
Definition sdel (n : bytes) (m : smap) : smap := fun k => if beqb n k then None else m k.

Definition due_exp (now : Z) (e : sexp) : bool :=
  match e with XNever => false | XAt t => (t <=? now)%Z end.
Definition due_in (now : Z) (m : smap) (n : bytes) : bool :=
  match m n with Some v => due_exp now (m_exp v) | None => false end.
(* time passes: every mapping whose expiry is reached goes *)
Definition sweep (now : Z) (m : smap) : smap :=
  fun k => match m k with
           | Some v => if due_exp now (m_exp v) then None else Some v
           | None => None
           end.

(* s_map holds a name from the event that introduces it until an error mapping for it arrives or
   time passes beyond its expiry ("held"); a mapping whose expiry is already reached when it arrives
   is still held until time next passes (the reactor runs), but it is not LIVE: lookups must fail.
   s_names: every name an event has mentioned so far, in order of first appearance. *)
Record sst := { s_now : Z; s_map : smap; s_names : list bytes; s_lst : list N }.

Definition s0 : sst := {| s_now := 0%Z; s_map := fun _ => None; s_names := []; s_lst := [] |}.

Definition memB (k : bytes) (l : list bytes) : bool := existsb (beqb k) l.
Definition memN (k : N) (l : list N) : bool := existsb (N.eqb k) l.

Definition spec_step (s : sst) (o : op) : sst :=
  match o with
  | OEv ts =>
      match parse_ev ts with
      | None => s
      | Some v =>
          let names := if memB (v_name v) (s_names s) then s_names s else s_names s ++ [v_name v] in
          let m := match v_addr v with
                   | None => sdel (v_name v) (s_map s)
                   | Some a => sset (v_name v) {| m_ip := a; m_exp := v_exp v |} (s_map s)
                   end in
          {| s_now := s_now s; s_map := m; s_names := names; s_lst := s_lst s |}
      end
  | OAdvance dt =>
      let now' := (s_now s + Z.of_N dt)%Z in
      {| s_now := now'; s_map := sweep now' (s_map s); s_names := s_names s; s_lst := s_lst s |}
  | OFind _ => s
  | OAddL l =>
      {| s_now := s_now s; s_map := s_map s; s_names := s_names s;
         s_lst := if memN l (s_lst s) then s_lst s else s_lst s ++ [l] |}
  end.

Definition spec_after (h : list op) : sst := fold_left spec_step h s0.

Definition live (s : sst) (n : bytes) : option mp :=
  match s_map s n with
  | Some m => if due_exp (s_now s) (m_exp m) then None else Some m
  | None => None
  end.

Definition exp_opt (e : sexp) : option Z := match e with XNever => None | XAt t => Some t end.

(* one notification = the same call made on every listener, in registration order *)
Definition added_block (ls : list N) (n ip : bytes) : list obs := map (fun l => EAdded l n ip) ls.
Definition expired_block (ls : list N) (n : bytes) : list obs := map (fun l => EExpired l n) ls.

Definition chunk_eqb (a b : list obs) : bool := list_eqb obs_eqb a b.

Fixpoint nodupB (l : list bytes) : bool :=
  match l with [] => true | x :: l' => negb (memB x l') && nodupB l' end.

(* the names whose expiry the first listener heard in this chunk *)
Definition expired_names (first : N) (es : list obs) : list bytes :=
  flat_map (fun e => match e with EExpired l n => if N.eqb l first then [n] else [] | _ => [] end) es.

(* what must be observed for operation [o] performed in spec state [s] *)
Definition chunk_ok (s : sst) (o : op) (es : list obs) : bool :=
  match o with
  | OEv ts =>
      match parse_ev ts with
      | None => true
      | Some v =>
          let n := v_name v in
          match v_addr v, s_map s n with
          | None, Some _ =>          (* error mapping for a held name: dropped at once, one 'expired' *)
              chunk_eqb es (expired_block (s_lst s) n)
          | None, None =>            (* error mapping for a name not held: nothing, or added-then-expired *)
              match es with
              | [] => true
              | EAdded _ _ ip :: _ => chunk_eqb es (added_block (s_lst s) n ip ++ expired_block (s_lst s) n)
              | _ => false
              end
          | Some a, Some _ => chunk_eqb es []                        (* update: no notification *)
          | Some a, None => chunk_eqb es (added_block (s_lst s) n a)  (* new name: one 'added' *)
          end
      end
  | OAdvance dt =>
      let now' := (s_now s + Z.of_N dt)%Z in
      let expect := filter (due_in now' (s_map s)) (s_names s) in
      match s_lst s with
      | [] => chunk_eqb es []
      | l0 :: _ =>
          let names := expired_names l0 es in
          chunk_eqb es (flat_map (expired_block (s_lst s)) names)
          && nodupB names
          && forallb (fun n => memB n expect) names
          && forallb (fun n => memB n names) expect
      end
  | OFind k =>
      if memB k (s_names s) then
        match live s k with
        | Some m => chunk_eqb es [EFound k (m_ip m) (exp_opt (m_exp m))]
        | None => chunk_eqb es [ENotFound]
        end
      else
        match es with
        | [ENotFound] => true
        | [EFound n ip e] =>
            match live s n with
            | Some m => beqb ip (m_ip m) && oz_eqb e (exp_opt (m_exp m))
            | None => false
            end
        | _ => false
        end
  | OAddL _ => chunk_eqb es []
  end.

Fixpoint oracle_from (s : sst) (h : list op) (tr : list (list obs)) : bool :=
  match h, tr with
  | [], [] => true
  | o :: h', es :: tr' => chunk_ok s o es && oracle_from (spec_step s o) h' tr'
  | _, _ => false
  end.

Definition oracle (h : list op) (tr : list (list obs)) : bool := oracle_from s0 h tr.

(* ---- input classes of the open findings (DESIGN 3.5), mirrored in harness/drive_C20.py ---- *)

(* (C20-F1, an <error> mapping for a name that is not held, was repaired in /repo: a1d3211) *)

(* C20-F2: some string is used both as a name and as a dictionary key for an address
   (the address text, or "<error>") *)
Definition ev_key (v : sev) : bytes := match v_addr v with Some a => a | None => w_ERROR end.
Fixpoint ev_names (h : list op) : list bytes :=
  match h with
  | [] => []
  | OEv ts :: h' => match parse_ev ts with Some v => v_name v :: ev_names h' | None => ev_names h' end
  | _ :: h' => ev_names h'
  end.
Fixpoint ev_addrs (h : list op) : list bytes :=
  match h with
  | [] => []
  | OEv ts :: h' => match parse_ev ts with Some v => ev_key v :: ev_addrs h' | None => ev_addrs h' end
  | _ :: h' => ev_addrs h'
  end.
Definition key_collision (h : list op) : bool :=
  existsb (fun n => memB n (ev_addrs h)) (ev_names h).

(* C20-F3: a lookup while some held mapping has already reached its expiry and no time has passed
   since (the mapping arrived already expired) *)
Definition stale_lookup_op (s : sst) (o : op) : bool :=
  match o with
  | OFind _ => existsb (due_in (s_now s) (s_map s)) (s_names s)
  | _ => false
  end.
Fixpoint stale_lookup_from (s : sst) (h : list op) : bool :=
  match h with
  | [] => false
  | o :: h' => stale_lookup_op s o || stale_lookup_from (spec_step s o) h'
  end.
Definition stale_lookup (h : list op) : bool := stale_lookup_from s0 h.
