(* C20: the address map holds a name exactly until its latest mapping expires.
   Written from the property text and the control-spec grammar of ADDRMAP:
     "650" SP "ADDRMAP" SP Address SP NewAddress SP Expiry [SP Error] [SP GMTExpiry] [SP KEY=VALUE]...
     NewAddress = address / "<error>";  Expiry = DQUOTE ISOTime DQUOTE / "NEVER" (local time);
     GMTExpiry = "EXPIRES=" DQUOTE ISOTime DQUOTE (authoritative when present); the older
     all-positional form  Address NewAddress DQUOTE LocalTime DQUOTE DQUOTE UTCTime DQUOTE  carries the
     UTC expiry as a fourth quoted time: the UTC time is the one that counts, never the local one.
   Independent of Model/ and Gen/.

   Time is counted in ticks of 1/8 second (Z) from a fixed origin.  An ADDRMAP line is handed
   over as its list of tokens (what shlex.split returns); a token is a literal prefix followed
   optionally by one time stamp "%Y-%m-%d %H:%M:%S" (carried as its tick value: the calendar
   conversion is Python's strftime/strptime on both sides and is trusted).

   Listeners may be ACTIVE: a listener carries two scripts (what it does inside addrmap_added and
   inside addrmap_expired): look the name of the callback up, look a fixed key up, feed the map a newer
   mapping for the same name, raise.  A script runs in callbacks made by the map on behalf of Tor or of
   the clock; in callbacks caused by a listener's own feed every listener only records the call.
   What the statement demands inside a callback (decided here, see notes/C20.md):
     - the transition is complete before the first listener hears of it: a lookup made from inside the
       callback is answered as a lookup made right after the operation would be (an expired mapping is
       no longer returned under any key);
     - a mapping fed from inside a callback is an event like any other (a new name is announced to
       every listener, an update is silent, an error mapping for a held name is announced 'expired');
     - every listener hears every transition exactly once, also the listeners registered after one
       that raised. *)
From Coq Require Import List Bool Ascii Arith NArith ZArith Lia.
From TxVerif Require Import Lib.Bytes.
Import ListNotations.
Open Scope N_scope.

Record tok := { t_pre : bytes; t_time : option Z }.

(* the expiry of a mapping fed from inside a callback: never, or whole seconds from the current second *)
Inductive fexp := FNever | FIn (secs : N).

Inductive act :=
| AFindName                       (* find(name of the callback) *)
| AFindKey (k : bytes)            (* find(k) *)
| AFeed (ip : bytes) (x : fexp)   (* update('<name> <ip> ...'): ip may be <error> *)
| ARaise.                         (* raise *)

Record beh := { b_added : list act; b_expired : list act }.

Inductive op :=
| OEv (ts : list tok)      (* one ADDRMAP line (event or address-mappings/all line) *)
| OAdvance (dt : N)        (* dt ticks pass; the reactor runs whatever is due *)
| OFind (k : bytes)        (* AddrMap.find(k) *)
| OAddL (l : N) (b : beh). (* AddrMap.add_listener(listener number l, which behaves as b) *)

Inductive obs :=
| EFound (n ip : bytes) (e : option Z)    (* the Addr found: .name, str(.ip), .expires (None = never) *)
| ENotFound                               (* KeyError *)
| EAdded (l : N) (n ip : bytes)           (* listener l: addrmap_added(addr) with addr.name, str(addr.ip) *)
| EExpired (l : N) (n : bytes)            (* listener l: addrmap_expired(name) *)
| ERaised                                 (* an exception *)
| ESub (e : obs).                         (* e was observed from inside a listener's callback *)

Definition oz_eqb (a b : option Z) : bool := option_eqb Z.eqb a b.

Fixpoint obs_eqb (a b : obs) : bool :=
  match a, b with
  | EFound n i e, EFound n' i' e' => beqb n n' && beqb i i' && oz_eqb e e'
  | ENotFound, ENotFound => true
  | EAdded l n i, EAdded l' n' i' => N.eqb l l' && beqb n n' && beqb i i'
  | EExpired l n, EExpired l' n' => N.eqb l l' && beqb n n'
  | ERaised, ERaised => true
  | ESub x, ESub y => obs_eqb x y
  | _, _ => false
  end.

(* ---- ASCII case ---- *)
Definition lower_a (a : ascii) : ascii :=
  let c := code a in if (65 <=? c) && (c <=? 90) then ch (c + 32) else a.
Definition upper_a (a : ascii) : ascii :=
  let c := code a in if (97 <=? c) && (c <=? 122) then ch (c - 32) else a.
Definition lower (b : bytes) : bytes := map lower_a b.
Definition upper (b : bytes) : bytes := map upper_a b.

Definition str (l : list N) : bytes := map ch l.
Definition w_NEVER : bytes := str [78;69;86;69;82].                       (* NEVER *)
Definition w_ERROR : bytes := str [60;101;114;114;111;114;62].            (* <error> *)
Definition w_EXPIRES : bytes := str [69;88;80;73;82;69;83;61].            (* EXPIRES= *)
Definition w_expires_lc : bytes := str [101;120;112;105;114;101;115;61].  (* expires= *)

(* ---- reading one line (control-spec) ---- *)
Inductive sexp := XNever | XAt (t : Z).
Record sev := { v_name : bytes; v_addr : option bytes (* None = <error> *); v_exp : sexp }.

Definition is_word (t : tok) : bool := match t_time t with None => true | Some _ => false end.
Definition plain_bytes (b : bytes) : bool := negb (memb EQC b) && match b with [] => false | _ => true end.
Definition plain_word (t : tok) : bool :=
  is_word t && negb (memb EQC (t_pre t)) && match t_pre t with [] => false | _ => true end.

(* a keyword argument KEY=VALUE; a key that is "expires" in any other spelling than EXPIRES, or an
   EXPIRES without a time stamp, is outside the envelope *)
Definition kw_ok (t : tok) : bool :=
  memb EQC (t_pre t) &&
  (if prefixb w_expires_lc (lower (t_pre t))
   then beqb (t_pre t) w_EXPIRES && negb (is_word t) else true).

Definition gmt_of (rest : list tok) : list Z :=
  flat_map (fun t => if beqb (t_pre t) w_EXPIRES
                     then match t_time t with Some g => [g] | None => [] end else []) rest.

(* a bare quoted time *)
Definition bare_time (t : tok) : option Z :=
  match t_pre t, t_time t with [], Some g => Some g | _, _ => None end.
(* what follows the Expiry: an optional positional UTC time, then the keyword arguments *)
Definition split_pos (rest : list tok) : option Z * list tok :=
  match rest with
  | d :: r => match bare_time d with Some g => (Some g, r) | None => (None, rest) end
  | [] => (None, [])
  end.

Definition parse_ev (ts : list tok) : option sev :=
  match ts with
  | a :: b :: c :: rest0 =>
      let '(pos, rest) := split_pos rest0 in
      if plain_word a && plain_word b && forallb kw_ok rest then
        let addr := if beqb (t_pre b) w_ERROR then None else Some (t_pre b) in
        match t_time c with
        | None =>
            if beqb (t_pre c) w_NEVER then
              match gmt_of rest, pos with
              | [], None => Some {| v_name := t_pre a; v_addr := addr; v_exp := XNever |}
              | _, _ => None
              end
            else None
        | Some l =>
            match t_pre c with
            | [] =>
                match gmt_of rest, pos with
                | [], None => match rest with      (* local time only: nothing may follow *)
                              | [] => Some {| v_name := t_pre a; v_addr := addr; v_exp := XAt l |}
                              | _ => None
                              end
                | [], Some g => Some {| v_name := t_pre a; v_addr := addr; v_exp := XAt g |}  (* positional UTC *)
                | [g], _ => Some {| v_name := t_pre a; v_addr := addr; v_exp := XAt g |}      (* EXPIRES= *)
                | _, _ => None
                end
            | _ => None
            end
        end
      else None
  | _ => None
  end.

(* ---- what Tor's mappings are: per name, the latest one ---- *)
Record mp := { m_ip : bytes; m_exp : sexp }.
Definition smap := bytes -> option mp.

Definition sset (n : bytes) (v : mp) (m : smap) : smap := fun k => if beqb n k then Some v else m k.
Definition sdel (n : bytes) (m : smap) : smap := fun k => if beqb n k then None else m k.

Definition due_exp (now : Z) (e : sexp) : bool :=
  match e with XNever => false | XAt t => (t <=? now)%Z end.
Definition due_in (now : Z) (m : smap) (n : bytes) : bool :=
  match m n with Some v => due_exp now (m_exp v) | None => false end.

(* s_map holds a name from the event that introduces it until an error mapping for it arrives or
   time passes beyond its expiry ("held"); a mapping whose expiry is already reached when it arrives
   is still held until time next passes (the reactor runs), but it is not LIVE: lookups must fail.
   s_names: every name an event has mentioned so far, in order of first appearance.
   s_lst: the listeners in registration order, each with its behaviour. *)
Record sst := { s_now : Z; s_map : smap; s_names : list bytes; s_lst : list (N * beh) }.

Definition s0 : sst := {| s_now := 0%Z; s_map := fun _ => None; s_names := []; s_lst := [] |}.

Definition memB (k : bytes) (l : list bytes) : bool := existsb (beqb k) l.
Definition memN (k : N) (l : list N) : bool := existsb (N.eqb k) l.
Definition names_add (n : bytes) (l : list bytes) : list bytes := if memB n l then l else l ++ [n].
Definition ids (s : sst) : list N := map fst (s_lst s).

(* one mapping of Tor's arrives *)
Definition ev_step (s : sst) (v : sev) : sst :=
  {| s_now := s_now s;
     s_map := match v_addr v with
              | None => sdel (v_name v) (s_map s)
              | Some a => sset (v_name v) {| m_ip := a; m_exp := v_exp v |} (s_map s)
              end;
     s_names := names_add (v_name v) (s_names s); s_lst := s_lst s |}.

(* which notification it causes *)
Inductive kind := KAdded | KExpired.
Definition ev_kind (s : sst) (v : sev) : option kind :=
  match v_addr v, s_map s (v_name v) with
  | None, Some _ => Some KExpired      (* error mapping for a held name: dropped at once *)
  | Some _, None => Some KAdded        (* new name *)
  | _, _ => None                       (* update of a held name; error mapping for a name not held *)
  end.

(* ---- what a listener's script does to Tor's mappings: only AFeed matters ---- *)
Definition fexp_to (now : Z) (x : fexp) : sexp :=
  match x with FNever => XNever | FIn secs => XAt (8 * (now / 8 + Z.of_N secs))%Z end.
Definition feed_ev (now : Z) (n ip : bytes) (x : fexp) : sev :=
  {| v_name := n; v_addr := if beqb ip w_ERROR then None else Some ip; v_exp := fexp_to now x |}.

Definition act_step (s : sst) (n : bytes) (a : act) : sst :=
  match a with AFeed ip x => ev_step s (feed_ev (s_now s) n ip x) | _ => s end.
Fixpoint script_step (s : sst) (n : bytes) (acts : list act) : sst :=
  match acts with
  | [] => s
  | ARaise :: _ => s                     (* the rest of the script does not run *)
  | a :: r => script_step (act_step s n a) n r
  end.
Definition script_of (k : kind) (b : beh) : list act :=
  match k with KAdded => b_added b | KExpired => b_expired b end.
Definition is_raise (a : act) : bool := match a with ARaise => true | _ => false end.
(* the listeners are called one after the other, each runs its script -- whatever the listeners
   before it did (a listener that raises does not keep the later ones from being called) *)
Fixpoint note_fold (k : kind) (ls : list (N * beh)) (s : sst) (n : bytes) : sst :=
  match ls with
  | [] => s
  | lb :: r => note_fold k r (script_step s n (script_of k (snd lb))) n
  end.
Definition note_step (k : kind) (s : sst) (n : bytes) : sst := note_fold k (s_lst s) s n.

Definition del_name (s : sst) (n : bytes) : sst :=
  {| s_now := s_now s; s_map := sdel n (s_map s); s_names := s_names s; s_lst := s_lst s |}.
(* one name expires: it goes, then the listeners hear of it *)
Definition exp_one (s : sst) (n : bytes) : sst := note_step KExpired (del_name s n) n.
Definition bump_s (s : sst) (dt : N) : sst :=
  {| s_now := (s_now s + Z.of_N dt)%Z; s_map := s_map s; s_names := s_names s; s_lst := s_lst s |}.
Definition due_names (s : sst) : list bytes := filter (due_in (s_now s) (s_map s)) (s_names s).

Definition spec_step (s : sst) (o : op) : sst :=
  match o with
  | OEv ts =>
      match parse_ev ts with
      | None => s
      | Some v =>
          match ev_kind s v with
          | Some k => note_step k (ev_step s v) (v_name v)
          | None => ev_step s v
          end
      end
  | OAdvance dt => let s1 := bump_s s dt in fold_left exp_one (due_names s1) s1
  | OFind _ => s
  | OAddL l b =>
      {| s_now := s_now s; s_map := s_map s; s_names := s_names s;
         s_lst := if memN l (ids s) then s_lst s else s_lst s ++ [(l, b)] |}
  end.

Definition spec_after (h : list op) : sst := fold_left spec_step h s0.

(* ---- what must be observed ---- *)
Definition live (s : sst) (n : bytes) : option mp :=
  match s_map s n with
  | Some m => if due_exp (s_now s) (m_exp m) then None else Some m
  | None => None
  end.

Definition exp_opt (e : sexp) : option Z := match e with XNever => None | XAt t => Some t end.

(* one notification = the same call made on every listener, in registration order *)
Definition added_block (ls : list N) (n ip : bytes) : list obs := map (fun l => EAdded l n ip) ls.
Definition expired_block (ls : list N) (n : bytes) : list obs := map (fun l => EExpired l n) ls.

Definition chunk_eqb (a b : list obs) : bool := list_eqb obs_eqb a b.

Fixpoint nodupB (l : list bytes) : bool :=
  match l with [] => true | x :: l' => negb (memB x l') && nodupB l' end.

(* the names whose expiry the first listener heard in this chunk (calls caused by a feed are ESub) *)
Definition expired_names (first : N) (es : list obs) : list bytes :=
  flat_map (fun e => match e with EExpired l n => if N.eqb l first then [n] else [] | _ => [] end) es.

(* the answer [e] to find(k) in state s.  k a name seen in some event: found iff live, with the latest
   address and expiry.  k not a name: not found, or the mapping returned belongs to a live name and
   carries that name's latest address/expiry (nothing expired is ever returned under any key). *)
Definition find_ok (s : sst) (k : bytes) (e : obs) : bool :=
  if memB k (s_names s) then
    match live s k with
    | Some m => obs_eqb e (EFound k (m_ip m) (exp_opt (m_exp m)))
    | None => obs_eqb e ENotFound
    end
  else
    match e with
    | ENotFound => true
    | EFound n ip x =>
        match live s n with
        | Some m => beqb ip (m_ip m) && oz_eqb x (exp_opt (m_exp m))
        | None => false
        end
    | _ => false
    end.

(* [strip p es]: es without its prefix p *)
Fixpoint strip (p es : list obs) : option (list obs) :=
  match p, es with
  | [], _ => Some es
  | x :: p', y :: es' => if obs_eqb x y then strip p' es' else None
  | _ :: _, [] => None
  end.

(* the calls a mapping fed from inside a callback causes: every listener only records them *)
Definition feed_expect (s : sst) (v : sev) : list obs :=
  match ev_kind s v with
  | Some KExpired => map ESub (expired_block (ids s) (v_name v))
  | Some KAdded => map ESub (added_block (ids s) (v_name v)
                                         (match v_addr v with Some a => a | None => [] end))
  | None => []
  end.

(* a script run for the callback about name n, in state s, reads its observations off the front of es *)
Fixpoint script_ok (s : sst) (n : bytes) (acts : list act) (es : list obs) : option (list obs) :=
  match acts with
  | [] => Some es
  | a :: r =>
      match a with
      | AFindName =>
          match es with ESub e :: es' => if find_ok s n e then script_ok s n r es' else None | _ => None end
      | AFindKey k =>
          match es with ESub e :: es' => if find_ok s k e then script_ok s n r es' else None | _ => None end
      | AFeed ip x =>
          let v := feed_ev (s_now s) n ip x in
          match strip (feed_expect s v) es with
          | Some es' => script_ok (ev_step s v) n r es'
          | None => None
          end
      | ARaise => match es with ESub ERaised :: es' => Some es' | _ => None end
      end
  end.

Definition head_of (k : kind) (l : N) (n ip : bytes) : obs :=
  match k with KAdded => EAdded l n ip | KExpired => EExpired l n end.

(* one transition is announced: every listener hears it once, in registration order, and does what
   its script says *)
Fixpoint notify_ok (k : kind) (ls : list (N * beh)) (s : sst) (n ip : bytes) (es : list obs)
  : option (list obs) :=
  match ls with
  | [] => Some es
  | lb :: ls' =>
      match es with
      | e :: es' =>
          if obs_eqb e (head_of k (fst lb) n ip) then
            match script_ok s n (script_of k (snd lb)) es' with
            | Some es'' => notify_ok k ls' (script_step s n (script_of k (snd lb))) n ip es''
            | None => None
            end
          else None
      | [] => None
      end
  end.

Definition is_nil {A} (l : list A) : bool := match l with [] => true | _ => false end.
Definition all_read (r : option (list obs)) : bool := match r with Some [] => true | _ => false end.

(* time passed: the names in [names] expire one after the other *)
Fixpoint adv_ok (names : list bytes) (s : sst) (es : list obs) : bool :=
  match names with
  | [] => is_nil es
  | n :: r =>
      match notify_ok KExpired (s_lst s) (del_name s n) n [] es with
      | Some es' => adv_ok r (exp_one s n) es'
      | None => false
      end
  end.

(* what must be observed for operation [o] performed in spec state [s] *)
Definition chunk_ok (s : sst) (o : op) (es : list obs) : bool :=
  match o with
  | OEv ts =>
      match parse_ev ts with
      | None => true
      | Some v =>
          let n := v_name v in
          match v_addr v, s_map s n with
          | None, Some _ =>          (* error mapping for a held name: dropped at once, one 'expired' *)
              all_read (notify_ok KExpired (s_lst s) (ev_step s v) n [] es)
          | None, None =>            (* error mapping for a name not held: nothing, or added-then-expired *)
              match es with
              | [] => true
              | EAdded _ _ ip :: _ => chunk_eqb es (added_block (ids s) n ip ++ expired_block (ids s) n)
              | _ => false
              end
          | Some a, Some _ => chunk_eqb es []                        (* update: no notification *)
          | Some a, None =>                                          (* new name: one 'added' *)
              all_read (notify_ok KAdded (s_lst s) (ev_step s v) n a es)
          end
      end
  | OAdvance dt =>
      let s1 := bump_s s dt in
      let expect := due_names s1 in
      match s_lst s with
      | [] => chunk_eqb es []
      | lb0 :: _ =>
          (* exactly the held names whose expiry is reached, each once, in any order *)
          let names := expired_names (fst lb0) es in
          nodupB names
          && forallb (fun n => memB n expect) names
          && forallb (fun n => memB n names) expect
          && adv_ok names s1 es
      end
  | OFind k => match es with [e] => find_ok s k e | _ => false end
  | OAddL _ _ => chunk_eqb es []
  end.

Fixpoint oracle_from (s : sst) (h : list op) (tr : list (list obs)) : bool :=
  match h, tr with
  | [], [] => true
  | o :: h', es :: tr' => chunk_ok s o es && oracle_from (spec_step s o) h' tr'
  | _, _ => false
  end.

Definition oracle (h : list op) (tr : list (list obs)) : bool := oracle_from s0 h tr.

(* ---- the envelope ---- *)
(* a script: mappings are fed only from inside 'expired' callbacks, with a plain address word and an
   expiry that is never or at least one second ahead (a mapping fed already expired from inside the
   callback that announces its expiry would make the clock loop for ever) *)
Definition act_ok (feeds : bool) (a : act) : bool :=
  match a with
  | AFeed ip x => feeds && plain_bytes ip && match x with FNever => true | FIn secs => 1 <=? secs end
  | _ => true
  end.
Definition beh_ok (b : beh) : bool :=
  forallb (act_ok false) (b_added b) && forallb (act_ok true) (b_expired b).

Definition op_in_scope (o : op) : bool :=
  match o with
  | OEv ts => match parse_ev ts with Some _ => true | None => false end
  | OAddL _ b => beh_ok b
  | _ => true
  end.
Definition in_scope (h : list op) : bool := forallb op_in_scope h.

(* ---- input classes of the open findings (DESIGN 3.5), mirrored in harness/drive_C20.py ---- *)

(* (C20-F1, an <error> mapping for a name that is not held, was repaired in /repo: a1d3211) *)

(* C20-F2: some string is used both as a name and as a dictionary key for an address
   (the address text, or "<error>"), in an event or in a listener's script *)
Definition ev_key (v : sev) : bytes := match v_addr v with Some a => a | None => w_ERROR end.
Definition feed_keys (acts : list act) : list bytes :=
  flat_map (fun a => match a with AFeed ip _ => [ip] | _ => [] end) acts.
Definition beh_keys (b : beh) : list bytes := feed_keys (b_added b) ++ feed_keys (b_expired b).
Fixpoint ev_names (h : list op) : list bytes :=
  match h with
  | [] => []
  | OEv ts :: h' => match parse_ev ts with Some v => v_name v :: ev_names h' | None => ev_names h' end
  | _ :: h' => ev_names h'
  end.
Fixpoint ev_addrs (h : list op) : list bytes :=
  match h with
  | [] => []
  | OEv ts :: h' => match parse_ev ts with Some v => ev_key v :: ev_addrs h' | None => ev_addrs h' end
  | OAddL _ b :: h' => beh_keys b ++ ev_addrs h'
  | _ :: h' => ev_addrs h'
  end.
Definition key_collision (h : list op) : bool :=
  existsb (fun n => memB n (ev_addrs h)) (ev_names h).

(* C20-F3: a lookup (by the caller, or from inside a callback) while some held mapping has already
   reached its expiry and its turn to be dropped has not come: the mapping arrived already expired and
   no time has passed since, or several mappings fall due in the same advance of the clock and a
   listener looks a key up while the first ones are announced *)
Definition any_due (s : sst) : bool := existsb (due_in (s_now s) (s_map s)) (s_names s).
Definition is_lookup (a : act) : bool := match a with AFindName | AFindKey _ => true | _ => false end.
Definition lst_lookup (k : kind) (s : sst) : bool :=
  existsb (fun lb => existsb is_lookup (script_of k (snd lb))) (s_lst s).
Definition stale_lookup_op (s : sst) (o : op) : bool :=
  match o with
  | OFind _ => any_due s
  | OEv ts =>
      match parse_ev ts with
      | Some v => match ev_kind s v with
                  | Some k => lst_lookup k s && any_due (ev_step s v)
                  | None => false
                  end
      | None => false
      end
  | OAdvance dt => lst_lookup KExpired s && (2 <=? N.of_nat (length (due_names (bump_s s dt))))
  | OAddL _ _ => false
  end.
Fixpoint stale_lookup_from (s : sst) (h : list op) : bool :=
  match h with
  | [] => false
  | o :: h' => stale_lookup_op s o || stale_lookup_from (spec_step s o) h'
  end.
Definition stale_lookup (h : list op) : bool := stale_lookup_from s0 h.

(* (C20-F4, a raising listener starved the listeners registered after it, was repaired in /repo:
   a2f579a; AddrMap.notify logs the exception and goes on) *)

(* ---- not a finding class: histories in which no listener feeds the map (used by the theorems about
   what a lookup returns right after an event: a listener that feeds a newer mapping from inside the
   callback changes that, rightly) ---- *)
Fixpoint feedless (h : list op) : bool :=
  match h with
  | [] => true
  | OAddL _ b :: h' => is_nil (beh_keys b) && feedless h'
  | _ :: h' => feedless h'
  end.
