(* C04: authentication order, method preference and SAFECOOKIE proof discipline.
   Written from the property text and control-spec sections 3.5 (AUTHENTICATE), 3.21
   (PROTOCOLINFO), 3.24 (AUTHCHALLENGE). Independent of Model/ and Gen/.
   Part 1: inputs, observations, the command grammar, Tor's escaping of COOKIEFILE. *)
From Coq Require Import List Bool Ascii Arith NArith Lia String.
From TxVerif Require Import Lib.Bytes Lib.Hex.
Import ListNotations.
Open Scope N_scope.

Definition s (x : string) : bytes := list_ascii_of_string x.

(* ---- inputs ---- *)
Inductive fcond := FAbsent | FUnreadable | FData (d : bytes).

Inductive provider :=
| PNone                         (* no password function *)
| PRetNone                      (* returns None *)
| PValue (pw : bytes)           (* returns a value (empty allowed) *)
| PLater (pw : option bytes)    (* returns a Deferred (or a coroutine awaiting one), fired later *)
| PCoro (pw : bytes)            (* an `async def` returning at once *)
| PRaises.                      (* raises *)

(* what PROTOCOLINFO says: is there an AUTH line, its METHODS, the TRUE path of the cookie
   file (on the wire it is esc_for_log of this path, in quotes) *)
Record protoinfo := { pi_auth : bool; pi_methods : list bytes; pi_cookiefile : option bytes }.

(* the AUTHCHALLENGE reply: text after SERVERHASH= / SERVERNONCE= (None = key missing) *)
Record challenge := { ch_hash : option bytes; ch_nonce : option bytes }.

Inductive payload :=
| DNone                        (* "250 OK" *)
| DProto                       (* the PROTOCOLINFO reply built from e_pi *)
| DChal (c : challenge)        (* "250 AUTHCHALLENGE SERVERHASH=.. SERVERNONCE=.." *)
| DInfo (key : bytes).         (* "250-key=value / 250 OK" *)

Inductive op :=
| OOk (d : payload)            (* a 250 reply to the command in flight *)
| OErr (code : N)              (* a 5xx reply to the command in flight *)
| OLose                        (* the connection is lost *)
| OPwFire.                     (* the deferred password arrives *)

Record env := { e_pi : protoinfo; e_fs : list (bytes * fcond); e_provider : provider;
                e_nonce : bytes;        (* what os.urandom(32) returns *)
                e_cmpkey : bytes }.     (* util.CRYPTOVARIABLE_EQUALITY_COMPARISON_NONCE (model only) *)

(* ---- observations ---- *)
Inductive outcome := ROk | ROkOther | RFail (kind code : N).
(* kind: 1 RuntimeError, 2 TorProtocolError code, 3 TorDisconnectError, 4 KeyError,
         5 ValueError/binascii.Error, 6 AlreadyCalledError, 9 other *)
Inductive ev :=
| EWrote (b : bytes)           (* one transport.write *)
| EPwCall                      (* the password provider was called *)
| EReady (o : outcome)         (* post_bootstrap.callback / .errback was invoked *)
| ERaised (kind code : N)      (* an exception escaped to the transport *)
| ELoseConn
| ENoPending.

Definition outcome_eqb (a b : outcome) : bool :=
  match a, b with
  | ROk, ROk | ROkOther, ROkOther => true
  | RFail k c, RFail k' c' => (k =? k') && (c =? c')
  | _, _ => false
  end.

Definition ev_eqb (a b : ev) : bool :=
  match a, b with
  | EWrote x, EWrote y => beqb x y
  | EPwCall, EPwCall | ELoseConn, ELoseConn | ENoPending, ENoPending => true
  | EReady x, EReady y => outcome_eqb x y
  | ERaised k c, ERaised k' c' => (k =? k') && (c =? c')
  | _, _ => false
  end.

(* ---- constants of the protocol ---- *)
Definition CRLF : bytes := [CR; LF].
Definition K_SAFECOOKIE := s "SAFECOOKIE".
Definition K_COOKIE := s "COOKIE".
Definition K_HASHEDPASSWORD := s "HASHEDPASSWORD".
Definition K_NULL := s "NULL".
Definition SERVER_KEY := s "Tor safe cookie authentication server-to-controller hash".
Definition CLIENT_KEY := s "Tor safe cookie authentication controller-to-server hash".
Definition W_PROTOCOLINFO := s "PROTOCOLINFO".
Definition W_AUTHCHALLENGE := s "AUTHCHALLENGE SAFECOOKIE ".
Definition W_AUTHENTICATE := s "AUTHENTICATE".
Definition W_GETINFO := s "GETINFO ".
Definition W_USEFEATURE := s "USEFEATURE EXTENDED_EVENTS".
Definition I_SIGNAL := s "signal/names".
Definition I_VERSION := s "version".
Definition I_EVENTS := s "events/names".

(* ---- the commands a controller may write, read back from the bytes on the wire ---- *)
Inductive cmd :=
| CProtoInfo
| CChal (nonce : bytes)
| CAuth (arg : option bytes)       (* decoded hex argument; None = no argument *)
| CGetInfo (key : bytes)
| CUseFeature
| COther.

Definition strip_prefix (p l : bytes) : option bytes :=
  if prefixb p l then Some (skipn (List.length p) l) else None.

(* l = x ++ CRLF *)
Definition strip_crlf (l : bytes) : option bytes :=
  match rev l with
  | b :: a :: r => if Ascii.eqb a CR && Ascii.eqb b LF then Some (rev r) else None
  | _ => None
  end.

Definition parse_body (l : bytes) : cmd :=
  if beqb l W_PROTOCOLINFO || beqb l (W_PROTOCOLINFO ++ s " 1") then CProtoInfo else
  match strip_prefix W_AUTHCHALLENGE l with
  | Some h => match unhex_ci h with Some n => CChal n | None => COther end
  | None =>
  match strip_prefix W_AUTHENTICATE l with
  | Some [] => CAuth None
  | Some (c :: h) => if Ascii.eqb c SP then
                       match unhex_ci h with Some a => CAuth (Some a) | None => COther end
                     else COther
  | None =>
  match strip_prefix W_GETINFO l with
  | Some k => CGetInfo k
  | None => if beqb l W_USEFEATURE then CUseFeature else COther
  end end end.

Definition parse_line (l : bytes) : cmd :=
  match strip_crlf l with Some b => parse_body b | None => COther end.

(* ---- Tor's esc_for_log (src/lib/log/escape.c): how the COOKIEFILE path is quoted ---- *)
Definition octal3 (n : N) : bytes := [ch (48 + n / 64); ch (48 + (n / 8) mod 8); ch (48 + n mod 8)].

Definition esc_char (a : ascii) : bytes :=
  let c := code a in
  if (c =? 92) || (c =? 34) then [BSL; a]
  else if c =? 10 then [BSL; ch 110]
  else if c =? 9 then [BSL; ch 116]
  else if c =? 13 then [BSL; ch 114]
  else if (32 <=? c) && (c <? 127) then [a]
  else BSL :: octal3 c.

Definition esc_for_log (p : bytes) : bytes := flat_map esc_char p.

(* input class of former finding C04-F1 (repaired): the cookie path has a byte >= 128 *)
Definition high_byte (p : bytes) : bool := existsb (fun a => 128 <=? code a) p.
Definition cookie_path_high (e : env) : bool :=
  match pi_cookiefile (e_pi e) with Some p => high_byte p | None => false end.

(* ---- Part 2: which method must be used ---- *)
Fixpoint lookup (p : bytes) (fs : list (bytes * fcond)) : fcond :=
  match fs with
  | [] => FAbsent
  | (q, c) :: fs' => if beqb p q then c else lookup p fs'
  end.

Inductive method := MSafe | MCookie | MPassword | MNull.
Inductive pwans := PwNow (pw : option bytes) | PwDeferred.
Definition nonempty (pw : bytes) : option bytes := match pw with [] => None | _ => Some pw end.

Section Choice.
  Variable e : env.
  Definition adv (name : bytes) : bool :=
    pi_auth (e_pi e) && existsb (beqb name) (pi_methods (e_pi e)).
  Definition cookie_advertised : bool := adv K_SAFECOOKIE || adv K_COOKIE.
  (* a cookie method is usable: advertised, COOKIEFILE given, file readable, exactly 32 bytes *)
  Definition good_cookie : option bytes :=
    if cookie_advertised then
      match pi_cookiefile (e_pi e) with
      | Some p => match lookup p (e_fs e) with
                  | FData d => if nlen d =? 32 then Some d else None
                  | _ => None
                  end
      | None => None
      end
    else None.
  Definition has_provider : bool := match e_provider e with PNone => false | _ => true end.
  (* SAFECOOKIE before COOKIE before password before NULL, among what is advertised and usable *)
  Definition expected : option method :=
    match good_cookie with
    | Some _ => if adv K_SAFECOOKIE then Some MSafe else Some MCookie
    | None => if adv K_HASHEDPASSWORD && has_provider then Some MPassword
              else if adv K_NULL then Some MNull else None
    end.
  (* the client may decline to authenticate at all: nothing usable, or a cookie method is
     advertised but its cookie cannot be used (refusing to downgrade is not a violation) *)
  Definition may_give_up : bool :=
    match expected with
    | None => true
    | Some MSafe | Some MCookie => false
    | Some _ => cookie_advertised
    end.
  Definition provider_answer : pwans :=
    match e_provider e with
    | PNone | PRetNone | PRaises => PwNow None
    | PValue pw | PCoro pw => PwNow (nonempty pw)
    | PLater _ => PwDeferred
    end.
  Definition later_pw : option bytes :=
    match e_provider e with PLater (Some pw) => nonempty pw | _ => None end.
  (* former finding C04-F1: a usable cookie whose path has a byte >= 128 *)
  Definition high_path_valid_cookie : bool :=
    cookie_path_high e && match good_cookie with Some _ => true | None => false end.
End Choice.
