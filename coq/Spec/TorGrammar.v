(* Tor's control-port argument grammar as the SERVER reads it: the "kvline" parser that Tor
   (src/lib/encoding/kvline.c, flags KV_OMIT_VALS|KV_QUOTED as used for SETCONF) applies to the
   arguments of a command, and the C-style quoted string reader (src/lib/encoding/cstring.c,
   unescape_string).  Written from Tor's grammar, not from txtorcon; imports nothing from
   Model/ or Gen/.

   The parser is a byte-at-a-time automaton (fold of [kstep]) so that reading a concatenation
   is [fold_left_app].

     items are separated by runs of the characters  SP TAB CR VT LF   (kvline.c: " \t\r\v\n")
     item     = key | key "=" | key "=" bare | key "=" quoted
     key      = 1*(any char except the separators and "=")      (not starting with a quote)
     bare     = 1*(any char except the separators), not starting with a quote
     quoted   = DQ *( char-except DQ BSL LF NUL | escape ) DQ
     escape   = BSL ( "n" | "r" | "t" | DQ | BSL | "'" | 1*3 octal-digit | ("x"|"X") 2 hex-digit )
   a NUL anywhere (raw or produced by an escape) makes the line unreadable (C strings).
   After the loop Tor refuses the whole line if a key "needs escaping" ([tor_key_ok]). *)
From Coq Require Import List Bool Ascii NArith.
From TxVerif Require Import Lib.Bytes.
Import ListNotations.
Open Scope N_scope.

Definition NUL : ascii := ch 0.
Definition VT : ascii := ch 11.
Definition SQ : ascii := ch 39.

(* kvline.c: strspn(cp, " \t\r\v\n") *)
Definition is_kws (c : ascii) : bool :=
  Ascii.eqb c SP || Ascii.eqb c TAB || Ascii.eqb c CR || Ascii.eqb c VT || Ascii.eqb c LF.

Definition is_odigit (c : ascii) : bool := (48 <=? code c) && (code c <=? 55).
Definition hexval (c : ascii) : option N :=
  let n := code c in
  if (48 <=? n) && (n <=? 57) then Some (n - 48)
  else if (65 <=? n) && (n <=? 70) then Some (n - 55)
  else if (97 <=? n) && (n <=? 102) then Some (n - 87)
  else None.

Definition kv := (bytes * bytes)%type.

Inductive kmode :=
| KSkip                                   (* between items *)
| KKey (k : bytes)                        (* reading a key; k reversed *)
| KVal0 (k : bytes)                       (* just after "=" *)
| KBare (k v : bytes)                     (* bare value; v reversed *)
| KQ (k v : bytes)                        (* inside quotes; v reversed *)
| KEsc (k v : bytes)                      (* after a backslash *)
| KOct (k v : bytes) (n : N) (cnt : nat)  (* octal escape, cnt digits read *)
| KHex (k v : bytes) (d : option N)       (* \x, first digit read or not *)
| KFail.

Definition kstate := (list kv * kmode)%type.   (* items reversed *)

Definition kquoted (items : list kv) (k v : bytes) (c : ascii) : kstate :=
  if Ascii.eqb c DQ then ((k, rev v) :: items, KSkip)
  else if Ascii.eqb c BSL then (items, KEsc k v)
  else if Ascii.eqb c LF then (items, KFail)
  else (items, KQ k (c :: v)).

Definition kstep (st : kstate) (c : ascii) : kstate :=
  let '(items, m) := st in
  if Ascii.eqb c NUL then (items, KFail) else
  match m with
  | KFail => st
  | KSkip => if is_kws c then st
             else if Ascii.eqb c DQ then (items, KFail)          (* keyless value: not allowed *)
             else if Ascii.eqb c EQC then (items, KFail)         (* empty key *)
             else (items, KKey [c])
  | KKey k => if is_kws c then ((rev k, []) :: items, KSkip)
              else if Ascii.eqb c EQC then (items, KVal0 (rev k))
              else (items, KKey (c :: k))
  | KVal0 k => if Ascii.eqb c DQ then (items, KQ k [])
               else if is_kws c then ((k, []) :: items, KSkip)
               else (items, KBare k [c])
  | KBare k v => if is_kws c then ((k, rev v) :: items, KSkip) else (items, KBare k (c :: v))
  | KQ k v => kquoted items k v c
  | KEsc k v =>
      let n := code c in
      if n =? 110 then (items, KQ k (LF :: v))            (* \n *)
      else if n =? 114 then (items, KQ k (CR :: v))       (* \r *)
      else if n =? 116 then (items, KQ k (TAB :: v))      (* \t *)
      else if Ascii.eqb c DQ || Ascii.eqb c BSL || Ascii.eqb c SQ then (items, KQ k (c :: v))
      else if (n =? 120) || (n =? 88) then (items, KHex k v None)
      else if is_odigit c then (items, KOct k v (n - 48) 1)
      else (items, KFail)
  | KOct k v n cnt =>
      if is_odigit c && Nat.ltb cnt 3 then (items, KOct k v (n * 8 + (code c - 48)) (S cnt))
      else if (255 <? n) || (n =? 0) then (items, KFail)
      else kquoted items k (ch n :: v) c
  | KHex k v None => match hexval c with Some d => (items, KHex k v (Some d)) | None => (items, KFail) end
  | KHex k v (Some d1) =>
      match hexval c with
      | Some d2 => if d1 * 16 + d2 =? 0 then (items, KFail) else (items, KQ k (ch (d1 * 16 + d2) :: v))
      | None => (items, KFail)
      end
  end.

Definition krun (st : kstate) (l : bytes) : kstate := fold_left kstep l st.

Definition kfinish (st : kstate) : option (list kv) :=
  let '(items, m) := st in
  match m with
  | KSkip => Some (rev items)
  | KKey k => Some (rev ((rev k, []) :: items))
  | KVal0 k => Some (rev ((k, []) :: items))
  | KBare k v => Some (rev ((k, rev v) :: items))
  | _ => None
  end.

(* the loop of kvline_parse *)
Definition parse_kvline (l : bytes) : option (list kv) := kfinish (krun ([], KSkip) l).

(* kvline_can_encode_lines / needs_escape(key, as_keyless_val = true): Tor refuses the whole
   line when a key is empty or has a character outside 33..126 or is a single quote, a double quote or an equals sign *)
Definition tor_key_char (c : ascii) : bool :=
  (32 <? code c) && (code c <? 127) && negb (Ascii.eqb c SQ || Ascii.eqb c DQ || Ascii.eqb c EQC).
Definition tor_key_ok (k : bytes) : bool :=
  match k with [] => false | _ => forallb tor_key_char k end.

Definition parse_kvline_strict (l : bytes) : option (list kv) :=
  match parse_kvline l with
  | Some kvs => if forallb (fun p => tor_key_ok (fst p)) kvs then Some kvs else None
  | None => None
  end.

(* a command line (without its CRLF) = command word, then the arguments *)
Definition command_args (word line : bytes) : option bytes :=
  if prefixb word line then
    match skipn (length word) line with
    | [] => Some []
    | c :: rest => if is_kws c then Some (c :: rest) else None
    end
  else None.

(* ---- what "exactly one command line" means for one transport write ---- *)
Definition no_crlf (l : bytes) : bool := negb (memb CR l) && negb (memb LF l).

(* Some body when [w] = body ++ CR LF and body has no CR and no LF *)
Definition one_line (w : bytes) : option bytes :=
  match rev w with
  | l :: c :: rbody =>
      if Ascii.eqb l LF && Ascii.eqb c CR && no_crlf rbody then Some (rev rbody) else None
  | _ => None
  end.

(* ---- positional arguments: tokens separated by runs of the kvline separators ---- *)
Definition wstep (st : list bytes * bytes) (c : ascii) : list bytes * bytes :=
  let '(toks, cur) := st in
  if is_kws c then match cur with [] => (toks, []) | _ => (rev cur :: toks, []) end
  else (toks, c :: cur).

Definition split_ws (l : bytes) : list bytes :=
  let '(toks, cur) := fold_left wstep l ([], []) in
  rev (match cur with [] => toks | _ => rev cur :: toks end).
