(* What Tor does with a SETCONF line and what its configuration means to a reader, written from
   control-spec (sections 2.1.1 QuotedString, 3.1 SETCONF, 3.3 GETCONF, 4.1.18 CONF_CHANGED) and
   from the property texts of C10 / C11:
     - the kvline grammar of a SETCONF command (keys, bare and quoted values, C escapes);
     - a simulated configuration store: all occurrences of a key in one command replace the
       option, a key without value (or with an empty value) clears it;
     - the declared option types of GETINFO config/names and the value each type denotes
       (booleans, integers, floats, comma lists, line lists, port lists; anything else a string);
     - the view a controller is expected to report for an option: the stored value parsed by
       the declared type, or the default when unset.
   Independent of Model/ and Gen/. *)
From Coq Require Import String.
From Coq Require Import List Bool Ascii Arith NArith ZArith Lia.
From TxVerif Require Import Lib.Bytes Lib.CfgLib Spec.CfgTypes.
Import ListNotations.
Open Scope N_scope.

(* ------------------------------------------------------------------ kvline grammar *)
Definition entry := (bytes * option bytes)%type.       (* key, value; None = bare keyword *)

Inductive pst :=
| PSep                                     (* between items *)
| PKey (k : bytes)                         (* key so far, reversed *)
| PVal0 (k : bytes)                        (* just after '=' *)
| PBare (k v : bytes)                      (* bare value so far, reversed *)
| PQuoted (k v : bytes)
| PEsc (k v : bytes)                       (* after a backslash inside quotes *)
| POct (k v : bytes) (acc : N) (n : nat)   (* \ooo *)
| PHex (k v : bytes) (acc : N) (n : nat)   (* \xhh *)
| PAfterQ (k v : bytes)                    (* after the closing quote *)
| PFail.

Definition is_octal (c : ascii) : bool := (48 <=? code c) && (code c <=? 55).
Definition hex_val (c : ascii) : option N :=
  let x := code c in
  if (48 <=? x) && (x <=? 57) then Some (x - 48)
  else if (97 <=? x) && (x <=? 102) then Some (x - 87)
  else if (65 <=? x) && (x <=? 70) then Some (x - 55)
  else None.

Definition quoted_step (k v : bytes) (c : ascii) : pst :=
  if Ascii.eqb c DQ then PAfterQ k v
  else if Ascii.eqb c BSL then PEsc k v
  else PQuoted k (c :: v).

(* one character; [out] collects finished entries in reverse *)
Definition kv_step (s : pst * list entry) (c : ascii) : pst * list entry :=
  let '(st, out) := s in
  match st with
  | PFail => (PFail, out)
  | PSep =>
      if Ascii.eqb c SP then (PSep, out)
      else if Ascii.eqb c EQC || Ascii.eqb c DQ then (PFail, out)
      else (PKey [c], out)
  | PKey k =>
      if Ascii.eqb c SP then (PSep, (rev k, None) :: out)
      else if Ascii.eqb c EQC then (PVal0 k, out)
      else if Ascii.eqb c DQ then (PFail, out)
      else (PKey (c :: k), out)
  | PVal0 k =>
      if Ascii.eqb c DQ then (PQuoted k [], out)
      else if Ascii.eqb c SP then (PSep, (rev k, Some []) :: out)
      else (PBare k [c], out)
  | PBare k v =>
      if Ascii.eqb c SP then (PSep, (rev k, Some (rev v)) :: out)
      else (PBare k (c :: v), out)
  | PQuoted k v => (quoted_step k v c, out)
  | PEsc k v =>
      if Ascii.eqb c (ch 110) then (PQuoted k (LF :: v), out)
      else if Ascii.eqb c (ch 114) then (PQuoted k (CR :: v), out)
      else if Ascii.eqb c (ch 116) then (PQuoted k (TAB :: v), out)
      else if Ascii.eqb c (ch 120) then (PHex k v 0 O, out)
      else if is_octal c then (POct k v (code c - 48) 1, out)
      else (PQuoted k (c :: v), out)
  | POct k v acc n =>
      if is_octal c && Nat.ltb n 3 then (POct k v (acc * 8 + (code c - 48)) (S n), out)
      else if 255 <? acc then (PFail, out)
      else (quoted_step k (ch acc :: v) c, out)
  | PHex k v acc n =>
      match hex_val c with
      | Some d => if Nat.ltb n 2 then (PHex k v (acc * 16 + d) (S n), out)
                  else (quoted_step k (ch acc :: v) c, out)
      | None => match n with
                | O => (PFail, out)
                | _ => (quoted_step k (ch acc :: v) c, out)
                end
      end
  | PAfterQ k v =>
      if Ascii.eqb c SP then (PSep, (rev k, Some (rev v)) :: out)
      else (PFail, out)
  end.

Definition kv_finish (s : pst * list entry) : option (list entry) :=
  let '(st, out) := s in
  match st with
  | PSep => Some (rev out)
  | PKey k => Some (rev ((rev k, None) :: out))
  | PVal0 k => Some (rev ((rev k, Some []) :: out))
  | PBare k v | PAfterQ k v => Some (rev ((rev k, Some (rev v)) :: out))
  | _ => None
  end.

Definition parse_kvs (b : bytes) : option (list entry) := kv_finish (fold_left kv_step b (PSep, [])).

Definition SETCONF_word : bytes := bs "SETCONF".

(* the arguments of a SETCONF command line (without CRLF); None = not a well-formed SETCONF *)
Definition parse_setconf (line : bytes) : option (list entry) :=
  if prefixb SETCONF_word line then
    match skipn (length SETCONF_word) line with
    | [] => Some []
    | c :: rest => if Ascii.eqb c SP then parse_kvs rest else None
    end
  else None.

(* ------------------------------------------------------------------ declared types *)
Inductive kind := KBool | KBoolAuto | KInt | KFloat | KStr | KComma | KLine
| KPorts.     (* a port list announced by a <X>PortLines row: a list of lines *)

Definition kind_eqb (a b : kind) : bool :=
  match a, b with
  | KBool, KBool | KBoolAuto, KBoolAuto | KInt, KInt | KFloat, KFloat | KStr, KStr
  | KComma, KComma | KLine, KLine | KPorts, KPorts => true
  | _, _ => false
  end.

Definition is_list_kind (k : kind) : bool := match k with KComma | KLine | KPorts => true | _ => false end.

(* the type column of GETINFO config/names.
   None: not a type name Tor prints; Some None: the row carries no value of its own
   (Dependent / Virtual rows describe groups of lines) *)
Definition kind_of_type (t : bytes) : option (option kind) :=
  if beqb t (bs "Boolean") then Some (Some KBool)
  else if beqb t (bs "Boolean+Auto") then Some (Some KBoolAuto)
  else if beqb t (bs "Integer") || beqb t (bs "SignedInteger") || beqb t (bs "Port")
          || beqb t (bs "TimeInterval") || beqb t (bs "DataSize") then Some (Some KInt)
  else if beqb t (bs "Float") then Some (Some KFloat)
  else if beqb t (bs "String") || beqb t (bs "Filename") || beqb t (bs "Time")
          || beqb t (bs "TimeMsecInterval") then Some (Some KStr)
  else if beqb t (bs "CommaList") || beqb t (bs "RouterList")
          || beqb t (bs "TimeIntervalCommaList") then Some (Some KComma)
  else if beqb t (bs "LineList") then Some (Some KLine)
  else if beqb t (bs "Dependant") || beqb t (bs "Dependent") || beqb t (bs "Virtual") then Some None
  else None.

Definition PortLines_suffix : bytes := bs "PortLines".

(* the options a table announces, in table order: a row "<X>PortLines" announces the port-list
   option <X>Port (a list of lines); every row with a value type announces itself *)
Fixpoint options (table : list (bytes * bytes)) : list (bytes * kind) :=
  match table with
  | [] => []
  | (n, t) :: rest =>
      (if suffixb PortLines_suffix n then [(drop_last 5 n, KPorts)] else [])
      ++ match kind_of_type t with Some (Some k) => [(n, k)] | _ => [] end
      ++ options rest
  end.

(* ------------------------------------------------------------------ values *)
Definition DEFAULT_word : bytes := bs "DEFAULT".     (* txtorcon.DEFAULT_VALUE (public API) *)
Definition auto_word : bytes := bs "auto".

Fixpoint strip_zeros (b : bytes) : bytes :=
  match b with
  | c :: r => if Ascii.eqb c (ch 48) then strip_zeros r else b
  | [] => []
  end.
Definition all_digits (b : bytes) : bool := forallb is_digit b.
Definition norm_int_part (b : bytes) : bytes :=
  match strip_zeros b with [] => [ch 48] | r => r end.
Definition norm_frac_part (b : bytes) : bytes :=
  match rev (strip_zeros (rev b)) with [] => [ch 48] | r => r end.

(* the repr() of the float a short plain decimal denotes: "<int>.<frac>"; None outside
   1..6 integer digits and 0..3 fraction digits (no sign, no exponent) *)
Definition float_canon (s : bytes) : option bytes :=
  match split_on DOT s with
  | [i] =>
      if all_digits i && Nat.leb 1 (length i) && Nat.leb (length i) 6
      then Some (norm_int_part i ++ [DOT; ch 48]) else None
  | [i; f] =>
      if all_digits i && Nat.leb 1 (length i) && Nat.leb (length i) 6
         && all_digits f && Nat.leb 1 (length f) && Nat.leb (length f) 3
      then Some (norm_int_part i ++ [DOT] ++ norm_frac_part f) else None
  | _ => None
  end.

(* the Python value a scalar option of kind [k] with stored text [v] reads as *)
Definition parse_scalar (k : kind) (v : bytes) : option atom :=
  match k with
  | KBool => option_map (fun z => ABool (negb (Z.eqb z 0))) (parse_int v)
  | KBoolAuto =>
      if beqb v auto_word then Some (AInt (-1))
      else option_map (fun z => AInt (if (z <? 0)%Z then (-1)%Z else if Z.eqb z 0 then 0%Z else 1%Z))
                      (parse_int v)
  | KInt => option_map AInt (parse_int v)
  | KFloat => option_map AFloat (float_canon v)
  | KStr => Some (AStr v)
  | KComma | KLine | KPorts => None
  end.

Definition split_comma (s : bytes) : list bytes := map strip (split_on COMMA s).

(* ------------------------------------------------------------------ the store *)
Definition store := list (bytes * list bytes).

Definition store_get (st : store) (cn : bytes) : list bytes :=
  match dget cn st with Some l => l | None => [] end.

(* Tor's canonical spelling of an option name *)
Definition canon (opts : list (bytes * kind)) (name : bytes) : bytes :=
  match dfind_ci name opts with Some (cn, _) => cn | None => name end.

Definition values_of_key (k : bytes) (es : list entry) : list bytes :=
  concat (map (fun e : entry =>
                 if ci_eqb (fst e) k
                 then match snd e with Some (c :: r) => [c :: r] | _ => [] end
                 else []) es).

(* SETCONF / CONF_CHANGED: every key mentioned is replaced by the values given for it *)
Definition apply_entries (opts : list (bytes * kind)) (st : store) (es : list entry) : store :=
  fold_left (fun s (e : entry) => dset (canon opts (fst e)) (values_of_key (fst e) es) s) es st.

(* ------------------------------------------------------------------ the expected view *)
Definition default_lines (defaults : option (list (bytes * bytes))) (cn : bytes) : list bytes :=
  match defaults with
  | None => []
  | Some ls => concat (map (fun l : bytes * bytes => if beqb (fst l) cn then [snd l] else []) ls)
  end.

(* a value that is the empty string is a cleared option, like an unset one (control-spec 3.1) *)
Definition nonempty_values (vals : list bytes) : list bytes :=
  filter (fun v => match v with [] => false | _ => true end) vals.

Definition typed_value (k : kind) (vals0 dls : list bytes) : option rval :=
  let vals := nonempty_values vals0 in
  match k with
  | KLine | KPorts => Some (RList true (map strip (match vals with [] => dls | _ => vals end)))
  | KComma => Some (RList true (concat (map split_comma (match vals with [] => dls | _ => vals end))))
  | _ =>
      match vals with
      | v :: _ => option_map RAtom (parse_scalar k v)
      | [] => match dls with
              | d :: _ => option_map RAtom (parse_scalar k d)
              | [] => Some (RAtom (AStr DEFAULT_word))
              end
      end
  end.

Definition typed_read (opts : list (bytes * kind)) (defaults : option (list (bytes * bytes)))
           (st : store) (name : bytes) : option rval :=
  match dfind_ci name opts with
  | None => None
  | Some (cn, k) => typed_value k (store_get st cn) (default_lines defaults cn)
  end.
