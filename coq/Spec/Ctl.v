(* Control connection: operations, observations and reply items shared by C01, C02, C03, C13.
   The reply grammar is control-spec section 2.3:
     Reply = *(MidReplyLine / DataReplyLine) EndReplyLine
     MidReplyLine = StatusCode "-" ReplyLine ; DataReplyLine = StatusCode "+" ReplyLine CmdData
     EndReplyLine = StatusCode SP ReplyLine ; CmdData = *DataLine "." CRLF  (dot-stuffed)
   Independent of Model/ and Gen/. *)
From Coq Require Import List Bool Ascii Arith NArith Lia.
From TxVerif Require Import Lib.Bytes.
Import ListNotations.
Open Scope N_scope.

(* ---- commands, scripts, operations ---- *)
Record lcmd := { cid : N; ctext : bytes; ccb : bool }.    (* ccb: submitted through get_info_incremental *)
Inductive sop :=
| SSubmit (c : lcmd)
| SAdd (name : bytes) (lid : N) (c : N)       (* c: id given to the SETEVENTS command, if one is sent *)
| SRem (name : bytes) (lid : N) (c : N).
Record cmd := { cl : lcmd; cscript : list sop }.   (* cscript runs when the command's Deferred fires *)
Inductive lbeh := LPlain | LRaises | LRemoves (rs : list (bytes * N * N)).
Inductive op :=
| OSubmit (c : cmd)
| ORecv (chunk : bytes)
| OLose
| OAdd (name : bytes) (lid : N) (c : N)
| ORem (name : bytes) (lid : N) (c : N)
| OWhenDisc (wid : N).

Inductive outcome := ROk (t : bytes) | RErr (code : N) (t : bytes) | RDisc.
Inductive obs :=
| Wrote (b : bytes)
| Resolved (id : N) (o : outcome)
| LineCb (id : N) (t : bytes)
| EventCb (lid : N) (payload : bytes)
| DiscNotified (wid : N)
| Raised (k : N)
| LostByClient
| OutOfScope.

Definition outcome_eqb (a b : outcome) : bool :=
  match a, b with
  | ROk x, ROk y => beqb x y
  | RErr c x, RErr d y => (c =? d) && beqb x y
  | RDisc, RDisc => true
  | _, _ => false
  end.
Definition obs_eqb (a b : obs) : bool :=
  match a, b with
  | Wrote x, Wrote y => beqb x y
  | Resolved i x, Resolved j y => (i =? j) && outcome_eqb x y
  | LineCb i x, LineCb j y | EventCb i x, EventCb j y => (i =? j) && beqb x y
  | DiscNotified i, DiscNotified j | Raised i, Raised j => i =? j
  | LostByClient, LostByClient | OutOfScope, OutOfScope => true
  | _, _ => false
  end.

(* ---- reply items as Tor renders them ---- *)
Inductive part := Mid (t : bytes) | Data (t : bytes) (ds : list bytes).
Record item := { icode : N; iparts : list part; ifinal : bytes }.   (* icode 650 = asynchronous event *)

Definition digit (n : N) : ascii := ch (48 + n).
Definition head3 (c : N) : bytes := [digit (c / 100); digit ((c / 10) mod 10); digit (c mod 10)].
Definition stuff (d : bytes) : bytes :=
  match d with a :: _ => if Ascii.eqb a DOT then DOT :: d else d | [] => d end.
Definition render_part (c : N) (p : part) : list bytes :=
  match p with
  | Mid t => [head3 c ++ DASH :: t]
  | Data t ds => (head3 c ++ PLUS :: t) :: map stuff ds ++ [[DOT]]
  end.
Definition render_lines (i : item) : list bytes :=
  concat (map (render_part (icode i)) (iparts i)) ++ [head3 (icode i) ++ SP :: ifinal i].
Definition crlf (l : bytes) : bytes := l ++ [CR; LF].
Definition render (i : item) : bytes := concat (map crlf (render_lines i)).

(* the lines of a reply in order: what a per-line callback sees / what the text is made of *)
Definition part_lines (p : part) : list bytes :=
  match p with Mid t => [t] | Data t ds => t :: ds end.
Definition item_lines (i : item) : list bytes := concat (map part_lines (iparts i)) ++ [ifinal i].
Definition OKs : bytes := [ch 79; ch 75].
Definition item_text (i : item) : bytes := join [LF] (item_lines i).

Fixpoint strip_suffix_OK (ls : list bytes) : list bytes :=
  match ls with
  | [] => []
  | [x] => [x]
  | [x; y] => if beqb y OKs then [x] else [x; y]
  | x :: ls' => x :: strip_suffix_OK ls'
  end.

(* what a per-line callback sees: every line, except a final "OK" status line *)
Definition cb_lines (i : item) : list bytes :=
  concat (map part_lines (iparts i)) ++ (if beqb (ifinal i) OKs then [] else [ifinal i]).

Definition is_2xx (c : N) := (200 <=? c) && (c <? 300).
Definition is_5xx (c : N) := (500 <=? c) && (c <? 600).
Definition is_6xx (c : N) := (600 <=? c) && (c <? 700).

(* text of a successful reply: all lines in order, a final "OK" status line removed *)
Definition reply_text_ok (i : item) : bytes := join [LF] (strip_suffix_OK (item_lines i)).

(* well-formed text: printable-ish 7-bit, no CR / LF *)
Definition wf_text (t : bytes) : bool := forallb (fun c => (code c <? 128) && negb (Ascii.eqb c CR) && negb (Ascii.eqb c LF)) t.
Definition wf_part (p : part) : bool :=
  match p with Mid t => wf_text t | Data t ds => wf_text t && forallb wf_text ds end.
Definition wf_item (i : item) : bool :=
  (200 <=? icode i) && (icode i <? 700) && (is_2xx (icode i) || is_5xx (icode i) || is_6xx (icode i))
  && forallb wf_part (iparts i) && wf_text (ifinal i).

(* event name and payload: first word of the text; payload = text after the name and one separator *)
Definition is_ws (c : ascii) : bool :=
  let n := code c in (n =? 32) || ((9 <=? n) && (n <=? 13)) || ((28 <=? n) && (n <=? 31)).
Fixpoint take_word (t : bytes) : bytes :=
  match t with [] => [] | c :: t' => if is_ws c then [] else c :: take_word t' end.
Definition event_name (i : item) : bytes := take_word (item_text i).
Definition event_payload (i : item) : bytes := skipn (S (length (event_name i))) (item_text i).
