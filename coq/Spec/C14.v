(* C14: creating an ephemeral onion service sends exactly one ADD_ONION whose key specifier, port
   mappings, flags and client-auth entries correspond exactly to the request; the address is the
   one Tor returned; key custody follows the request; DEL_ONION names exactly that address.
   Written from the property text and control-spec 3.27 (ADD_ONION) / 3.28 (DEL_ONION).
   Independent of Model/ and Gen/. *)
From Coq Require Import String.
From Coq Require Import List Bool Ascii NArith.
From TxVerif Require Import Lib.Bytes Lib.Split Lib.Decimal Spec.TorGrammar.
Import ListNotations.
Open Scope N_scope.

Definition lit (s : string) : bytes := list_ascii_of_string s.

(* ------------------------------------------------------------------ the request *)
Inductive keyreq := KNone | KDiscard | KText (s : bytes).          (* private_key = None / DISCARD / a string *)
Inductive pnum := NInt (n : N) | NStr (s : bytes).                   (* an int, or a string given where an int is expected *)
Inductive plocal := LInt (n : N) | LText (s : bytes) (ip_local : bool).
(* ip_local: Python's ipaddress says that the text before the first colon is a loopback /
   private / reserved / multicast / unspecified numeric address (trusted classification) *)
Inductive preq :=
| PInt (n : N)                        (* ports=[80]: the local port is chosen by available_tcp_port *)
| PPair (r : pnum) (l : plocal)       (* (80, 8080), (80, "192.168.1.2:80"), (80, "unix:/run/x") *)
| PStr (s : bytes) (ip_local : bool). (* "80 127.0.0.1:8080" *)

Record request := {
  q_version : N;
  q_key : keyreq;
  q_ports : list preq;
  q_detach : bool;
  q_single : bool;
  q_auth : option (list (bytes * option bytes));   (* AuthBasic([name | (name, token)]) *)
  q_free : list N                                   (* the answers of available_tcp_port, in order *)
}.

(* what the ADD_ONION Deferred fires with: the reply text split at LF, or a 5xx error *)
Inductive reply := RLines (ls : list bytes) | RError.

(* ------------------------------------------------------------------ observations *)
Inductive keyst := KSNone | KSDiscard | KSText (s : bytes).   (* service.private_key: None / the DISCARD marker / text *)

Inductive ev :=
| ECmd (b : bytes)                 (* queue_command(b) *)
| EFailed (kind : N)               (* the Deferred of this phase failed: 1 ValueError 2 RuntimeError 3 TorProtocolError
                                      4 AssertionError 5 TypeError 6 KeyError 9 other *)
| EDone (same : bool)              (* create()'s Deferred fired; same = with the service registered in the config *)
| ERemoved                         (* remove()'s Deferred fired *)
| ESnap (host : option bytes) (key : keyst) (clients : list (bytes * bytes))  (* the registered service *)
| ENoService.                      (* nothing registered in config.EphemeralOnionServices *)
(* a trace = four phases: create() called; reply delivered; descriptor upload reported; remove() *)

Definition keyst_eqb (a b : keyst) : bool :=
  match a, b with
  | KSNone, KSNone | KSDiscard, KSDiscard => true
  | KSText x, KSText y => beqb x y
  | _, _ => false
  end.
Definition pair_eqb (a b : bytes * bytes) : bool := beqb (fst a) (fst b) && beqb (snd a) (snd b).
Definition ev_eqb (a b : ev) : bool :=
  match a, b with
  | ECmd x, ECmd y => beqb x y
  | EFailed x, EFailed y => x =? y
  | EDone x, EDone y => Bool.eqb x y
  | ERemoved, ERemoved | ENoService, ENoService => true
  | ESnap h k c, ESnap h' k' c' => option_eqb beqb h h' && keyst_eqb k k' && list_eqb pair_eqb c c'
  | _, _ => false
  end.

(* ------------------------------------------------------------------ Tor's side: reading ADD_ONION *)
Record add_onion := {
  a_ktype : bytes; a_kblob : bytes;
  a_ports : list (N * option bytes);         (* VirtPort, Target *)
  a_flags : list bytes;
  a_clients : list (bytes * option bytes)    (* ClientName, ClientBlob *)
}.

Definition strip_prefix (p s : bytes) : option bytes :=
  if prefixb p s then Some (skipn (List.length p) s) else None.

Definition parse_port (v : bytes) : option (N * option bytes) :=
  match split_first COMMA v with
  | Some (a, b) => match parse_dec a with Some n => Some (n, Some b) | None => None end
  | None => match parse_dec v with Some n => Some (n, None) | None => None end
  end.

Definition parse_client (v : bytes) : bytes * option bytes :=
  match split_first COLON v with Some (a, b) => (a, Some b) | None => (v, None) end.

Definition is_nil {A} (l : list A) : bool := match l with [] => true | _ => false end.

Definition parse_flags (v : bytes) : option (list bytes) :=
  let fs := split_all COMMA v in if existsb is_nil fs then None else Some fs.

Fixpoint parse_args (toks : list bytes) (acc : add_onion) : option add_onion :=
  match toks with
  | [] => Some acc
  | t :: r =>
      match strip_prefix (lit "Port=") t with
      | Some v =>
          match parse_port v with
          | Some p => parse_args r {| a_ktype := a_ktype acc; a_kblob := a_kblob acc; a_ports := a_ports acc ++ [p];
                                      a_flags := a_flags acc; a_clients := a_clients acc |}
          | None => None
          end
      | None =>
      match strip_prefix (lit "Flags=") t with
      | Some v =>
          match parse_flags v with
          | Some fs => parse_args r {| a_ktype := a_ktype acc; a_kblob := a_kblob acc; a_ports := a_ports acc;
                                       a_flags := a_flags acc ++ fs; a_clients := a_clients acc |}
          | None => None
          end
      | None =>
      match strip_prefix (lit "ClientAuth=") t with
      | Some v => parse_args r {| a_ktype := a_ktype acc; a_kblob := a_kblob acc; a_ports := a_ports acc;
                                  a_flags := a_flags acc; a_clients := a_clients acc ++ [parse_client v] |}
      | None => None
      end end end
  end.

Definition parse_add_onion (line : bytes) : option add_onion :=
  if memb NUL line then None else
  match split_ws line with
  | cmd :: key :: rest =>
      if beqb cmd (lit "ADD_ONION") then
        match split_first COLON key with
        | Some (kt, kb) => parse_args rest {| a_ktype := kt; a_kblob := kb; a_ports := []; a_flags := []; a_clients := [] |}
        | None => None
        end
      else None
  | _ => None
  end.

(* ------------------------------------------------------------------ what the request asks for *)
Definition has_linebreak (s : bytes) : bool := memb CR s || memb LF s.
Definition clean_char (c : ascii) : bool := negb (is_kws c) && negb (Ascii.eqb c NUL).
Definition clean (s : bytes) : bool := forallb clean_char s.

Definition kt_for (version : N) : bytes := if version =? 3 then lit "ED25519-V3" else lit "RSA1024".

(* key specifier: KCExact type blob must  -- if an ADD_ONION is sent it carries exactly type:blob;
   must = the request is consistent and has to be honoured *)
Inductive kclass := KCExact (ktype kblob : bytes) (must : bool) | KCRefuse | KCUnknown.

Definition key_expect (version : N) (k : keyreq) : kclass :=
  match k with
  | KNone | KDiscard => if version =? 3 then KCExact (lit "NEW") (lit "ED25519-V3") true
                        else KCExact (lit "NEW") (lit "BEST") true
  | KText s =>
      if has_linebreak s then KCRefuse else
      match split_first COLON s with
      | Some (t, b) => KCExact t b (beqb t (kt_for version))
      | None => match s with [] => KCUnknown | _ => KCExact (kt_for version) s true end
      end
  end.

(* numbers given as text *)
Inductive numclass := NumOk (n : N) | NumBad | NumUnknown.
Definition surely_not_numeric (c : ascii) : bool :=
  (32 <? code c) && (code c <? 127) && negb (is_digit c)
  && negb (Ascii.eqb c PLUS || Ascii.eqb c DASH || Ascii.eqb c (ch 95)).
Definition num_class (s : bytes) : numclass :=
  match parse_dec s with
  | Some n => NumOk n
  | None => if is_nil s || existsb surely_not_numeric s then NumBad else NumUnknown
  end.

Definition loopback (p : N) : bytes := lit "127.0.0.1:" ++ dec_of_N p.

(* port mapping: PCGood = a mapping that must be honoured exactly; PCEither = may be refused, exact
   if sent; PCBad = not a port mapping at all, must be refused *)
Inductive pclass := PCGood (virt : N) (target : bytes) | PCEither (virt : N) (target : bytes) | PCBad | PCUnknown.

Definition target_class (virt : N) (t : bytes) (ip_local : bool) : pclass :=
  if prefixb (lit "unix:/") t then PCGood virt t
  else if prefixb (lit "unix:") t then PCEither virt t
  else if negb (memb COLON t) then PCBad
  else match split_all COLON t with
       | [ip; port] => if (ip_local || beqb ip (lit "localhost")) && negb (is_nil port) && forallb is_digit port
                       then PCGood virt t else PCEither virt t
       | _ => PCEither virt t
       end.

Definition port_class (p : preq) (free : list N) : pclass * list N :=
  match p with
  | PInt n => match free with f :: free' => (PCGood n (loopback f), free') | [] => (PCUnknown, []) end
  | PPair r l =>
      let rc := match r with NInt n => NumOk n | NStr s => num_class s end in
      (match rc with
       | NumBad => PCBad
       | NumUnknown => PCUnknown
       | NumOk virt =>
           match l with
           | LInt m => PCGood virt (loopback m)
           | LText t ip_local =>
               match num_class t with
               | NumOk m => PCGood virt (loopback m)
               | NumUnknown => PCUnknown
               | NumBad => target_class virt t ip_local
               end
           end
       end, free)
  | PStr s ip_local =>
      (match split_all SP s with
       | [v; t] =>
           match num_class v with
           | NumOk virt => target_class virt t ip_local
           | NumBad => PCBad
           | NumUnknown => PCUnknown
           end
       | _ => PCBad
       end, free)
  end.

Fixpoint port_classes (ps : list preq) (free : list N) : list pclass :=
  match ps with
  | [] => []
  | p :: ps' => let '(c, free') := port_class p free in c :: port_classes ps' free'
  end.

Definition flag_names (q : request) : list bytes :=
  (if q_detach q then [lit "Detach"] else []) ++
  (match q_key q with KDiscard => [lit "DiscardPK"] | _ => [] end) ++
  (match q_auth q with Some _ => [lit "BasicAuth"] | None => [] end) ++
  (if q_single q then [lit "NonAnonymous"] else []).

(* the request as an ADD_ONION, when every part of it is determined *)
Definition expected (q : request) : option add_onion :=
  match key_expect (q_version q) (q_key q) with
  | KCExact kt kb _ =>
      let pcs := port_classes (q_ports q) (q_free q) in
      if forallb (fun c => match c with PCGood _ _ | PCEither _ _ => true | _ => false end) pcs then
        Some {| a_ktype := kt; a_kblob := kb;
                a_ports := map (fun c => match c with PCGood v t | PCEither v t => (v, Some t) | _ => (0, None) end) pcs;
                a_flags := flag_names q;
                a_clients := match q_auth q with Some cl => cl | None => [] end |}
      else None
  | _ => None
  end.

(* a line break in a client name, a client token or the text of a port mapping cannot be carried on
   one command line (this was the input class of finding C14-F1, repaired by 6a4374c) *)
Definition hostile_linebreak (q : request) : bool :=
  existsb (fun p => match p with
                    | PStr s _ => has_linebreak s
                    | PPair _ (LText t _) => has_linebreak t
                    | _ => false
                    end) (q_ports q)
  || match q_auth q with
     | Some cl => existsb (fun c => has_linebreak (fst c)
                                    || match snd c with Some t => has_linebreak t | None => false end) cl
     | None => false
     end.

Fixpoint nodup_names (l : list bytes) : bool :=
  match l with [] => true | x :: r => negb (existsb (beqb x) r) && nodup_names r end.

(* (with a name given twice the request itself is ambiguous: AuthBasic keeps the later token) *)
Definition names_distinct (q : request) : bool :=
  match q_auth q with Some cl => nodup_names (map fst cl) | None => true end.

Definition must_refuse (q : request) : bool :=
  match key_expect (q_version q) (q_key q) with KCRefuse => true | _ => false end
  || existsb (fun c => match c with PCBad => true | _ => false end) (port_classes (q_ports q) (q_free q))
  || (hostile_linebreak q && names_distinct q).

(* names and tokens as Tor can carry them: no separator, and no colon in a name *)
Definition client_ok (c : bytes * option bytes) : bool :=
  clean (fst c) && negb (memb COLON (fst c)) && negb (is_nil (fst c))
  && match snd c with Some t => clean t && negb (is_nil t) | None => true end.

(* the envelope of the round-trip clause: every text is free of Tor's separators and NUL *)
Definition in_scope (q : request) : bool :=
  match key_expect (q_version q) (q_key q) with
  | KCExact kt kb _ => clean kt && clean kb && negb (is_nil kb)
  | _ => true
  end
  && forallb (fun c => match c with PCGood _ t | PCEither _ t => clean t && negb (is_nil t) | _ => true end)
             (port_classes (q_ports q) (q_free q))
  && match q_auth q with Some cl => forallb client_ok cl && nodup_names (map fst cl) | None => true end.

Definition must_send (q : request) : bool :=
  in_scope q
  && match key_expect (q_version q) (q_key q) with KCExact _ _ true => true | _ => false end
  && negb (is_nil (q_ports q))
  && forallb (fun c => match c with PCGood _ _ => true | _ => false end) (port_classes (q_ports q) (q_free q)).

(* comparison of what was read with what was asked *)
Definition port_eqb (a b : N * option bytes) : bool := (fst a =? fst b) && option_eqb beqb (snd a) (snd b).
Definition client_eqb (a b : bytes * option bytes) : bool := beqb (fst a) (fst b) && option_eqb beqb (snd a) (snd b).
Definition subset (a b : list bytes) : bool := forallb (fun x => existsb (beqb x) b) a.
Definition flags_eqb (a b : list bytes) : bool := (nlen a =? nlen b) && subset a b && subset b a.

Definition ao_eqb (a e : add_onion) : bool :=
  beqb (a_ktype a) (a_ktype e) && beqb (a_kblob a) (a_kblob e)
  && list_eqb port_eqb (a_ports a) (a_ports e)
  && flags_eqb (a_flags a) (a_flags e)
  && list_eqb client_eqb (a_clients a) (a_clients e).

(* ------------------------------------------------------------------ Tor's answer *)
Fixpoint field_of (name : bytes) (ls : list bytes) : option bytes :=
  match ls with
  | [] => None
  | l :: ls' => match strip_prefix (name ++ [EQC]) l with Some v => Some v | None => field_of name ls' end
  end.

Definition reply_clients (ls : list bytes) : list (bytes * bytes) :=
  flat_map (fun l => match strip_prefix (lit "ClientAuth=") l with
                     | Some v => match split_first COLON v with Some p => [p] | None => [] end
                     | None => []
                     end) ls.

(* the answer is usable: it names the service, and carries the new key when Tor was asked to make
   one and to hand it over *)
Definition reply_sid (q : request) (rp : reply) : option bytes :=
  match rp with
  | RError => None
  | RLines ls =>
      match field_of (lit "ServiceID") ls with
      | Some sid => match q_key q, field_of (lit "PrivateKey") ls with
                    | KNone, None => None
                    | _, _ => Some sid
                    end
      | None => None
      end
  end.

(* ------------------------------------------------------------------ the oracle *)
Definition cmds_of (evs : list ev) : list bytes :=
  flat_map (fun e => match e with ECmd b => [b] | _ => [] end) evs.
Definition failed (evs : list ev) : bool :=
  existsb (fun e => match e with EFailed _ => true | _ => false end) evs.
Definition snaps_ok (f : option bytes -> keyst -> list (bytes * bytes) -> bool) (evs : list ev) : bool :=
  forallb (fun e => match e with ESnap h k c => f h k c | _ => true end) evs.
Definition has_snap (evs : list ev) : bool :=
  existsb (fun e => match e with ESnap _ _ _ => true | _ => false end) evs.

Definition key_is_text (k : keyst) : bool := match k with KSText _ => true | _ => false end.

(* final client tokens: the ones given in the request, then the ones Tor made up *)
Definition expected_clients (q : request) (ls : list bytes) : list (bytes * bytes) :=
  match q_auth q with
  | None => []
  | Some cl => flat_map (fun c => match snd c with Some t => [(fst c, t)] | None => [] end) cl ++ reply_clients ls
  end.
Definition assoc_subset (a b : list (bytes * bytes)) : bool := forallb (fun x => existsb (pair_eqb x) b) a.

Definition sent_of (p1 : list ev) : bool := match cmds_of p1 with [_] => true | _ => false end.

(* at most one command per create(), none while waiting, at most one per remove(); one line each *)
Definition o_count (p1 p2 p3 p4 : list ev) : bool :=
  (nlen (cmds_of p1) <=? 1) && is_nil (cmds_of p2) && is_nil (cmds_of p3) && (nlen (cmds_of p4) <=? 1)
  && forallb no_crlf (cmds_of p1 ++ cmds_of p4).

(* line breaks in the key or in any other argument, or something that is not a port mapping:
   refused, nothing sent *)
Definition o_refuse (q : request) (p1 : list ev) : bool :=
  if must_refuse q then is_nil (cmds_of p1) && failed p1 else true.

(* a well-formed request is sent *)
Definition o_send (q : request) (p1 : list ev) : bool :=
  if must_send q then sent_of p1 && negb (failed p1) else true.

(* what is sent reads back as exactly the request *)
Definition o_read (q : request) (p1 : list ev) : bool :=
  match cmds_of p1, expected q with
  | [c], Some e => if in_scope q then match parse_add_onion c with Some a => ao_eqb a e | None => false end
                   else true
  | _, _ => true
  end.

(* discarding: no key is ever stored *)
Definition o_discard (q : request) (tr : list (list ev)) : bool :=
  match q_key q with
  | KDiscard => forallb (snaps_ok (fun _ k _ => negb (key_is_text k))) tr
  | _ => true
  end.

(* a supplied key is stored as it was sent *)
Definition o_supplied (q : request) (p1 : list ev) (tr : list (list ev)) : bool :=
  match q_key q, key_expect (q_version q) (q_key q) with
  | KText _, KCExact kt kb _ =>
      if sent_of p1 then forallb (snaps_ok (fun _ k _ => keyst_eqb k (KSText (kt ++ COLON :: kb)))) tr else true
  | _, _ => true
  end.

(* before the answer: no address, and no key unless supplied *)
Definition o_before (q : request) (p1 : list ev) : bool :=
  if sent_of p1 then snaps_ok (fun h k _ => match h with Some _ => false | None => true end
                                            && match q_key q with KNone => keyst_eqb k KSNone | _ => true end) p1
  else true.

(* after the answer: the address Tor returned, the key Tor generated, the client tokens; the caller
   gets that very service; removal names exactly that address *)
Definition o_after (q : request) (rp : reply) (p1 p2 p3 p4 : list ev) : bool :=
  if sent_of p1 then
    match reply_sid q rp, rp with
    | Some sid, RLines ls =>
        let host := sid ++ lit ".onion" in
        negb (failed p2) && has_snap p2
        && forallb (snaps_ok (fun h k c =>
             option_eqb beqb h (Some host)
             && match q_key q, field_of (lit "PrivateKey") ls with
                | KNone, Some pk => keyst_eqb k (KSText pk)
                | _, _ => true
                end
             && match q_auth q with
                | Some _ => if in_scope q then assoc_subset c (expected_clients q ls)
                                              && assoc_subset (expected_clients q ls) c else true
                | None => is_nil c
                end)) [p2; p3; p4]
        && (match q_auth q with
            | None => existsb (fun e => match e with EDone true => true | _ => false end) p3
            | Some _ => true
            end)
        && list_eqb beqb (cmds_of p4) [lit "DEL_ONION " ++ sid]
    | _, _ => true
    end
  else is_nil p2 && is_nil (cmds_of p4).

Definition oracle (q : request) (rp : reply) (tr : list (list ev)) : bool :=
  match tr with
  | [p1; p2; p3; p4] =>
      o_count p1 p2 p3 p4 && o_refuse q p1 && o_send q p1 && o_read q p1 && o_discard q tr
      && o_supplied q p1 tr && o_before q p1 && o_after q rp p1 p2 p3 p4
  | _ => false
  end.
