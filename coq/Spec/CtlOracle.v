(* Reference semantics of the control connection at the level of whole reply items, written from
   the statements of C01, C02, C03: one FIFO queue, one command in flight, replies answer commands
   in order, events go to the listeners registered when the event is complete, a lost connection
   fails everything outstanding once.  No line parsing, no buffers: the server stream is given as
   the list of items Tor rendered; an item counts once its last byte has been received.
   Independent of Model/ and Gen/. *)
From Coq Require Import List Bool Ascii Arith NArith Lia.
From TxVerif Require Import Lib.Bytes Spec.Ctl.
Import ListNotations.
Open Scope N_scope.

Record astate := {
  a_inflight : option cmd; a_queue : list cmd;
  a_listeners : list (bytes * list N);
  a_lost : bool; a_waiters : list N;
  a_todo : list item;            (* items not yet complete, in stream order *)
  a_off : N;                     (* bytes of the stream that precede the first todo item *)
  a_cum : N;                     (* bytes received so far *)
  a_bad : bool                   (* the history is outside the property's quantifier (not causal, or malformed) *)
}.

Definition a_init (items : list item) : astate :=
  {| a_inflight := None; a_queue := []; a_listeners := []; a_lost := false; a_waiters := [];
     a_todo := items; a_off := 0; a_cum := 0; a_bad := negb (forallb wf_item items) |}.

Definition aq s (i : option cmd) (q : list cmd) : astate :=
  {| a_inflight := i; a_queue := q; a_listeners := a_listeners s; a_lost := a_lost s;
     a_waiters := a_waiters s; a_todo := a_todo s; a_off := a_off s; a_cum := a_cum s; a_bad := a_bad s |}.
Definition al s (l : list (bytes * list N)) : astate :=
  {| a_inflight := a_inflight s; a_queue := a_queue s; a_listeners := l; a_lost := a_lost s;
     a_waiters := a_waiters s; a_todo := a_todo s; a_off := a_off s; a_cum := a_cum s; a_bad := a_bad s |}.
Definition abad s : astate :=
  {| a_inflight := a_inflight s; a_queue := a_queue s; a_listeners := a_listeners s; a_lost := a_lost s;
     a_waiters := a_waiters s; a_todo := a_todo s; a_off := a_off s; a_cum := a_cum s; a_bad := true |}.

Definition SETEVENTS_ : bytes := map ch [83; 69; 84; 69; 86; 69; 78; 84; 83; 32].
Definition leafc (c : lcmd) : cmd := {| cl := c; cscript := [] |}.
Definition setev (c : N) (l : list (bytes * list N)) : cmd :=
  leafc {| cid := c; ctext := SETEVENTS_ ++ join [SP] (map fst l); ccb := false |}.

(* submitting a command that has no script of its own *)
Definition a_submit_leaf (s : astate) (c : cmd) : astate * list obs :=
  if a_lost s then (s, [Resolved (cid (cl c)) RDisc])
  else match a_inflight s with
       | Some _ => (aq s (a_inflight s) (a_queue s ++ [c]), [])
       | None => (aq s (Some c) (a_queue s), [Wrote (crlf (ctext (cl c)))])
       end.

Definition lookup (l : list (bytes * list N)) (n : bytes) : list N :=
  match find (fun p => beqb (fst p) n) l with Some p => snd p | None => [] end.
Definition has_name (l : list (bytes * list N)) (n : bytes) : bool :=
  existsb (fun p => beqb (fst p) n) l.

(* replace the listener list of an existing name *)
Definition setl (l : list (bytes * list N)) (n : bytes) (v : list N) : list (bytes * list N) :=
  map (fun p => if beqb (fst p) n then (fst p, v) else p) l.

Definition a_add (s : astate) (name : bytes) (lid c : N) : astate * list obs :=
  if has_name (a_listeners s) name
  then (al s (setl (a_listeners s) name (lookup (a_listeners s) name ++ [lid])), [])
  else let l := a_listeners s ++ [(name, [lid])] in a_submit_leaf (al s l) (setev c l).

Fixpoint rm1 (lid : N) (l : list N) : list N :=
  match l with [] => [] | y :: l' => if lid =? y then l' else y :: rm1 lid l' end.

Definition a_rem (s : astate) (name : bytes) (lid c : N) : astate * list obs :=
  let cur := lookup (a_listeners s) name in
  if negb (existsb (N.eqb lid) cur) then (s, [])      (* not registered: nothing happens *)
  else
    match rm1 lid cur with
    | [] => let l := filter (fun p => negb (beqb (fst p) name)) (a_listeners s) in a_submit_leaf (al s l) (setev c l)
    | cur' => (al s (setl (a_listeners s) name cur'), [])
    end.

Definition a_sop (s : astate) (o : sop) : astate * list obs :=
  match o with
  | SSubmit c => a_submit_leaf s (leafc c)
  | SAdd n l c => a_add s n l c
  | SRem n l c => a_rem s n l c
  end.
Fixpoint a_script (s : astate) (sc : list sop) : astate * list obs :=
  match sc with
  | [] => (s, [])
  | o :: sc' => let '(s1, o1) := a_sop s o in let '(s2, o2) := a_script s1 sc' in (s2, o1 ++ o2)
  end.

(* a command's result becomes known: its Deferred fires, then whatever the application does there *)
Definition a_resolve (s : astate) (c : cmd) (o : outcome) : astate * list obs :=
  let '(s1, o1) := a_script s (cscript c) in (s1, Resolved (cid (cl c)) o :: o1).

Definition a_issue_next (s : astate) : astate * list obs :=
  match a_queue s with
  | [] => (aq s None [], [])
  | c :: q => (aq s (Some c) q, [Wrote (crlf (ctext (cl c)))])
  end.

Section WithBehaviours.
  Variable lbehs : list (N * lbeh).
  Definition abeh (lid : N) : lbeh :=
    match find (fun p => fst p =? lid) lbehs with Some p => snd p | None => LPlain end.

  Fixpoint a_removes (s : astate) (rs : list (bytes * N * N)) : astate * list obs :=
    match rs with
    | [] => (s, [])
    | (n, l, c) :: rs' =>
        if negb (existsb (N.eqb l) (lookup (a_listeners s) n)) then (s, [])   (* the listener fails here *)
        else let '(s1, o1) := a_rem s n l c in let '(s2, o2) := a_removes s1 rs' in (s2, o1 ++ o2)
    end.

  Fixpoint a_deliver (s : astate) (lids : list N) (payload : bytes) : astate * list obs :=
    match lids with
    | [] => (s, [])
    | l :: ls =>
        let '(s1, o1) := match abeh l with LRemoves rs => a_removes s rs | _ => (s, []) end in
        let '(s2, o2) := a_deliver s1 ls payload in
        (s2, EventCb l payload :: o1 ++ o2)
    end.

  (* an item is complete *)
  Definition a_item (s : astate) (i : item) : astate * list obs :=
    if is_6xx (icode i) then a_deliver s (lookup (a_listeners s) (event_name i)) (event_payload i)
    else
      match a_inflight s with
      | None => (abad s, [])
      | Some c =>
          let lines := if ccb (cl c) && is_2xx (icode i)
                       then map (LineCb (cid (cl c))) (cb_lines i) else [] in
          let o := if is_2xx (icode i) then ROk (if ccb (cl c) then [] else reply_text_ok i)
                   else RErr (icode i) (item_text i) in
          let '(s1, o1) := a_resolve s c o in
          let '(s2, o2) := a_issue_next s1 in
          (s2, lines ++ o1 ++ o2)
      end.

  (* bytes arrive: every item whose last byte is now in completes, in order; a reply may only
     begin while the command it answers is in flight *)
  Fixpoint a_recv (fuel : nat) (s : astate) : astate * list obs :=
    match fuel with
    | O => (s, [])
    | S fuel' =>
        match a_todo s with
        | [] => (s, [])
        | i :: rest =>
            let started := a_off s <? a_cum s in
            let s0 := if started && negb (is_6xx (icode i)) &&
                         match a_inflight s with None => true | Some _ => false end
                      then abad s else s in
            let e := a_off s + nlen (render i) in
            if e <=? a_cum s then
              let s1 := {| a_inflight := a_inflight s0; a_queue := a_queue s0; a_listeners := a_listeners s0;
                           a_lost := a_lost s0; a_waiters := a_waiters s0; a_todo := rest; a_off := e;
                           a_cum := a_cum s0; a_bad := a_bad s0 |} in
              let '(s2, o2) := a_item s1 i in
              let '(s3, o3) := a_recv fuel' s2 in (s3, o2 ++ o3)
            else (s0, [])
        end
    end.

  Fixpoint a_fail_all (s : astate) (cs : list cmd) : astate * list obs :=
    match cs with
    | [] => (s, [])
    | c :: cs' => let '(s1, o1) := a_resolve s c RDisc in let '(s2, o2) := a_fail_all s1 cs' in (s2, o1 ++ o2)
    end.

  Definition a_step (s : astate) (o : op) : astate * list obs :=
    match o with
    | OSubmit c =>
        if a_lost s then a_resolve s c RDisc
        else match a_inflight s with
             | Some _ => (aq s (a_inflight s) (a_queue s ++ [c]), [])
             | None => (aq s (Some c) (a_queue s), [Wrote (crlf (ctext (cl c)))])
             end
    | ORecv chunk =>
        if a_lost s then (abad s, []) else
        let s1 := {| a_inflight := a_inflight s; a_queue := a_queue s; a_listeners := a_listeners s;
                     a_lost := a_lost s; a_waiters := a_waiters s; a_todo := a_todo s; a_off := a_off s;
                     a_cum := a_cum s + nlen chunk; a_bad := a_bad s |} in
        a_recv (S (length (a_todo s))) s1
    | OLose =>
        if a_lost s then (abad s, []) else
        let out := match a_inflight s with Some c => c :: a_queue s | None => a_queue s end in
        let s1 := {| a_inflight := None; a_queue := []; a_listeners := a_listeners s; a_lost := true;
                     a_waiters := []; a_todo := a_todo s; a_off := a_off s; a_cum := a_cum s; a_bad := a_bad s |} in
        let '(s2, o2) := a_fail_all s1 out in (s2, map DiscNotified (a_waiters s) ++ o2)
    | OAdd n l c => a_add s n l c
    | ORem n l c => if negb (existsb (N.eqb l) (lookup (a_listeners s) n)) then (abad s, []) else a_rem s n l c
    | OWhenDisc w =>
        if a_lost s then (s, [DiscNotified w])
        else ({| a_inflight := a_inflight s; a_queue := a_queue s; a_listeners := a_listeners s;
                 a_lost := a_lost s; a_waiters := a_waiters s ++ [w]; a_todo := a_todo s; a_off := a_off s;
                 a_cum := a_cum s; a_bad := a_bad s |}, [])
    end.

  Fixpoint a_run (s : astate) (ops : list op) : list (list obs) * astate :=
    match ops with
    | [] => ([], s)
    | o :: ops' => let '(s1, o1) := a_step s o in let '(tr, sf) := a_run s1 ops' in (o1 :: tr, sf)
    end.
End WithBehaviours.

(* ---- comparing a trace with the reference, class by class ---- *)
Definition is_wr (o : obs) := match o with Wrote _ | Resolved _ _ => true | _ => false end.
Definition is_ev (o : obs) := match o with EventCb _ _ => true | _ => false end.
Definition is_dn (o : obs) := match o with DiscNotified _ => true | _ => false end.
Definition is_lc (o : obs) := match o with LineCb _ _ => true | _ => false end.
Definition is_bad (o : obs) := match o with Raised _ | LostByClient | OutOfScope => true | _ => false end.

Fixpoint per_op_eq (p : obs -> bool) (a b : list (list obs)) : bool :=
  match a, b with
  | [], [] => true
  | x :: a', y :: b' => list_eqb obs_eqb (filter p x) (filter p y) && per_op_eq p a' b'
  | _, _ => false
  end.

Definition flat (tr : list (list obs)) : list obs := concat tr.

(* the chunking of the stream must be a prefix of the rendered items *)
Definition stream_of (ops : list op) : bytes :=
  concat (map (fun o => match o with ORecv c => c | _ => [] end) ops).
Definition stream_ok (items : list item) (ops : list op) : bool :=
  prefixb (stream_of ops) (concat (map render items)).

(* every per-line callback call for command id happens after its command was written and
   before it was resolved *)
Fixpoint linecb_positions (tr : list obs) (written resolved : list N) (cmds : list (N * bytes)) : bool :=
  match tr with
  | [] => true
  | Wrote b :: tr' =>
      let ids := map fst (filter (fun p => beqb (crlf (snd p)) b) cmds) in
      linecb_positions tr' (ids ++ written) resolved cmds
  | Resolved i _ :: tr' => linecb_positions tr' written (i :: resolved) cmds
  | LineCb i _ :: tr' =>
      existsb (N.eqb i) written && negb (existsb (N.eqb i) resolved) && linecb_positions tr' written resolved cmds
  | _ :: tr' => linecb_positions tr' written resolved cmds
  end.

Definition all_cmds (ops : list op) : list (N * bytes) :=
  concat (map (fun o => match o with
                        | OSubmit c => (cid (cl c), ctext (cl c)) ::
                            concat (map (fun s => match s with SSubmit l => [(cid l, ctext l)] | _ => [] end) (cscript c))
                        | _ => [] end) ops).

Definition linecbs_of (id : N) (tr : list obs) : list bytes :=
  concat (map (fun o => match o with LineCb i t => if i =? id then [t] else [] | _ => [] end) tr).

Record judged := { j_skip : bool; j_c01 : bool; j_c02 : bool; j_c03 : bool }.

Definition judge (lbehs : list (N * lbeh)) (items : list item) (ops : list op) (act : list (list obs)) : judged :=
  let '(exp, sf) := a_run lbehs (a_init items) ops in
  let ids := map fst (all_cmds ops) in
  let clean := negb (existsb is_bad (flat act)) in
  let wr := per_op_eq is_wr exp act in
  let lc := forallb (fun id => list_eqb beqb (linecbs_of id (flat exp)) (linecbs_of id (flat act))) ids
            && linecb_positions (flat act) [] [] (all_cmds ops) in
  {| j_skip := a_bad sf || negb (stream_ok items ops);
     j_c01 := clean && wr && lc;
     j_c02 := clean && per_op_eq is_ev exp act && wr && lc;
     j_c03 := clean && wr && per_op_eq is_dn exp act |}.
