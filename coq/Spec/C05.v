(* C05: SOCKS5 client: no data before success; afterwards every byte relayed, none withheld;
   failures map to the error of the reply code; exactly one outcome.
   Written from the property text and RFC 1928 section 6. Independent of Model/ and Gen/. *)
From Coq Require Import List Bool Ascii Arith NArith Lia.
From TxVerif Require Import Lib.Bytes Spec.Rfc1928 Spec.C06.
Import ListNotations.
Open Scope N_scope.

(* outcome of when_done()/connect() *)
Inductive result :=
| RProto                                   (* the application protocol *)
| RName (is_ip : bool) (b : bytes)         (* resolve: a name, or a packed IPv4/IPv6 address *)
| RErr (cls : bytes) (code : option N).    (* error class name, its .code attribute *)

Inductive ev :=
| EWrote (b : bytes)
| EAppCreated (same_transport : bool)
| EAppData (b : bytes)
| EAppLost
| ELoseConn
| EDone (r : result)
| ERaised (k : N).       (* 1 NoTransition, 2 AssertionError, 3 encoding error, 9 other *)

Definition result_eqb (a b : result) : bool :=
  match a, b with
  | RProto, RProto => true
  | RName i x, RName j y => Bool.eqb i j && beqb x y
  | RErr c x, RErr d y => beqb c d && option_eqb N.eqb x y
  | _, _ => false
  end.

Definition ev_eqb (a b : ev) : bool :=
  match a, b with
  | EWrote x, EWrote y | EAppData x, EAppData y => beqb x y
  | EAppCreated x, EAppCreated y => Bool.eqb x y
  | EAppLost, EAppLost | ELoseConn, ELoseConn => true
  | EDone x, EDone y => result_eqb x y
  | ERaised x, ERaised y => x =? y
  | _, _ => false
  end.

(* the error class for a reply code (RFC 1928 section 6, names of txtorcon's public classes) *)
Definition str (l : list N) : bytes := map ch l.
Definition generic_name : bytes := str [83;111;99;107;115;69;114;114;111;114]. (* SocksError *)
Definition error_class (c : N) : bytes :=
  if c =? 1 then str [71;101;110;101;114;97;108;83;101;114;118;101;114;70;97;105;108;117;114;101;69;114;114;111;114]
  else if c =? 2 then str [67;111;110;110;101;99;116;105;111;110;78;111;116;65;108;108;111;119;101;100;69;114;114;111;114]
  else if c =? 3 then str [78;101;116;119;111;114;107;85;110;114;101;97;99;104;97;98;108;101;69;114;114;111;114]
  else if c =? 4 then str [72;111;115;116;85;110;114;101;97;99;104;97;98;108;101;69;114;114;111;114]
  else if c =? 5 then str [67;111;110;110;101;99;116;105;111;110;82;101;102;117;115;101;100;69;114;114;111;114]
  else if c =? 6 then str [84;116;108;69;120;112;105;114;101;100;69;114;114;111;114]
  else if c =? 7 then str [67;111;109;109;97;110;100;78;111;116;83;117;112;112;111;114;116;101;100;69;114;114;111;114]
  else if c =? 8 then str [65;100;100;114;101;115;115;84;121;112;101;78;111;116;83;117;112;112;111;114;116;101;100;69;114;114;111;114]
  else generic_name.

(* ---- what the server stream means, as a function of the bytes received so far ---- *)
Inductive status :=
| SPending                     (* nothing can be concluded yet *)
| SFailing (r : result)        (* a failure is recognisable but the reply is not complete: the
                                  client may report it now or at any later point *)
| SFailed (r : result)         (* the failure reply is complete: must have been reported *)
| SConnected (rest : bytes)    (* complete success reply to CONNECT; rest = application bytes so far *)
| SResolved (r : result).      (* complete success reply to a resolve request *)

Definition generic_err : result := RErr generic_name None.

(* length of a complete reply given its first 5 bytes (VER REP RSV ATYP [LEN]); None = unknown type *)
Definition reply_len (atyp : N) (lenbyte : option N) : option N :=
  if atyp =? 1 then Some 10
  else if atyp =? 4 then Some 22
  else if atyp =? 3 then match lenbyte with Some l => Some (7 + l) | None => None end
  else None.

Definition byte_at (l : bytes) (i : nat) : option N := option_map code (nth_error l i).

Definition status_of (ty : rtype) (s : bytes) : status :=
  match s with
  | v :: m :: rep =>
      if negb ((code v =? 5) && (code m =? 0)) then SFailed generic_err else
      match rep with
      | rv :: rr :: _ :: at_ :: more =>
          let complete := match reply_len (code at_) (byte_at more 0) with
                          | Some n => Some n
                          | None => if (code at_ =? 3) then None else Some 10
                          end in
          let is_complete := match complete with Some n => n <=? nlen rep | None => false end in
          if negb (code rv =? 5) then (if is_complete then SFailed generic_err else SFailing generic_err)
          else if negb (code rr =? 0) then
            let r := RErr (error_class (code rr)) (Some (code rr)) in
            if is_complete then SFailed r else SFailing r
          else if negb ((code at_ =? 1) || (code at_ =? 3) || (code at_ =? 4)) then
            (if is_complete then SFailed generic_err else SFailing generic_err)
          else if negb is_complete then SPending
          else
            let n := match complete with Some n => N.to_nat n | None => O end in
            let body := firstn n rep in
            let rest := skipn n rep in
            match ty with
            | RConnect => SConnected rest
            | _ =>
                if code at_ =? 1 then SResolved (RName true (firstn 4 (skipn 4 body)))
                else if code at_ =? 4 then SResolved (RName true (firstn 16 (skipn 4 body)))
                else SResolved (RName false (firstn (length body - 7) (skipn 5 body)))
            end
      | _ => SPending
      end
  | _ => SPending
  end.

(* ---- checking a trace: one event list per operation ----
   ops: Connected, then one Recv per chunk, then optionally Lost. *)
Definition app_data (es : list ev) : bytes :=
  concat (map (fun e => match e with EAppData b => b | _ => [] end) es).
Definition count (p : ev -> bool) (es : list ev) : nat := length (filter p es).
Definition is_done (e : ev) := match e with EDone _ => true | _ => false end.
Definition is_created (e : ev) := match e with EAppCreated _ => true | _ => false end.
Definition is_created_ok (e : ev) := match e with EAppCreated true => true | _ => false end.
Definition is_applost (e : ev) := match e with EAppLost => true | _ => false end.
Definition is_appdata (e : ev) := match e with EAppData _ => true | _ => false end.
Definition is_wrote (e : ev) := match e with EWrote _ => true | _ => false end.
Definition dones (es : list ev) : list result :=
  concat (map (fun e => match e with EDone r => [r] | _ => [] end) es).

Definition no_app (es : list ev) : bool :=
  (count is_created es =? 0)%nat && (count is_appdata es =? 0)%nat && (count is_applost es =? 0)%nat.

(* checker state: previous status, whether the outcome has been reported *)
Record chk := { prev : status; reported : bool; seen : bytes }.

Definition strip_prefix (p l : bytes) : option bytes :=
  if prefixb p l then Some (skipn (length p) l) else None.

(* one Recv operation *)
Definition chk_recv (ty : rtype) (k : chk) (chunk : bytes) (es : list ev) : option chk :=
  let s := seen k ++ chunk in
  let now := status_of ty s in
  let ds := dones es in
  match prev k, now with
  | SConnected r0, SConnected r1 =>
      (* relaying: exactly the new bytes, at once *)
      match strip_prefix r0 r1 with
      | Some delta =>
          if beqb (app_data es) delta && (count is_created es =? 0)%nat && (count is_applost es =? 0)%nat
             && (length ds =? 0)%nat
          then Some {| prev := now; reported := true; seen := s |} else None
      | None => None
      end
  | SConnected _, _ => None
  | (SFailed _ | SResolved _), _ =>
      (* already over: nothing more may happen *)
      if no_app es && (length ds =? 0)%nat then Some {| prev := prev k; reported := reported k; seen := s |} else None
  | (SPending | SFailing _), SConnected r1 =>
      if reported k then None else
      if (count is_created_ok es =? 1)%nat && (count is_created es =? 1)%nat
         && list_eqb result_eqb ds [RProto] && beqb (app_data es) r1 && (count is_applost es =? 0)%nat
      then Some {| prev := now; reported := true; seen := s |} else None
  | (SPending | SFailing _), SResolved r =>
      if reported k then None else
      if no_app es && list_eqb result_eqb ds [r] then Some {| prev := now; reported := true; seen := s |} else None
  | (SPending | SFailing _), SFailed r =>
      if negb (no_app es) then None else
      if reported k then (if (length ds =? 0)%nat then Some {| prev := now; reported := true; seen := s |} else None)
      else if list_eqb result_eqb ds [r] then Some {| prev := now; reported := true; seen := s |} else None
  | (SPending | SFailing _), SFailing r =>
      if negb (no_app es) then None else
      if reported k then (if (length ds =? 0)%nat then Some {| prev := now; reported := true; seen := s |} else None)
      else if (length ds =? 0)%nat then Some {| prev := now; reported := false; seen := s |}
      else if list_eqb result_eqb ds [r] then Some {| prev := now; reported := true; seen := s |} else None
  | (SPending | SFailing _), SPending =>
      if no_app es && (length ds =? 0)%nat && negb (reported k) then Some {| prev := now; reported := false; seen := s |} else None
  end.

Definition chk_lost (k : chk) (es : list ev) : bool :=
  let ds := dones es in
  match prev k with
  | SConnected _ =>
      (count is_applost es =? 1)%nat && (length ds =? 0)%nat && (count is_appdata es =? 0)%nat
      && (count is_created es =? 0)%nat
  | SFailed _ | SResolved _ => no_app es && (length ds =? 0)%nat
  | SPending | SFailing _ =>
      no_app es &&
      (if reported k then (length ds =? 0)%nat
       else match ds with [RErr _ _] => true | _ => false end)
  end.

Fixpoint chk_recvs (ty : rtype) (k : chk) (chunks : list bytes) (tr : list (list ev)) (lost : bool) : bool :=
  match chunks, tr with
  | [], [] => negb lost
  | [], [es] => lost && chk_lost k es
  | c :: cs, es :: tr' =>
      match chk_recv ty k c es with
      | Some k' => chk_recvs ty k' cs tr' lost
      | None => false
      end
  | _, _ => false
  end.

(* writes: the greeting at connect time, then exactly one request (checked by C06), and only
   once the server has selected method 0 *)
Fixpoint writes_ok (seen : bytes) (chunks : list bytes) (tr : list (list ev)) (requested : bool) : bool :=
  match chunks, tr with
  | c :: cs, es :: tr' =>
      let s := seen ++ c in
      let selected := match s with v :: m :: _ => (code v =? 5) && (code m =? 0) | _ => false end in
      let n := count is_wrote es in
      if requested then (n =? 0)%nat && writes_ok s cs tr' true
      else if selected then (n =? 1)%nat && writes_ok s cs tr' true
      else (n =? 0)%nat && writes_ok s cs tr' false
  | _, [es] => (count is_wrote es =? 0)%nat
  | _, _ => true
  end.

(* the whole trace: tr = events of Connected :: events of each chunk ++ [events of Lost] *)
Definition oracle (ty : rtype) (chunks : list bytes) (lost : bool) (tr : list (list ev)) : bool :=
  match tr with
  | conn :: tr' =>
      (count is_wrote conn =? 1)%nat
      && match conn with [EWrote g] => beqb g greeting_noauth | _ => false end
      && chk_recvs ty {| prev := SPending; reported := false; seen := [] |} chunks tr' lost
      && writes_ok [] chunks tr' false
  | [] => false
  end.

(* input class of open finding C05-F1: CONNECT answered by a success reply of address type 3 *)
Definition stream_has_domain_success (chunks : list bytes) : bool :=
  match concat chunks with
  | v :: m :: rv :: rr :: _ :: at_ :: _ => (code v =? 5) && (code m =? 0) && (code rv =? 5) && (code rr =? 0) && (code at_ =? 3)
  | _ => false
  end.
