(* C16: the relay view equals the latest consensus document, nothing carried over.
   Written from the property text, dir-spec (network-status entry: "r", "a"*, "s", ["w"], ["p"]),
   control-spec (GETINFO ns/all, NEWCONSENSUS) and RFC 4648 (base64 / base16).
   Independent of Model/ and Gen/.

   A document is a list of entries; `render_doc` is its wire form (one byte string per line).
   A history is a list of documents: the first is delivered as the data block of GETINFO ns/all,
   every later one as a NEWCONSENSUS event.  After each document the harness observes a `view`:
   every relay index of TorState, the attributes of every Router object reachable from an index
   (objects are numbered in order of first sight, so equal numbers = same Python object), and the
   result of router_from_id for every identity and nickname of the document.
   `oracle docs views` says whether those views are what the property demands. *)
From Coq Require Import List Bool Ascii Arith NArith Lia String.
From TxVerif Require Import Lib.Bytes.
Import ListNotations.
Open Scope list_scope.
Open Scope N_scope.

(* ---------------------------------------------------------------- documents (dir-spec) *)
Record entry := {
  e_nick : bytes;            (* nickname *)
  e_id : bytes;              (* identity: the 20-byte digest itself (the "r" line carries its base64) *)
  e_digest : bytes;          (* descriptor digest, as the base64 text of the "r" line *)
  e_date : bytes; e_time : bytes;   (* publication "YYYY-MM-DD" "HH:MM:SS" *)
  e_ip : bytes; e_orport : bytes; e_dirport : bytes;
  e_v6 : list bytes;         (* one "a" line per element: "[addr]:port" *)
  e_flags : list bytes;      (* the "s" line *)
  e_bw : option bytes;       (* "w Bandwidth=<digits>" *)
  e_wextra : list bytes;     (* further keywords of the "w" line: Measured=.., Unmeasured=1 *)
  e_policy : option (list bytes)   (* "p accept|reject <portlist>" *)
}.
Definition doc := list entry.

(* RFC 4648 section 4 (base64, with padding) and section 8 (base16, upper case) *)
Definition str (s : string) : bytes := list_ascii_of_string s.
Definition B64 : bytes := str "ABCDEFGHIJKLMNOPQRSTUVWXYZabcdefghijklmnopqrstuvwxyz0123456789+/".
Definition b64char (i : N) : ascii := nth (N.to_nat i) B64 EQC.
Fixpoint b64enc (l : bytes) : bytes :=
  match l with
  | [] => []
  | a :: l1 =>
      match l1 with
      | [] => let n := code a * 16 in [b64char (n / 64); b64char (n mod 64); EQC; EQC]
      | b :: l2 =>
          match l2 with
          | [] => let n := code a * 1024 + code b * 4 in
                  [b64char (n / 4096); b64char ((n / 64) mod 64); b64char (n mod 64); EQC]
          | c :: r => let n := code a * 65536 + code b * 256 + code c in
                      b64char (n / 262144) :: b64char ((n / 4096) mod 64) :: b64char ((n / 64) mod 64)
                        :: b64char (n mod 64) :: b64enc r
          end
      end
  end.
Definition HEXU : bytes := str "0123456789ABCDEF".
Definition hexchar (i : N) : ascii := nth (N.to_nat i) HEXU EQC.
Definition hexenc (l : bytes) : bytes := flat_map (fun a => [hexchar (code a / 16); hexchar (code a mod 16)]) l.

(* dir-spec: "identity" is the base64 of the digest with the trailing "=" removed;
   control-spec: a relay is named by "$" + 40 upper-case hex digits *)
Definition identity_text (d : bytes) : bytes := removelast (b64enc d).
Definition fingerprint (d : bytes) : bytes := ch 36 :: hexenc d.
Definition hexid (e : entry) : bytes := fingerprint (e_id e).

Definition sp_join (ts : list bytes) : bytes := join [SP] ts.
Definition render_entry (e : entry) : list bytes :=
  [sp_join [str "r"; e_nick e; identity_text (e_id e); e_digest e; e_date e; e_time e; e_ip e; e_orport e; e_dirport e]]
  ++ map (fun a => sp_join [str "a"; a]) (e_v6 e)
  ++ [sp_join (str "s" :: e_flags e)]
  ++ match e_bw e with
     | Some d => [sp_join (str "w" :: (str "Bandwidth=" ++ d) :: e_wextra e)]
     | None => []
     end
  ++ match e_policy e with
     | Some p => [sp_join (str "p" :: p)]
     | None => []
     end.
Definition render_doc (d : doc) : list bytes := flat_map render_entry d.

(* ---- well-formed documents: what the property quantifies over *)
Definition is_ws (a : ascii) : bool :=
  let c := code a in ((9 <=? c) && (c <=? 13)) || ((28 <=? c) && (c <=? 32)).
Definition printable (a : ascii) : bool := let c := code a in (33 <=? c) && (c <=? 126).
Definition token (t : bytes) : bool := negb (beqb t []) && forallb printable t.
Definition is_digit (a : ascii) : bool := let c := code a in (48 <=? c) && (c <=? 57).
Definition is_alnum (a : ascii) : bool :=
  let c := code a in is_digit a || ((65 <=? c) && (c <=? 90)) || ((97 <=? c) && (c <=? 122)).
Definition lower (a : ascii) : ascii := let c := code a in if (65 <=? c) && (c <=? 90) then ch (c + 32) else a.
Definition lower_b (t : bytes) : bytes := map lower t.
Definition F_GUARD : bytes := str "Guard".
Definition F_AUTHORITY : bytes := str "Authority".
(* flags are case-sensitive words; a word that differs from Guard/Authority only in case is not
   one of dir-spec's flags and is excluded from the quantifier *)
Definition flag_ok (f : bytes) : bool :=
  token f
  && (negb (beqb (lower_b f) (lower_b F_GUARD)) || beqb f F_GUARD)
  && (negb (beqb (lower_b f) (lower_b F_AUTHORITY)) || beqb f F_AUTHORITY).
Definition wextra_ok (t : bytes) : bool := token t && negb (prefixb (str "Bandwidth=") t).
Definition wf_entry (e : entry) : bool :=
  negb (beqb (e_nick e) []) && forallb is_alnum (e_nick e) && (List.length (e_nick e) <=? 19)%nat
  && (List.length (e_id e) =? 20)%nat
  && token (e_digest e) && token (e_date e) && token (e_time e) && token (e_ip e)
  && token (e_orport e) && token (e_dirport e)
  && forallb token (e_v6 e)
  && negb (match e_flags e with [] => true | _ => false end) && forallb flag_ok (e_flags e)
  && match e_bw e with Some d => negb (beqb d []) && forallb is_digit d | None => true end
  && forallb wextra_ok (e_wextra e)
  && match e_bw e with None => match e_wextra e with [] => true | _ => false end | Some _ => true end
  && match e_policy e with Some p => negb (match p with [] => true | _ => false end) && forallb token p | None => true end.
Fixpoint nodupb (l : list bytes) : bool :=
  match l with [] => true | x :: r => negb (existsb (beqb x) r) && nodupb r end.
Definition wf_doc (d : doc) : bool := forallb wf_entry d && nodupb (map e_id d).

(* extra keys the harness passes to router_from_id after a document: nicknames of any kind, and
   fingerprints (optionally "$hex~nick" / "$hex=nick") only of relays of that document: an unknown
   fingerprint would make router_from_id create a placeholder Router, which is outside C16 *)
Definition extra_ok (d : doc) (extra : list bytes) : bool :=
  forallb (fun k => negb (prefixb [ch 36] k) || existsb (fun e => beqb (firstn 41 k) (hexid e)) d) extra.
Definition input_ok (dx : doc * list bytes) : bool := wf_doc (fst dx) && extra_ok (fst dx) (snd dx).

(* ---------------------------------------------------------------- observations *)
Record robs := {
  o_num : nat;                (* object number: same number = same Router object *)
  o_name : bytes; o_idhash : bytes; o_idhex : bytes;
  o_ip : bytes; o_orport : bytes; o_dirport : bytes;
  o_v6 : list bytes; o_flags : list bytes; o_bw : N; o_fromc : bool }.

Inductive lres := LFound (n : nat) | LNoneVal | LMissing | LOther.

Record view := {
  v_objs : list robs;                          (* every object reachable from an index *)
  v_all : list nat;                            (* all_routers (a set) *)
  v_routers : list (bytes * option nat);       (* routers: key -> object or None *)
  v_byname : list (bytes * list nat);          (* routers_by_name *)
  v_byhash : list (bytes * nat);               (* routers_by_hash *)
  v_guards : list (bytes * nat);               (* guards, keyed by $hex *)
  v_auths : list (bytes * nat);                (* authorities, keyed by nickname *)
  v_lookups : list (bytes * lres);             (* router_from_id(key) *)
  v_exn : N                                    (* 0 = the document was taken in without an exception *)
}.

(* ---------------------------------------------------------------- the oracle *)
Fixpoint aget {V} (k : bytes) (m : list (bytes * V)) : option V :=
  match m with
  | [] => None
  | (k', v) :: m' => if beqb k k' then Some v else aget k m'
  end.
Definition keys {V} (m : list (bytes * V)) : list bytes := map fst m.
Definition memn (n : nat) (l : list nat) : bool := existsb (Nat.eqb n) l.
Definition same_set (a b : list nat) : bool :=
  (List.length a =? List.length b)%nat && forallb (fun x => memn x b) a && forallb (fun x => memn x a) b.
Fixpoint nodupn (l : list nat) : bool :=
  match l with [] => true | x :: r => negb (memn x r) && nodupn r end.

Definition dec_value (d : bytes) : N := fold_left (fun acc c => acc * 10 + (code c - 48)) d 0.
Definition bw_of (e : entry) : N := match e_bw e with Some d => dec_value d | None => 0 end.
Definition has_flag (f : bytes) (e : entry) : bool := existsb (beqb f) (e_flags e).

Definition obj (v : view) (n : nat) : option robs := find (fun o => Nat.eqb (o_num o) n) (v_objs v).
Definition num_of (v : view) (e : entry) : option nat := aget (hexid e) (v_byhash v).
Definition num_or0 (v : view) (e : entry) : nat := match num_of v e with Some n => n | None => O end.

(* the object stands for exactly what the document says about e *)
Definition obj_matches (e : entry) (o : robs) : bool :=
  beqb (o_name o) (e_nick e) && beqb (o_idhash o) (identity_text (e_id e)) && beqb (o_idhex o) (hexid e)
  && beqb (o_ip o) (e_ip e) && beqb (o_orport o) (e_orport e) && beqb (o_dirport o) (e_dirport e)
  && list_eqb beqb (o_v6 o) (e_v6 e)
  && list_eqb beqb (o_flags o) (map lower_b (e_flags e))
  && (o_bw o =? bw_of e) && o_fromc o.

Definition same_nick (e : entry) (d : doc) : doc := filter (fun x => beqb (e_nick x) (e_nick e)) d.
Definition nick_unique (e : entry) (d : doc) : bool := (List.length (same_nick e d) =? 1)%nat.

(* 1: every relay of the document is known under its identity, as one object of its own, with the
      document's attributes; nothing else is known by identity *)
Definition c_relays (d : doc) (v : view) : bool :=
  forallb (fun e => match num_of v e with
                    | Some n => match obj v n with Some o => obj_matches e o | None => false end
                    | None => false
                    end) d
  && (List.length (v_byhash v) =? List.length d)%nat && nodupb (keys (v_byhash v))
  && nodupn (map (num_or0 v) d)
  && same_set (v_all v) (map (num_or0 v) d).

(* 2: lookup by identity always works; by nickname exactly for nicknames unique in the document;
      no other key is known *)
Definition c_routers (d : doc) (v : view) : bool :=
  nodupb (keys (v_routers v))
  && forallb (fun e =>
       option_eqb (option_eqb Nat.eqb) (aget (hexid e) (v_routers v)) (Some (Some (num_or0 v e)))
       && match aget (e_nick e) (v_routers v) with
          | Some (Some n) => nick_unique e d && Nat.eqb n (num_or0 v e)
          | Some None | None => negb (nick_unique e d)
          end) d
  && forallb (fun k => existsb (fun e => beqb k (hexid e) || beqb k (e_nick e)) d) (keys (v_routers v)).

Definition c_byname (d : doc) (v : view) : bool :=
  nodupb (keys (v_byname v))
  && forallb (fun e => match aget (e_nick e) (v_byname v) with
                       | Some l => same_set l (map (num_or0 v) (same_nick e d))
                       | None => false
                       end) d
  && forallb (fun k => existsb (fun e => beqb k (e_nick e)) d) (keys (v_byname v)).

(* 3: guards / authorities hold exactly the relays carrying the flag *)
Definition c_guards (d : doc) (v : view) : bool :=
  nodupb (keys (v_guards v))
  && (List.length (v_guards v) =? List.length (filter (has_flag F_GUARD) d))%nat
  && forallb (fun e => option_eqb Nat.eqb (aget (hexid e) (v_guards v)) (Some (num_or0 v e)))
             (filter (has_flag F_GUARD) d).
Definition c_auths (d : doc) (v : view) : bool :=
  nodupb (keys (v_auths v))
  && same_set (map snd (v_auths v)) (map (num_or0 v) (filter (has_flag F_AUTHORITY) d))
  && forallb (fun kn => match obj v (snd kn) with Some o => beqb (fst kn) (o_name o) | None => false end) (v_auths v).

(* 4: router_from_id: "$hex", "$hex~nick" and "$hex=nick" name the relay with that identity; a
      nickname names a relay iff it is unique in the document; anything else is unknown *)
Definition c_lookups (d : doc) (v : view) : bool :=
  forallb (fun e =>
     match aget (hexid e) (v_lookups v) with Some (LFound n) => Nat.eqb n (num_or0 v e) | _ => false end
     && match aget (e_nick e) (v_lookups v) with
        | Some (LFound n) => nick_unique e d && Nat.eqb n (num_or0 v e)
        | Some LNoneVal | Some LMissing => negb (nick_unique e d)
        | _ => false
        end) d
  && forallb (fun kr =>
       match find (fun e => beqb (firstn 41 (fst kr)) (hexid e)) d with
       | Some e => match snd kr with LFound n => Nat.eqb n (num_or0 v e) | _ => false end
       | None => existsb (fun e => beqb (fst kr) (e_nick e)) d
                 || match snd kr with LMissing => true | _ => false end
       end) (v_lookups v).

(* 5: a relay present in consecutive documents keeps its object *)
Definition c_identity (pd : doc) (pv : view) (d : doc) (v : view) : bool :=
  forallb (fun e => match find (fun x => beqb (e_id x) (e_id e)) pd with
                    | Some x => option_eqb Nat.eqb (num_of pv x) (num_of v e)
                    | None => true
                    end) d.

Definition view_ok (d : doc) (v : view) : bool :=
  (v_exn v =? 0) && c_relays d v && c_routers d v && c_byname d v && c_guards d v && c_auths d v && c_lookups d v.

Fixpoint oracle_from (pd : doc) (pv : view) (ds : list doc) (vs : list view) : bool :=
  match ds, vs with
  | [], [] => true
  | d :: ds', v :: vs' => view_ok d v && c_identity pd pv d v && oracle_from d v ds' vs'
  | _, _ => false
  end.

Definition oracle (ds : list doc) (vs : list view) : bool :=
  match ds, vs with
  | d :: ds', v :: vs' => view_ok d v && oracle_from d v ds' vs'
  | _, _ => false
  end.

(* which clause fails first (diagnostics for replay files; 0 = none) *)
Definition view_clause (d : doc) (v : view) : N :=
  if negb (v_exn v =? 0) then 1 else if negb (c_relays d v) then 2 else if negb (c_routers d v) then 3
  else if negb (c_byname d v) then 4 else if negb (c_guards d v) then 5 else if negb (c_auths d v) then 6
  else if negb (c_lookups d v) then 7 else 0.

(* ---- identity conversion (router.hexIdFromHash / hashFromHexId), observed on 20-byte digests:
   co_hex = hexIdFromHash(base64 form), co_b64 = hashFromHexId("$" + hex), co_b64n = hashFromHexId(hex);
   None = the function raised *)
Record cobs := { co_id : bytes; co_hex : option bytes; co_b64 : option bytes; co_b64n : option bytes }.
Definition codec_ok (c : cobs) : bool :=
  (List.length (co_id c) =? 20)%nat
  && option_eqb beqb (co_hex c) (Some (fingerprint (co_id c)))
  && option_eqb beqb (co_b64 c) (Some (identity_text (co_id c)))
  && option_eqb beqb (co_b64n c) (Some (identity_text (co_id c))).

(* ---- input class of the open finding (C16-F1, an entry with "p" and no "w" line, is repaired) *)
(* C16-F2: two relays of one document that share a nickname and both carry Authority *)
Definition doc_dup_authority_nick (d : doc) : bool :=
  negb (nodupb (map e_nick (filter (has_flag F_AUTHORITY) d))).

(* the histories on which the full statement is proved: well-formed input outside the class of C16-F2 *)
Definition history_ok (ds : list (doc * list bytes)) : bool :=
  forallb (fun dx => input_ok dx && negb (doc_dup_authority_nick (fst dx))) ds.
