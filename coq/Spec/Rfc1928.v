(* RFC 1928 (SOCKS5) requests and replies, plus Tor's RESOLVE (0xF0) / RESOLVE_PTR (0xF1)
   command codes, written from the RFC text. Independent of Model/ and Gen/. *)
From Coq Require Import List Bool Ascii NArith Lia.
From TxVerif Require Import Lib.Bytes.
Import ListNotations.
Open Scope N_scope.

Inductive saddr := SHost (h : bytes) | SV4 (a : bytes) | SV6 (a : bytes).

Definition saddr_eqb (a b : saddr) : bool :=
  match a, b with
  | SHost x, SHost y | SV4 x, SV4 y | SV6 x, SV6 y => beqb x y
  | _, _ => false
  end.

Lemma saddr_eqb_eq a b : saddr_eqb a b = true <-> a = b.
Proof.
  destruct a, b; cbn; rewrite ?beqb_eq; split; intros H; try congruence; try discriminate.
Qed.

(* method selection message: VER NMETHODS METHODS *)
Definition greeting_noauth : bytes := [ch 5; ch 1; ch 0].

(* split exactly n bytes off the front *)
Fixpoint take (n : nat) (l : bytes) : option (bytes * bytes) :=
  match n with
  | O => Some ([], l)
  | S n' => match l with
            | [] => None
            | x :: l' => match take n' l' with Some (a, r) => Some (x :: a, r) | None => None end
            end
  end.

Definition port_of (r : bytes) : option N :=
  match r with
  | [hi; lo] => Some (code hi * 256 + code lo)
  | _ => None
  end.

(* request: VER=5 CMD RSV=0 ATYP DST.ADDR DST.PORT, nothing after it *)
Definition decode_request (b : bytes) : option (N * saddr * N) :=
  match b with
  | v :: cmd :: rsv :: atyp :: rest =>
      if negb ((code v =? 5) && (code rsv =? 0)) then None else
      if code atyp =? 1 then
        match take 4 rest with
        | Some (a, r) => match port_of r with Some p => Some (code cmd, SV4 a, p) | None => None end
        | None => None
        end
      else if code atyp =? 4 then
        match take 16 rest with
        | Some (a, r) => match port_of r with Some p => Some (code cmd, SV6 a, p) | None => None end
        | None => None
        end
      else if code atyp =? 3 then
        match rest with
        | n :: rest' =>
            match take (N.to_nat (code n)) rest' with
            | Some (h, r) => match port_of r with Some p => Some (code cmd, SHost h, p) | None => None end
            | None => None
            end
        | [] => None
        end
      else None
  | _ => None
  end.

Definition CMD_CONNECT : N := 1.
Definition CMD_RESOLVE : N := 240.
Definition CMD_RESOLVE_PTR : N := 241.
