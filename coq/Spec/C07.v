(* C07: the live state lists exactly Tor's circuits and streams; attachments consistent in both
   directions.  Written from the property text and control-spec 4.1.1 / 4.1.2 (CIRC and STREAM
   events, GETINFO circuit-status / stream-status).  Independent of Model/ and Gen/.

   Everything textual is a number here; the harness owns the (trusted) printing of these numbers
   to Tor's wire syntax and the reading back of the public attributes:
     circuit / stream ids          the decimal id
     relay number r                the fingerprint $HEX40 of relay r (harness table)
     nick code n                   0 = no nickname in the LongName, else a nickname
     host code                     a host name or an IP address literal
     keyword (k, v)                K=V with K from a table; k = 0 PURPOSE, 1 BUILD_FLAGS (v = bit mask of
                                   the four build flags), 2 REASON, 3 REMOTE_REASON,
                                   4 SOURCE_ADDR (v = address code * 65536 + port), 5.. others *)
From Coq Require Import List Bool Arith NArith Lia.
From TxVerif Require Import Lib.Bytes Lib.NList.
Import ListNotations.
Open Scope N_scope.

Inductive cstatus := CLaunched | CBuilt | CGuardWait | CExtended | CFailed | CClosed.
Inductive sstatus := SNew | SRemap | SSentConnect | SSucceeded | SDetached | SFailed | SClosed
                    | SNewResolve | SSentResolve.      (* a RESOLVE request: announced, sent to the exit *)

Definition cstatus_code (s : cstatus) : N :=
  match s with CLaunched => 0 | CBuilt => 1 | CGuardWait => 2 | CExtended => 3 | CFailed => 4 | CClosed => 5 end.
Definition sstatus_code (s : sstatus) : N :=
  match s with SNew => 0 | SRemap => 1 | SSentConnect => 2 | SSucceeded => 3 | SDetached => 4 | SFailed => 5 | SClosed => 6
             | SNewResolve => 7 | SSentResolve => 8 end.
Definition cstatus_eqb (a b : cstatus) : bool := cstatus_code a =? cstatus_code b.
Definition sstatus_eqb (a b : sstatus) : bool := sstatus_code a =? sstatus_code b.

Definition c_terminal (s : cstatus) : bool := match s with CFailed | CClosed => true | _ => false end.
Definition s_terminal (s : sstatus) : bool := match s with SFailed | SClosed => true | _ => false end.

Definition kws := list (N * N).
Definition K_PURPOSE : N := 0.
Definition K_BUILD_FLAGS : N := 1.
Definition K_REASON : N := 2.
Definition K_REMOTE_REASON : N := 3.
Definition K_SOURCE_ADDR : N := 4.

Definition kw_get (k : N) (kw : kws) : option N := option_map snd (kfind fst k kw).

(* BUILD_FLAGS=a,b,.. : the value code is a bit mask over flags 0..3, printed in this order *)
Definition build_flags_of (v : N) : list N := filter (fun i => N.testbit v i) [0; 1; 2; 3].

Record hop := { h_rid : N; h_nick : N }.

Inductive event :=
| ECirc (id : N) (st : cstatus) (path : list hop) (kw : kws)
| EStream (id : N) (st : sstatus) (cid : N) (host port : N) (kw : kws).

(* ---------------------------------------------------------------------------------------
   Tor's side of the story: what Tor still has after the events it reported *)
Record tcirc := { tc_id : N; tc_status : cstatus; tc_purpose : option N; tc_bflags : list N;
                  tc_flags : kws; tc_path : list N }.

(* which circuit a stream is on: none / the live circuit c / a circuit Tor has since closed
   (the stream has not been detached, closed or failed yet) *)
Inductive att := ANone | AOn (c : N) | ADangling.

(* target: the host first reported (the name the stream is destined for), the port, and the address
   of the latest REMAP if any.  Tor changes a stream's address only through REMAP and never its port,
   so the target of the latest event is (ts_addr or else ts_host, ts_port). *)
Record tstream := { ts_id : N; ts_status : sstatus; ts_host : N; ts_port : N; ts_addr : option N;
                    ts_src : option (N * N); ts_att : att }.

Record tview := { tcs : list tcirc; tss : list tstream }.
Definition tv0 : tview := {| tcs := []; tss := [] |}.

Definition ts_current (t : tstream) : N := match ts_addr t with Some a => a | None => ts_host t end.

Definition or_else {A} (a b : option A) : option A := match a with Some _ => a | None => b end.

Definition dangle (c : N) (t : tstream) : tstream :=
  match ts_att t with
  | AOn c' => if c' =? c then {| ts_id := ts_id t; ts_status := ts_status t; ts_host := ts_host t; ts_port := ts_port t;
                                 ts_addr := ts_addr t; ts_src := ts_src t; ts_att := ADangling |} else t
  | _ => t
  end.

Definition tor_step (tv : tview) (e : event) : tview :=
  match e with
  | ECirc id st path kw =>
      let old := kfind tc_id id (tcs tv) in
      if c_terminal st then
        {| tcs := kdel tc_id id (tcs tv); tss := map (dangle id) (tss tv) |}
      else
        let c := {| tc_id := id; tc_status := st;
                    tc_purpose := or_else (kw_get K_PURPOSE kw) (match old with Some o => tc_purpose o | None => None end);
                    tc_bflags := match kw_get K_BUILD_FLAGS kw with
                                 | Some v => build_flags_of v
                                 | None => match old with Some o => tc_bflags o | None => [] end
                                 end;
                    tc_flags := kw;
                    tc_path := map h_rid path |} in
        {| tcs := kset tc_id c (tcs tv); tss := tss tv |}
  | EStream id st cid host port kw =>
      let old := kfind ts_id id (tss tv) in
      if s_terminal st then
        {| tcs := tcs tv; tss := kdel ts_id id (tss tv) |}
      else
        let s := {| ts_id := id; ts_status := st;
                    ts_host := match old with Some o => ts_host o | None => host end;
                    ts_port := match old with Some o => ts_port o | None => port end;
                    ts_addr := match st with SRemap => Some host | _ => match old with Some o => ts_addr o | None => None end end;
                    ts_src := or_else (option_map (fun v => (v / 65536, v mod 65536)) (kw_get K_SOURCE_ADDR kw))
                                      (match old with Some o => ts_src o | None => None end);
                    ts_att := match st with
                              | SDetached => ANone
                              | _ => if cid =? 0 then ANone
                                     else match old with
                                          | Some o => match ts_att o with ADangling => ADangling | _ => AOn cid end
                                          | None => AOn cid
                                          end
                              end |} in
        {| tcs := tcs tv; tss := kset ts_id s (tss tv) |}
  end.

(* ---------------------------------------------------------------------------------------
   What Tor can emit (control-spec 4.1.1, 4.1.2): the quantifier of the property *)
Definition kw_ok (kw : kws) : bool :=
  nodupN (map fst kw) && forallb (fun p => fst p <? 100) kw &&     (* keyword numbers; 100 + k is k in lower case (C08) *)
  match kw_get K_BUILD_FLAGS kw with Some v => (1 <=? v) && (v <? 16) | None => true end &&
  match kw_get K_SOURCE_ADDR kw with Some v => v <? 4294967296 | None => true end.

Definition ev_legal (tv : tview) (e : event) : bool :=
  match e with
  | ECirc id st path kw =>
      (1 <=? id) && kw_ok kw &&
      match st with
      | CLaunched => match path with [] => true | _ => false end   (* a launched circuit has no hops *)
      | CFailed | CClosed => true
      | _ => match kfind tc_id id (tcs tv) with
             | Some o => prefixN (tc_path o) (map h_rid path)    (* hops are only ever added *)
             | None => true
             end
      end
  | EStream id st cid host port kw =>
      kw_ok kw && (port <? 65536) &&
      let old := kfind ts_id id (tss tv) in
      if s_terminal st then true else
      match st, old with SNew, Some _ | SNewResolve, Some _ => false | _, _ => true end &&   (* NEW / NEWRESOLVE only for an id Tor does not have *)
      match old with
      | Some o => (port =? ts_port o) &&
                  match st with SRemap => true | _ => host =? ts_current o end
      | None => true
      end &&
      match st with
      | SDetached => true
      | _ => match (match old with Some o => ts_att o | None => ANone end) with
             | ANone => (cid =? 0) || kmem tc_id cid (tcs tv)   (* attaches only to a circuit Tor has *)
             | AOn c => (cid =? c) || (cid =? 0)   (* stays, or Tor reports it on no circuit any more (circuit id 0); it
                                                      moves to another circuit only through that or DETACHED *)
             | ADangling => cid =? 0               (* its circuit is gone: circuit id 0, or DETACHED/CLOSED/FAILED follow *)
             end
      end
  end.

Fixpoint legal_from (tv : tview) (evs : list event) : bool :=
  match evs with
  | [] => true
  | e :: evs' => ev_legal tv e && legal_from (tor_step tv e) evs'
  end.

Definition is_circ (e : event) : bool := match e with ECirc _ _ _ _ => true | _ => false end.
(* a snapshot is the reply to GETINFO circuit-status followed by the reply to GETINFO stream-status *)
Fixpoint snapshot_shaped (snap : list event) : bool :=
  match snap with
  | [] => true
  | e :: t => if is_circ e then snapshot_shaped t else forallb (fun x => negb (is_circ x)) t
  end.

Definition legal (snap evs : list event) : bool := snapshot_shaped snap && legal_from tv0 (snap ++ evs).

(* ---------------------------------------------------------------------------------------
   Observations: TorState.circuits / TorState.streams and the public attributes of their members.
   Object identity is an allocation-order number (separately for Circuit and Stream objects).
   o_heap: (object number, .streams as Stream object numbers) of every Circuit object created so far that is
   in TorState.circuits or whose .streams is not empty, in creation order. *)
Record cobs := { co_oid : N; co_id : N; co_status : option cstatus; co_purpose : option N; co_bflags : list N;
                 co_flags : kws; co_path : list (N * N) (* relay number, nickname code *) }.
Record sobs := { so_oid : N; so_id : N; so_status : option sstatus; so_host : option N; so_port : N;
                 so_addr : option N; so_src : option N; so_sport : N; so_circ : option N }.
Record obs := { o_raised : N (* 0 = the event was processed without an exception *);
                o_circs : list cobs; o_streams : list sobs; o_heap : list (N * list N) }.

Definition optN_eqb := @option_eqb N N.eqb.
Definition listN_eqb := @list_eqb N N.eqb.
Definition kws_eqb := @list_eqb (N * N) pair_eqb.

Definition circ_match (t : tcirc) (c : cobs) : bool :=
  match co_status c with Some s => cstatus_eqb s (tc_status t) | None => false end &&
  optN_eqb (co_purpose c) (tc_purpose t) &&
  listN_eqb (co_bflags c) (tc_bflags t) &&
  kws_eqb (co_flags c) (tc_flags t) &&
  listN_eqb (map fst (co_path c)) (tc_path t).

Definition stream_match (t : tstream) (s : sobs) : bool :=
  match so_status s with Some x => sstatus_eqb x (ts_status t) | None => false end &&
  optN_eqb (so_host s) (Some (ts_host t)) &&
  (so_port s =? ts_port t) &&
  optN_eqb (so_addr s) (ts_addr t) &&
  match ts_src t with
  | Some (a, p) => optN_eqb (so_src s) (Some a) && (so_sport s =? p)
  | None => optN_eqb (so_src s) None && (so_sport s =? 0)
  end.

Definition occurrences (soid : N) (cs : list (N * list N)) : nat :=
  sum_nat (map (fun c => countN soid (snd c)) cs).

Definition cell_count (coid soid : N) (cs : list (N * list N)) : nat :=
  match kfind fst coid cs with Some c => countN soid (snd c) | None => O end.

Definition attach_ok (o : obs) (t : tstream) (s : sobs) : bool :=
  let total := occurrences (so_oid s) (o_heap o) in
  match ts_att t with
  | ANone => optN_eqb (so_circ s) None && (total =? 0)%nat
  | AOn c =>
      match kfind co_id c (o_circs o) with
      | Some cc => optN_eqb (so_circ s) (Some (co_oid cc))
                   && (cell_count (co_oid cc) (so_oid s) (o_heap o) =? 1)%nat && (total =? 1)%nat
      | None => false
      end
  | ADangling =>
      match so_circ s with
      | Some coid => negb (memN coid (map co_oid (o_circs o)))
                     && (cell_count coid (so_oid s) (o_heap o) =? 1)%nat && (total =? 1)%nat
      | None => false
      end
  end.

Definition check_obs (tv : tview) (o : obs) : bool :=
  (o_raised o =? 0) &&
  (* exactly Tor's circuits, each with its latest attributes *)
  (length (o_circs o) =? length (tcs tv))%nat && nodupN (map co_id (o_circs o)) &&
  forallb (fun t => match kfind co_id (tc_id t) (o_circs o) with Some c => circ_match t c | None => false end) (tcs tv) &&
  (* exactly Tor's streams, each with its latest attributes *)
  (length (o_streams o) =? length (tss tv))%nat && nodupN (map so_id (o_streams o)) &&
  forallb (fun t => match kfind so_id (ts_id t) (o_streams o) with Some s => stream_match t s | None => false end) (tss tv) &&
  (* objects are distinct *)
  nodupN (map fst (o_heap o)) && nodupN (map co_oid (o_circs o)) && nodupN (map so_oid (o_streams o)) &&
  forallb (fun c => memN (co_oid c) (map fst (o_heap o))) (o_circs o) &&
  (* no Circuit object anywhere lists a stream Tor no longer has *)
  forallb (fun c => forallb (fun soid => memN soid (map so_oid (o_streams o))) (snd c)) (o_heap o) &&
  (* every stream is listed under exactly the circuit it is on, once, and nowhere else *)
  forallb (fun t => match kfind so_id (ts_id t) (o_streams o) with Some s => attach_ok o t s | None => false end) (tss tv).

Fixpoint oracle_from (tv : tview) (evs : list event) (tr : list obs) : bool :=
  match evs, tr with
  | [], [] => true
  | e :: evs', o :: tr' => let tv' := tor_step tv e in check_obs tv' o && oracle_from tv' evs' tr'
  | _, _ => false
  end.

Definition tor_view (evs : list event) : tview := fold_left tor_step evs tv0.

(* tr = the observation after the snapshot, then one observation after every event *)
Definition oracle (snap evs : list event) (tr : list obs) : bool :=
  match tr with
  | o0 :: tr' => let tv := tor_view snap in check_obs tv o0 && oracle_from tv evs tr'
  | [] => false
  end.

(* ---------------------------------------------------------------------------------------
   The application asks Tor to build circuits: build_circuit(routers) writes EXTENDCIRCUIT 0 [fp,fp,..]; Tor
   answers the oldest outstanding request with "250 EXTENDED id" (the circuit exists now) or with a 5xx.
   The answer and the CIRC events of that circuit may arrive in either order.  The answer is Tor's
   statement "id EXTENDED" about the circuit: it carries no keywords and no path (stated before any hop was
   reported), so it is read like the event CIRC id EXTENDED without arguments.
   Observed in addition to TorState: what a stimulus made the library write / complete:
     (0, n) (3, r1) .. (3, rn)   EXTENDCIRCUIT 0 with the relays r1..rn was written
     (1, oid) (4, k)             the k-th build_circuit() call completed with the Circuit object oid
     (2, k)                      the k-th build_circuit() call failed *)
Inductive stim := SEv (e : event) | SBuild (rs : list N) | SExtended (id : N) | SBuildErr.

Definition ext_event (id : N) : event := ECirc id CExtended [] [].

(* requested / still unanswered build_circuit() calls *)
Record bstate := { b_req : N; b_pend : N }.
Definition b0 : bstate := {| b_req := 0; b_pend := 0 |}.

Definition stim_legal (tv : tview) (b : bstate) (s : stim) : bool :=
  match s with
  | SEv e => ev_legal tv e
  | SBuild rs => true
  | SExtended id =>       (* answers a request; names an id Tor has (no hop reported yet) or is about to announce *)
      (0 <? b_pend b) && ev_legal tv (ext_event id) &&
      match kfind tc_id id (tcs tv) with Some o => match tc_path o with [] => true | _ => false end | None => true end
  | SBuildErr => 0 <? b_pend b
  end.

Definition stim_view (tv : tview) (s : stim) : tview :=
  match s with
  | SEv e => tor_step tv e
  | SExtended id => tor_step tv (ext_event id)
  | _ => tv
  end.

Definition stim_b (b : bstate) (s : stim) : bstate :=
  match s with
  | SEv _ => b
  | SBuild _ => {| b_req := b_req b + 1; b_pend := b_pend b + 1 |}
  | _ => {| b_req := b_req b; b_pend := b_pend b - 1 |}
  end.

Fixpoint legal2_from (tv : tview) (b : bstate) (l : list stim) : bool :=
  match l with
  | [] => true
  | s :: t => stim_legal tv b s && legal2_from (stim_view tv s) (stim_b b s) t
  end.
Definition legal2 (snap : list event) (l : list stim) : bool :=
  snapshot_shaped snap && legal_from tv0 snap && legal2_from (tor_view snap) b0 l.

Definition extra := list (N * N).
Definition extra_eqb := @list_eqb (N * N) pair_eqb.

(* [prev]: id -> object of the observation before this stimulus *)
Definition extra_ok (prev : list (N * N)) (b : bstate) (s : stim) (o : obs) (ex : extra) : bool :=
  match s with
  | SEv _ => extra_eqb ex []
  | SBuild rs => extra_eqb ex ((0, N.of_nat (length rs)) :: map (fun r => (3, r)) rs)
  | SExtended id =>
      (* the call completes with the object listed under id, which is the one that was listed before if any *)
      match kfind co_id id (o_circs o) with
      | Some c => extra_eqb ex [(1, co_oid c); (4, b_req b - b_pend b)] &&
                  match kfind fst id prev with Some p => snd p =? co_oid c | None => true end
      | None => false
      end
  | SBuildErr => extra_eqb ex [(2, b_req b - b_pend b)]
  end.

Definition listing (o : obs) : list (N * N) := map (fun c => (co_id c, co_oid c)) (o_circs o).

Fixpoint oracle2_from (tv : tview) (b : bstate) (prev : list (N * N)) (l : list stim) (tr : list (obs * extra)) : bool :=
  match l, tr with
  | [], [] => true
  | s :: l', (o, ex) :: tr' =>
      let tv' := stim_view tv s in
      check_obs tv' o && extra_ok prev b s o ex && oracle2_from tv' (stim_b b s) (listing o) l' tr'
  | _, _ => false
  end.

Definition oracle2 (snap : list event) (l : list stim) (tr : list (obs * extra)) : bool :=
  match tr with
  | (o0, ex0) :: tr' => let tv := tor_view snap in
                        check_obs tv o0 && extra_eqb ex0 [] && oracle2_from tv b0 (listing o0) l tr'
  | [] => false
  end.
