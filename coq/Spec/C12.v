(* C12: the SETCONF line produced for any list of key/value pairs, read with Tor's control-port
   grammar, yields exactly those keys and values in order; no key or value can cause more than
   one command line to be written.
   Written from the property text and Spec/TorGrammar.v. Independent of Model/ and Gen/. *)
From Coq Require Import List Bool Ascii NArith ZArith.
From TxVerif Require Import Lib.Bytes Lib.Decimal Spec.TorGrammar.
Import ListNotations.
Open Scope N_scope.

(* an argument of set_conf(): a string (code points 0..255, one per byte), an int or a bool *)
Inductive arg := AStr (s : bytes) | AInt (z : Z) | ABool (b : bool).

(* the text a non-string argument stands for: what Python's str() prints *)
Definition text_of (a : arg) : bytes :=
  match a with
  | AStr s => s
  | AInt z => dec_of_Z z
  | ABool true => map ch [84; 114; 117; 101]          (* True *)
  | ABool false => map ch [70; 97; 108; 115; 101]     (* False *)
  end.

(* history: set_conf(args...) | some other command is queued | Tor answers the command in flight *)
Inductive op := OCall (args : list arg) | OOther | OReply.

(* one list of events per op. ids are op indices (0-based). *)
Inductive ev :=
| EvWrite (b : bytes)              (* one transport.write() *)
| EvFired (id : N)                 (* the Deferred of op [id] fired with Tor's answer *)
| EvFailed (id : N) (kind : N)     (* the Deferred of op [id] failed: 1 RuntimeError, 2 ValueError, 9 other *)
| EvRaised (kind : N).             (* the call itself raised: 3 UnicodeEncodeError, 9 other *)

Definition ev_eqb (a b : ev) : bool :=
  match a, b with
  | EvWrite x, EvWrite y => beqb x y
  | EvFired x, EvFired y => x =? y
  | EvFailed x k, EvFailed y j => (x =? y) && (k =? j)
  | EvRaised x, EvRaised y => x =? y
  | _, _ => false
  end.

Definition SETCONF : bytes := map ch [83; 69; 84; 67; 79; 78; 70].
Definition other_line : bytes := map ch [71; 69; 84; 73; 78; 70; 79; 32; 118; 101; 114; 115; 105; 111; 110]. (* GETINFO version *)

(* arguments read as name, value, name, value, ...; None = not a list of pairs *)
Fixpoint pairs_of (l : list bytes) : option (list kv) :=
  match l with
  | [] => Some []
  | k :: r => match r with
              | [] => None
              | v :: r' => match pairs_of r' with Some ps => Some ((k, v) :: ps) | None => None end
              end
  end.

Definition is_ascii (b : bytes) : bool := forallb (fun c => code c <? 128) b.
Definition kv_eqb (a b : kv) : bool := beqb (fst a) (fst b) && beqb (snd a) (snd b).

(* ---- the envelope of the round-trip clause.
   The property quantifies over printable ASCII plus TAB, CR, LF.  The clause is checked on the
   larger class: every character is ASCII, no NUL anywhere (a C string cannot carry it), and no
   VT (0x0b) in a value (Tor's kvline separators include VT, the property's alphabet does not). *)
Definition key_in_scope (k : bytes) : bool := is_ascii k && negb (memb NUL k).
Definition val_in_scope (v : bytes) : bool := is_ascii v && negb (memb NUL v) && negb (memb VT v).
Definition in_scope (kvs : list kv) : bool :=
  forallb (fun p => key_in_scope (fst p) && val_in_scope (snd p)) kvs.

(* requests that must be accepted and written: names Tor can read as one keyword, ASCII values *)
Definition must_accept (kvs : list kv) : bool :=
  forallb (fun p => tor_key_ok (fst p) && is_ascii (snd p)) kvs.

(* what the server reads from the arguments of one SETCONF *)
Definition tor_reads (kvs : list kv) (rest : bytes) : option (list kv) :=
  if forallb (fun p => tor_key_ok (fst p)) kvs then parse_kvline_strict rest else parse_kvline rest.

(* what is expected of the next line written *)
Inductive pend := PSet (kvs : list kv) | POther.

Definition check_write (p : pend) (w : bytes) : bool :=
  match one_line w with                 (* exactly one line: body CR LF, no other CR or LF *)
  | None => false
  | Some body =>
      match p with
      | POther => beqb body other_line
      | PSet kvs =>
          match command_args SETCONF body with
          | None => false
          | Some rest =>
              if in_scope kvs then option_eqb (list_eqb kv_eqb) (tor_reads kvs rest) (Some kvs) else true
          end
      end
  end.

(* every write consumes the oldest expected line *)
Fixpoint consume (evs : list ev) (pending : list pend) : option (list pend) :=
  match evs with
  | [] => Some pending
  | EvWrite w :: evs' =>
      match pending with
      | [] => None
      | p :: q => if check_write p w then consume evs' q else None
      end
  | _ :: evs' => consume evs' pending
  end.

Definition rejected (idx : N) (evs : list ev) : bool :=
  existsb (fun e => match e with EvFailed i _ => i =? idx | EvRaised _ => true | _ => false end) evs.

(* nacc = commands accepted so far, nrep = answers so far *)
Fixpoint walk (idx : N) (ops : list op) (tr : list (list ev)) (pending : list pend) (nacc nrep : N) : bool :=
  match ops, tr with
  | [], [] => nlen pending =? nacc - N.min nacc (nrep + 1)      (* one in flight, the rest wait, none lost *)
  | o :: ops', evs :: tr' =>
      let continue_with pending nacc nrep :=
        match consume evs pending with
        | Some pending' => walk (idx + 1) ops' tr' pending' nacc nrep
        | None => false
        end in
      match o with
      | OCall args =>
          match pairs_of (map text_of args) with
          | None => rejected idx evs && continue_with pending nacc nrep       (* not pairs: nothing may be sent *)
          | Some kvs =>
              if rejected idx evs then negb (must_accept kvs) && continue_with pending nacc nrep
              else continue_with (pending ++ [PSet kvs]) (nacc + 1) nrep
          end
      | OOther => continue_with (pending ++ [POther]) (nacc + 1) nrep
      | OReply => continue_with pending nacc (nrep + 1)
      end
  | _, _ => false
  end.

Definition oracle (ops : list op) (tr : list (list ev)) : bool := walk 0 ops tr [] 0 0.
