(* C06: what a well-formed SOCKS5 request for a target is. Independent of Model/ and Gen/. *)
From Coq Require Import List Bool Ascii NArith Lia.
From TxVerif Require Import Lib.Bytes Spec.Rfc1928.
Import ListNotations.
Open Scope N_scope.

Inductive rtype := RConnect | RResolve | RResolvePtr.
(* how Python's ipaddress module classifies the host text, with the packed address *)
Inductive tclass := CHost | CV4 (a : bytes) | CV6 (a : bytes).

Record target := { t_text : bytes;   (* the host string, UTF-8 encoded *)
                   t_cls : tclass }.

Definition is_ascii (b : bytes) : bool := forallb (fun c => code c <? 128) b.

Definition wf_target (t : target) : Prop :=
  match t_cls t with CHost => True | CV4 a => length a = 4%nat | CV6 a => length a = 16%nat end.
Definition wf_targetb (t : target) : bool :=
  match t_cls t with CHost => true | CV4 a => nlen a =? 4 | CV6 a => nlen a =? 16 end.

(* what the one request must decode to; None = the target cannot be encoded and must be refused *)
Definition expected (ty : rtype) (t : target) (port : N) : option (N * saddr * N) :=
  match ty with
  | RConnect =>
      if 65535 <? port then None else
      match t_cls t with
      | CV4 a => Some (CMD_CONNECT, SV4 a, port)
      | CV6 a => Some (CMD_CONNECT, SV6 a, port)
      | CHost => if is_ascii (t_text t) && (nlen (t_text t) <=? 255)
                 then Some (CMD_CONNECT, SHost (t_text t), port) else None
      end
  | RResolve =>
      if is_ascii (t_text t) && (nlen (t_text t) <=? 255)
      then Some (CMD_RESOLVE, SHost (t_text t), 0) else None
  | RResolvePtr =>
      match t_cls t with
      | CV4 a => Some (CMD_RESOLVE_PTR, SV4 a, 0)
      | CV6 a => Some (CMD_RESOLVE_PTR, SV6 a, 0)
      | CHost => None
      end
  end.

(* observation: what the client wrote as its request (after the server selected method 0) *)
Inductive obs := OWrote (b : bytes) | ORefused.

Definition req_eqb (x y : N * saddr * N) : bool :=
  let '(c1, a1, p1) := x in let '(c2, a2, p2) := y in (c1 =? c2) && saddr_eqb a1 a2 && (p1 =? p2).

Definition oracle (ty : rtype) (t : target) (port : N) (o : obs) : bool :=
  match expected ty t port, o with
  | Some e, OWrote b => match decode_request b with Some d => req_eqb d e | None => false end
  | None, ORefused => true
  | _, _ => false
  end.

(* the request may be written only once the server's method-selection reply (VER=5, METHOD=0,
   the one method offered) is complete; for any other reply -- another method, another version,
   an incomplete reply -- nothing at all is written after the greeting *)
Definition selected (method_reply : bytes) : bool :=
  match method_reply with
  | v :: m :: _ => (code v =? 5) && (code m =? 0)
  | _ => false
  end.
Definition oracle_full (ty : rtype) (t : target) (port : N) (method_reply : bytes) (o : obs) : bool :=
  if selected method_reply then oracle ty t port o
  else match o with OWrote [] | ORefused => true | _ => false end.

(* the input class of the open finding C06-F1 (CONNECT to an IPv6 literal) *)
Definition is_connect_v6 (ty : rtype) (t : target) : bool :=
  match ty, t_cls t with RConnect, CV6 _ => true | _, _ => false end.
