(* C11 -- Config view equals Tor's configuration, with stable types, across change events.
   The oracle: right after attaching, every option Tor lists reads as Tor's value parsed by the
   declared type (default when unset; names case-insensitive) [boot_oracle]; afterwards the
   reference semantics of Spec/CfgOracle.v over histories of CONF_CHANGED events, local edits,
   saves, reads and socks_endpoint() [cfg_oracle]: after an event every option without a pending
   local change reads as the NEW value parsed by its type, list options as tracked lists whether
   the event carried zero, one or many values, and an in-place edit followed by save() emits it.
   A port list that names no listener at attach time (unset or "auto") may read as reported or
   as the default lines [Spec/CfgOracle.v worlds].
   Also: the input classes of the open findings of C11.
   Independent of Model/ and Gen/. *)
From Coq Require Import String.
From Coq Require Import List Bool Ascii Arith NArith ZArith Lia.
From TxVerif Require Import Lib.Bytes Lib.CfgLib Spec.CfgTypes Spec.TorStore Spec.CfgOracle Spec.C10.
Import ListNotations.
Open Scope N_scope.

Definition c11_scope (i : cfg_input) : bool := in_scope i && negb (copy_of_pending i).

Definition oracle (i : cfg_input) (boot_ok : bool) (boot : list rres) (tr : list obs) : bool :=
  full_oracle i boot_ok boot tr.

(* ------------------------------------------------------------------ finding classes *)
(* F5 = C10-F3 (edit_while_detached), whose third clause needs an event: an in-place edit of a
   list option for which Tor announced a new value while a local change was pending.
   (F1-F4 of this property are repaired in the source; their witnesses are kept in the corpus and
   as `_now_accepted` theorems.) *)

Definition c11_known (i : cfg_input) : bool := c10_known i.
