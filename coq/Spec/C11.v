(* C11 -- Config view equals Tor's configuration, with stable types, across change events.
   The oracle: right after attaching, every option Tor lists reads as Tor's value parsed by the
   declared type (default when unset; names case-insensitive) [boot_oracle]; afterwards the
   reference semantics of Spec/CfgOracle.v over histories of CONF_CHANGED events, local edits,
   saves, reads and socks_endpoint() [cfg_oracle]: after an event every option without a pending
   local change reads as the NEW value parsed by its type, list options as tracked lists whether
   the event carried zero, one or many values, and an in-place edit followed by save() emits it.
   A port list that names no listener at attach time (unset or "auto") may read as reported or
   as the default lines [Spec/CfgOracle.v worlds].
   Also: the input classes of the open findings of C11.
   Independent of Model/ and Gen/. *)
From Coq Require Import String.
From Coq Require Import List Bool Ascii Arith NArith ZArith Lia.
From TxVerif Require Import Lib.Bytes Lib.CfgLib Spec.CfgTypes Spec.TorStore Spec.CfgOracle Spec.C10.
Import ListNotations.
Open Scope N_scope.

Definition c11_scope (i : cfg_input) : bool := in_scope i && negb (copy_of_pending i).

Definition oracle (i : cfg_input) (boot_ok : bool) (boot : list rres) (tr : list obs) : bool :=
  full_oracle i boot_ok boot tr.

(* ------------------------------------------------------------------ announced values no type can read *)
(* Tor may announce, for a numeric or boolean option, a value its declared type cannot represent
   (control-spec lets a Port-typed option be "auto": `650-ORPort=auto`).  The property text does not
   say what the view shows for THAT option; the reading judged here is the one the source commits to
   ("still apply the other options of this event"): the option keeps its previous view until it is
   named again, and every other option named by the same event reads as its NEW value.  [settle]
   removes such items from the events of a history (an event left with no line at all is outside the
   envelope, as every empty event is); verdicts are computed on the settled input, so
   that scope, oracle and model all see the event without the unreadable line while the
   implementation receives it. *)
Definition unparsable_item (opts : list (bytes * kind)) (it : bytes * option bytes) : bool :=
  match dfind_ci (fst it) opts, snd it with
  | Some (_, k), Some v =>
      match k with
      | KBool | KBoolAuto | KInt | KFloat =>
          negb (is_nil v) && match parse_scalar k v with None => true | Some _ => false end
      | _ => false
      end
  | _, _ => false
  end.

Definition settle_op (opts : list (bytes * kind)) (o : op) : op :=
  match o with
  | OpEvent items => OpEvent (filter (fun it => negb (unparsable_item opts it)) items)
  | _ => o
  end.

Definition settle (i : cfg_input) : cfg_input :=
  {| i_table := i_table i; i_store := i_store i; i_defaults := i_defaults i; i_pre := i_pre i;
     i_ops := map (settle_op (options (i_table i))) (i_ops i) |}.

(* ------------------------------------------------------------------ finding classes *)
(* F5 = C10-F3 (edit_while_detached), whose third clause needs an event: an in-place edit of a
   list option for which Tor announced a new value while a local change was pending.
   (F1-F4 of this property are repaired in the source; their witnesses are kept in the corpus and
   as `_now_accepted` theorems.) *)

Definition c11_known (i : cfg_input) : bool := c10_known i.
