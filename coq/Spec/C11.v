(* C11 -- Config view equals Tor's configuration, with stable types, across change events.
   The oracle: right after attaching, every option Tor lists reads as Tor's value parsed by the
   declared type (default when unset; names case-insensitive) [boot_oracle]; afterwards the
   reference semantics of Spec/CfgOracle.v over histories of CONF_CHANGED events, local edits,
   saves, reads and socks_endpoint() [cfg_oracle]: after an event every option without a pending
   local change reads as the NEW value parsed by its type, list options as tracked lists whether
   the event carried zero, one or many values, and an in-place edit followed by save() emits it.
   Also: the input classes of the open findings of C11.
   Independent of Model/ and Gen/. *)
From Coq Require Import String.
From Coq Require Import List Bool Ascii Arith NArith ZArith Lia.
From TxVerif Require Import Lib.Bytes Lib.CfgLib Spec.CfgTypes Spec.TorStore Spec.CfgOracle Spec.C10.
Import ListNotations.
Open Scope N_scope.

Definition c11_scope (i : cfg_input) : bool := in_scope i.

Definition oracle (i : cfg_input) (boot_ok : bool) (boot : list rres) (tr : list obs) : bool :=
  boot_oracle i boot_ok boot && cfg_oracle i tr.

(* ------------------------------------------------------------------ finding classes *)
Definition port_options (i : cfg_input) : list bytes :=
  concat (map (fun o : bytes * kind => match snd o with KPorts => [fst o] | _ => [] end) (options (i_table i))).

(* F1 portlist_bootstrap_irregular: a port list (announced by a <X>PortLines row) whose value in
   Tor at attach time is anything but exactly one line other than "auto": unset, "auto", or many *)
Definition portlist_bootstrap_irregular (i : cfg_input) : bool :=
  existsb (fun cn => match store_get (i_store i) cn with
                     | [v] => beqb v auto_word || is_nil v
                     | _ => true
                     end) (port_options i).

(* F2 portlist_conf_changed: a CONF_CHANGED event names a port list *)
Definition event_keys (o : op) : list bytes :=
  match o with OpEvent items => map fst items | _ => [] end.
Definition portlist_conf_changed (i : cfg_input) : bool :=
  existsb (fun k => mem_ci k (port_options i)) (concat (map event_keys (i_ops i))).

(* F3 conf_changed_multi_then_keyword: in one event, a keyword-only line directly follows a
   Key=Value line whose key has already carried a value earlier in the same event *)
Fixpoint count_key (k : bytes) (l : list bytes) : nat :=
  match l with [] => O | x :: t => (if beqb x k then 1 else 0) + count_key k t end.
Fixpoint multi_then_keyword (seen : list bytes) (prev : option bytes) (items : list (bytes * option bytes)) : bool :=
  match items with
  | [] => false
  | (k, Some _) :: rest => multi_then_keyword (k :: seen) (Some k) rest
  | (_, None) :: rest =>
      (match prev with Some pk => Nat.ltb 1 (count_key pk seen) | None => false end)
      || multi_then_keyword seen None rest
  end.
Definition conf_changed_multi_then_keyword (i : cfg_input) : bool :=
  existsb (fun o => match o with OpEvent items => multi_then_keyword [] None items | _ => false end) (i_ops i).

(* F4 comma_default_unsplit: config/defaults has a line with a comma for a comma-list option *)
Definition comma_default_unsplit (i : cfg_input) : bool :=
  existsb (fun o : bytes * kind =>
             match snd o with
             | KComma => existsb (memb COMMA) (default_lines (i_defaults i) (fst o))
             | _ => false
             end) (options (i_table i)).

(* F5 = C10-F3 (edit_while_detached), whose third clause needs an event: an in-place edit of a
   list option for which Tor announced a new value while a local change was pending *)

Definition c11_known (i : cfg_input) : bool :=
  portlist_bootstrap_irregular i || portlist_conf_changed i || conf_changed_multi_then_keyword i
  || comma_default_unsplit i || c10_known i.
