(* C04 oracle: a reference monitor over (stimulus, events of that stimulus) pairs.
   It reads the commands back from the bytes written, keeps the FIFO of unanswered commands,
   and checks, operation by operation:
    A  before the 250 that answers AUTHENTICATE only PROTOCOLINFO/AUTHCHALLENGE/AUTHENTICATE;
    B  the method attempted is the first usable of SAFECOOKIE, COOKIE, password, NULL, the
       provider is consulted only when that method is "password", nothing is attempted
       before PROTOCOLINFO was answered;
    C  a cookie is used only if it has 32 bytes (part of `good_cookie`);
    D  under SAFECOOKIE the only AUTHENTICATE argument ever allowed is the client proof, and
       only after a reply whose SERVERHASH equals hmac(server key, cookie ++ cnonce ++ snonce);
       the nonce on the wire is the fresh 32-byte one;
    E  the ready notification fires at most once; success exactly when the last of the four
       bootstrap queries succeeded after an accepted AUTHENTICATE; failure exactly when the
       deciding failure arrives; never stuck with nothing in flight and no notification.
   `hmac` is a parameter: the statement is about which values are compared and sent. *)
From Coq Require Import List Bool Ascii Arith NArith Lia String.
From TxVerif Require Import Lib.Bytes Lib.Hex Spec.C04.
Import ListNotations.
Open Scope N_scope.

Record mon := {
  m_out : list cmd;         (* written and not yet answered, oldest first *)
  m_pi : bool;              (* a PROTOCOLINFO reply with an AUTH line was received *)
  m_lost : bool;
  m_settled : bool;         (* the ready notification has fired *)
  m_accepted : bool;        (* a 250 answered an AUTHENTICATE *)
  m_attempt : bool;         (* an attempt was started (challenge, authenticate, provider call) *)
  m_pwwait : bool;          (* the provider's Deferred has not fired yet *)
  m_pw : option bytes;      (* a password the client holds and has not sent *)
  m_proof : option bytes;   (* the proof the client is entitled to send and has not sent *)
  m_done : list bytes       (* bootstrap requirements met *)
}.

Definition mon0 : mon :=
  {| m_out := []; m_pi := false; m_lost := false; m_settled := false; m_accepted := false;
     m_attempt := false; m_pwwait := false; m_pw := None; m_proof := None; m_done := [] |}.

Inductive expect := XNone | XOk | XFail | XMay.
Inductive verd := Bad | Stop | Go (m : mon).
Inductive hashv := VGood (proof : bytes) | VLenient (proof : bytes) | VBad.

Definition upd_out (m : mon) (o : list cmd) : mon :=
  {| m_out := o; m_pi := m_pi m; m_lost := m_lost m; m_settled := m_settled m;
     m_accepted := m_accepted m; m_attempt := m_attempt m; m_pwwait := m_pwwait m;
     m_pw := m_pw m; m_proof := m_proof m; m_done := m_done m |}.
Definition upd_auth (m : mon) (att : bool) (pw proof : option bytes) (pwwait : bool) : mon :=
  {| m_out := m_out m; m_pi := m_pi m; m_lost := m_lost m; m_settled := m_settled m;
     m_accepted := m_accepted m; m_attempt := att; m_pwwait := pwwait;
     m_pw := pw; m_proof := proof; m_done := m_done m |}.
Definition upd_flags (m : mon) (pi lost settled accepted : bool) (done : list bytes) : mon :=
  {| m_out := m_out m; m_pi := pi; m_lost := lost; m_settled := settled;
     m_accepted := accepted; m_attempt := m_attempt m; m_pwwait := m_pwwait m;
     m_pw := m_pw m; m_proof := m_proof m; m_done := done |}.

Definition is_none {A} (x : option A) : bool := match x with None => true | Some _ => false end.
Definition memk (k : bytes) (l : list bytes) : bool := existsb (beqb k) l.
Definition boot_complete (d : list bytes) : bool :=
  memk I_SIGNAL d && memk I_VERSION d && memk I_EVENTS d && memk W_USEFEATURE d.

Definition readys (es : list ev) : list outcome :=
  flat_map (fun x => match x with EReady o => [o] | _ => [] end) es.

(* does the notification of this operation fit the expectation? returns the new `settled` *)
Definition ready_fits (settled : bool) (x : expect) (es : list ev) : option bool :=
  match readys es, x with
  | [], XNone | [], XMay => Some settled
  | [ROk], XOk => if settled then None else Some true
  | [RFail _ _], XFail | [RFail _ _], XMay => if settled then None else Some true
  | _, _ => None
  end.

Section Oracle.
  Variable e : env.

  Definition push (m : mon) (c : cmd) : mon := upd_out m (m_out m ++ [c]).

  Definition on_write (m : mon) (c : cmd) : option mon :=
    let m' := push m c in
    if m_accepted m then Some m' else
    match c with
    | CProtoInfo => Some m'
    | CChal n =>
        match expected e with
        | Some MSafe =>
            if m_pi m && negb (m_attempt m) && beqb n (e_nonce e) && (nlen n =? 32)
            then Some (upd_auth m' true (m_pw m) (m_proof m) (m_pwwait m)) else None
        | _ => None
        end
    | CAuth arg =>
        if negb (m_pi m) then None else
        match expected e, arg with
        | Some MSafe, Some a =>
            match m_proof m with
            | Some p => if beqb a p then Some (upd_auth m' true (m_pw m) None (m_pwwait m)) else None
            | None => None
            end
        | Some MCookie, Some a =>
            match good_cookie e with
            | Some c => if negb (m_attempt m) && beqb a c
                        then Some (upd_auth m' true (m_pw m) (m_proof m) (m_pwwait m)) else None
            | None => None
            end
        | Some MPassword, Some a =>
            match m_pw m with
            | Some pw => if beqb a pw then Some (upd_auth m' true None (m_proof m) (m_pwwait m)) else None
            | None => None
            end
        | Some MNull, None =>
            if negb (m_attempt m) then Some (upd_auth m' true (m_pw m) (m_proof m) (m_pwwait m)) else None
        | _, _ => None
        end
    | _ => None
    end.

  Definition on_pwcall (m : mon) : option mon :=
    match expected e with
    | Some MPassword =>
        if m_pi m && negb (m_attempt m) then
          match provider_answer e with
          | PwNow x => Some (upd_auth m true x (m_proof m) false)
          | PwDeferred => Some (upd_auth m true None (m_proof m) true)
          end
        else None
    | _ => None
    end.

  Fixpoint on_events (m : mon) (es : list ev) : option mon :=
    match es with
    | [] => Some m
    | EWrote b :: es' =>
        match on_write m (parse_line b) with Some m' => on_events m' es' | None => None end
    | EPwCall :: es' =>
        match on_pwcall m with Some m' => on_events m' es' | None => None end
    | _ :: es' => on_events m es'
    end.

  (* nothing in flight, nothing awaited, and no notification: the client is stuck *)
  Definition stuck (m : mon) : bool :=
    negb (m_settled m) && match m_out m with [] => true | _ => false end && negb (m_pwwait m).

  Definition run_op (m m1 : mon) (es : list ev) (after : mon -> option expect) : verd :=
    match on_events m1 es with
    | None => Bad
    | Some m2 =>
        match (if m_settled m then Some XNone else after m2) with
        | None => Bad
        | Some x =>
            match ready_fits (m_settled m) x es with
            | None => Bad
            | Some st =>
                let m3 := upd_flags m2 (m_pi m2) (m_lost m2) st (m_accepted m2) (m_done m2) in
                if stuck m3 then Bad else Go m3
            end
        end
    end.
End Oracle.

Section Oracle2.
  Variable hmac : bytes -> bytes -> bytes.
  Variable e : env.

  (* is the server's hash the HMAC over the cookie and both nonces? (n = nonce the client sent) *)
  Definition verify (c : challenge) (n : bytes) : hashv :=
    match good_cookie e, ch_hash c, ch_nonce c with
    | Some cookie, Some ht, Some nt =>
        match unhex_ci ht, unhex_ci nt with
        | Some sh, Some sn =>
            let msg := cookie ++ n ++ sn in
            if beqb sh (hmac SERVER_KEY msg) then
              match b16decode ht, b16decode nt with
              | Some _, Some _ => VGood (hmac CLIENT_KEY msg)
              | _, _ => VLenient (hmac CLIENT_KEY msg)     (* lower-case hex: either reaction *)
              end
            else VBad
        | _, _ => VBad
        end
    | _, _, _ => VBad
    end.

  Definition xfail (_ : mon) : option expect := Some XFail.

  (* the reply [o] answers command [c]; m0 = monitor with c popped *)
  Definition on_reply (m m0 : mon) (c : cmd) (o : op) (es : list ev) : verd :=
    if m_accepted m then
      let ok := match c, o with
                | CGetInfo k, OOk (DInfo k') => beqb k k'
                | CGetInfo k, OErr _ => beqb k I_SIGNAL
                | CGetInfo _, _ => false
                | _, OOk _ => true
                | _, _ => false
                end in
      let tag := match c with CGetInfo k => k | CUseFeature => W_USEFEATURE | _ => [] end in
      if ok then
        let d := tag :: m_done m0 in
        run_op e m (upd_flags m0 (m_pi m0) (m_lost m0) (m_settled m0) true d) es
               (fun _ => Some (if boot_complete d then XOk else XNone))
      else run_op e m m0 es xfail
    else
    match c, o with
    | CProtoInfo, OOk DProto =>
        if pi_auth (e_pi e) then
          run_op e m (upd_flags m0 true (m_lost m0) (m_settled m0) false (m_done m0)) es
            (fun m2 =>
               if m_attempt m2 then
                 match expected e with
                 | Some MPassword =>
                     match provider_answer e with
                     | PwNow None => Some XFail
                     | PwNow (Some _) => if is_none (m_pw m2) then Some XNone else None
                     | PwDeferred => Some XNone
                     end
                 | _ => Some XNone
                 end
               else if may_give_up e then Some XFail else None)
        else run_op e m m0 es xfail
    | CChal n, OOk (DChal ch) =>
        match verify ch n with
        | VGood p =>
            run_op e m (upd_auth m0 (m_attempt m0) (m_pw m0) (Some p) (m_pwwait m0)) es
              (fun m2 => if is_none (m_proof m2) then Some XNone else None)
        | VLenient p =>
            run_op e m (upd_auth m0 (m_attempt m0) (m_pw m0) (Some p) (m_pwwait m0)) es
              (fun m2 => if is_none (m_proof m2) then Some XNone else Some XFail)
        | VBad => run_op e m m0 es xfail
        end
    | CAuth _, OOk _ =>
        run_op e m (upd_flags m0 (m_pi m0) (m_lost m0) (m_settled m0) true (m_done m0)) es
          (fun _ => Some XNone)
    | _, _ => run_op e m m0 es xfail
    end.

  Definition step (m : mon) (o : op) (es : list ev) : verd :=
    match o with
    | OLose =>
        if m_lost m then Stop else
        let m1 := upd_out (upd_flags m (m_pi m) true (m_settled m) (m_accepted m) (m_done m)) [] in
        run_op e m m1 es
          (fun _ => Some (match m_out m with [] => XMay | _ => XFail end))
    | OPwFire =>
        if negb (m_pwwait m) then Stop else
        let pw := if m_lost m then None else later_pw e in
        run_op e m (upd_auth m (m_attempt m) pw (m_proof m) false) es
          (fun m2 => match later_pw e with
                     | None => Some XFail
                     | Some _ => if m_lost m then Some XFail
                                 else if is_none (m_pw m2) then Some XNone else None
                     end)
    | OOk _ | OErr _ =>
        if m_lost m then Stop else
        match m_out m with
        | [] => Stop
        | c :: rest => on_reply m (upd_out m rest) c o es
        end
    end.

  Fixpoint walk (m : mon) (ops : list op) (tr : list (list ev)) : bool :=
    match ops, tr with
    | [], [] => true
    | o :: ops', es :: tr' =>
        match step m o es with
        | Bad => false
        | Stop => true
        | Go m' => walk m' ops' tr'
        end
    | _, _ => false
    end.

  (* tr = events of connectionMade :: events of each operation *)
  Definition oracle (ops : list op) (tr : list (list ev)) : bool :=
    match tr with
    | es0 :: tr' =>
        match run_op e mon0 mon0 es0 (fun _ => Some XNone) with
        | Go m => walk m ops tr'
        | Stop => true
        | Bad => false
        end
    | [] => false
    end.
End Oracle2.

(* HMAC-SHA256 as a finite table of the (key, message) pairs of one case, computed by Python *)
Fixpoint tab_hmac (tab : list (bytes * bytes * bytes)) (k m : bytes) : bytes :=
  match tab with
  | [] => []
  | (k', m', d) :: tab' => if beqb k k' && beqb m m' then d else tab_hmac tab' k m
  end.
