(* C08: one notification per reported transition, in event order, with Tor's flags in both cases, to exactly
   the listeners registered on the object at that moment; waiting for BUILT succeeds iff the circuit reaches
   BUILT and fails once Tor closes or fails it first; a close request completes only when Tor reports the
   object gone (not at the acknowledgement of the close command), whichever comes first; every wait
   completes exactly once.  Written from the property text, control-spec 4.1.1/4.1.2 and the documented
   interfaces ICircuitListener / IStreamListener.  Independent of Model/ and Gen/.

   Objects are named by allocation-order numbers as in C07: the first event for an id Tor does not currently
   have creates the next Circuit (Stream) object.  Listeners and waits are small numbers chosen by the
   history.  Tor answers a CLOSECIRCUIT / CLOSESTREAM with 250 OK iff it has that id when the command is
   submitted; the acknowledgement itself arrives later, at the history's OAck (oldest unanswered first). *)
From Coq Require Import List Bool Arith NArith Lia.
From TxVerif Require Import Lib.Bytes Lib.NList Spec.C07.
Import ListNotations.
Open Scope N_scope.

Inductive op :=
| OEv (e : event)
| OAddCL (l : N)                 (* TorState.add_circuit_listener *)
| OAddSL (l : N)                 (* TorState.add_stream_listener *)
| OCListen (o l : N) | OCUnlisten (o l : N)      (* Circuit object o: listen / unlisten *)
| OSListen (o l : N) | OSUnlisten (o l : N)
| OWhenBuilt (o w : N) | OWhenClosed (o w : N)   (* wait w := circuit o .when_built() / .when_closed() *)
| OCClose (o w : N) | OSClose (o w : N)          (* wait w := circuit / stream o .close() *)
| OAck                                           (* Tor answers the oldest unanswered close command *)
| OBuild (rs : list N) (w : N)                   (* wait w := TorState.build_circuit(relays rs) *)
| OExtended (id : N)                             (* Tor answers the oldest unanswered EXTENDCIRCUIT: 250 EXTENDED id *)
| OBuildErr.                                     (* ... or with an error *)

(* outcome of a wait *)
Inductive wres :=
| WOkC (o : N)          (* fired with the Circuit object o *)
| WOkS (o : N)          (* fired with the Stream object o *)
| WOkNone               (* fired with None *)
| WFail (cls r1 r2 : N).  (* failed: 1 CircuitBuildClosedError 2 CircuitBuildFailedError 3 plain Exception
                             4 TorProtocolError 9 other; reason / remote reason codes + 1 (0 = absent) *)

(* listener methods *)
Definition M_NEW : N := 0.       (* circuit_new / stream_new *)
Definition M_LAUNCHED : N := 1.  (* circuit_launched / stream_succeeded *)
Definition M_EXTEND : N := 2.    (* circuit_extend (arg = relay number) / stream_attach (arg = Circuit object) *)
Definition M_BUILT : N := 3.     (* circuit_built / stream_detach *)
Definition M_CLOSED : N := 4.
Definition M_FAILED : N := 5.
Definition MS_NEW : N := 0.
Definition MS_SUCCEEDED : N := 1.
Definition MS_ATTACH : N := 2.
Definition MS_DETACH : N := 3.
Definition MS_CLOSED : N := 4.
Definition MS_FAILED : N := 5.

Inductive nev :=
| NCirc (l m o arg : N) (fl : kws)     (* circuit listener l: method m on Circuit object o, argument, keyword args *)
| NStream (l m o arg : N) (fl : kws)
| NDone (w : N) (r : wres)
| NCmd (kind id : N)                   (* submitted to the control connection: 0 CLOSECIRCUIT id, 1 CLOSESTREAM id;
                                          EXTENDCIRCUIT 0 r1,..,rn is NCmd 2 n followed by NCmd 3 r1 .. NCmd 3 rn *)
| NRaised (k : N).

(* Tor's flags as the listener receives them: every keyword under its upper-case and its lower-case name
   (lower-case keys are numbered 100 + k) *)
Definition both_cases (kw : kws) : kws := concat (map (fun p => [p; (100 + fst p, snd p)]) kw).

(* ---------------------------------------------------------------------------------------------- state *)
(* what the history alone determines (no observation enters here): Tor's view; which object stands for
   which id Tor currently has (the first event for an id Tor does not have creates the next object); for
   every object so far its Tor id and whether it reached BUILT; the listeners
   registered on it; the global listener lists; the wait ids used *)
Record oinfo := { oi_id : N; oi_built : bool }.

Record lstate := { l_tv : tview;
                   l_cdict : list (N * N); l_sdict : list (N * N);      (* Tor id -> object, for the ids Tor has *)
                   l_nc : N; l_ns : N;                                   (* objects created so far *)
                   l_cinfo : list (N * oinfo); l_sinfo : list (N * oinfo);
                   l_cregs : list (N * list N); l_sregs : list (N * list N);   (* object -> registered listeners *)
                   l_gcl : list N; l_gsl : list N;                        (* listeners added globally *)
                   l_used : list N;                                       (* wait ids used so far *)
                   (* the control connection answers in order: EXTENDCIRCUITs not yet answered; an upper bound of the
                      close commands not yet answered.  The property does not depend on how answers of the two kinds
                      interleave, so the quantifier keeps them apart: one of the two numbers is always 0 *)
                   l_nb : N; l_ncl : N }.

Definition ls0 : lstate :=
  {| l_tv := tv0; l_cdict := []; l_sdict := []; l_nc := 0; l_ns := 0; l_cinfo := []; l_sinfo := []; l_cregs := [];
     l_sregs := []; l_gcl := []; l_gsl := []; l_used := []; l_nb := 0; l_ncl := 0 |}.

Definition add_once (l : N) (ls : list N) : list N := if memN l ls then ls else ls ++ [l].
Definition dedupe (ls : list N) : list N := fold_left (fun acc l => add_once l acc) ls [].

(* the object an event for [id] is about: the one standing for that id, or the next new one *)
Definition locate (id : N) (dict : list (N * N)) (n : N) : bool * N :=
  match kfind fst id dict with Some p => (false, snd p) | None => (true, n) end.

Definition alive (dict : list (N * N)) (o : N) : bool := memN o (map snd dict).

(* a listener added globally is registered on every object Tor still has *)
Definition add_to_all (l : N) (dict : list (N * N)) (regs : list (N * list N)) : list (N * list N) :=
  fold_left (fun t p => tset t (snd p) (add_once l (tget [] t (snd p)))) dict regs.

Definition info0 (id : N) : oinfo := {| oi_id := id; oi_built := false |}.

(* None = not a history the property quantifies over *)
Definition lstep_ev (ls : lstate) (e : event) : option lstate :=
      if negb (ev_legal (l_tv ls) e) then None else
      let tv' := tor_step (l_tv ls) e in
      match e with
      | ECirc id st path kw =>
          let '(first, o) := locate id (l_cdict ls) (l_nc ls) in
          let d1 := if first then l_cdict ls ++ [(id, o)] else l_cdict ls in
          let old := tget (info0 id) (l_cinfo ls) o in
          Some {| l_tv := tv';
                  l_cdict := if c_terminal st then kdel fst id d1 else d1;
                  l_sdict := l_sdict ls;
                  l_nc := if first then l_nc ls + 1 else l_nc ls; l_ns := l_ns ls;
                  l_cinfo := tset (l_cinfo ls) o
                               {| oi_id := id;
                                  oi_built := oi_built old || match st with CBuilt => true | _ => false end |};
                  l_sinfo := l_sinfo ls;
                  l_cregs := if first then tset (l_cregs ls) o (dedupe (l_gcl ls)) else l_cregs ls;
                  l_sregs := l_sregs ls; l_gcl := l_gcl ls; l_gsl := l_gsl ls; l_used := l_used ls; l_nb := l_nb ls; l_ncl := l_ncl ls |}
      | EStream id st cid host port kw =>
          let '(first, o) := locate id (l_sdict ls) (l_ns ls) in
          let d1 := if first then l_sdict ls ++ [(id, o)] else l_sdict ls in
          Some {| l_tv := tv'; l_cdict := l_cdict ls;
                  l_sdict := if s_terminal st then kdel fst id d1 else d1;
                  l_nc := l_nc ls; l_ns := if first then l_ns ls + 1 else l_ns ls;
                  l_cinfo := l_cinfo ls; l_sinfo := tset (l_sinfo ls) o (info0 id);
                  l_cregs := l_cregs ls;
                  l_sregs := if first then tset (l_sregs ls) o (dedupe (l_gsl ls)) else l_sregs ls;
                  l_gcl := l_gcl ls; l_gsl := l_gsl ls; l_used := l_used ls; l_nb := l_nb ls; l_ncl := l_ncl ls |}
      end.

Definition with_q (ls : lstate) (nb ncl : N) : lstate :=
  {| l_tv := l_tv ls; l_cdict := l_cdict ls; l_sdict := l_sdict ls; l_nc := l_nc ls; l_ns := l_ns ls;
     l_cinfo := l_cinfo ls; l_sinfo := l_sinfo ls; l_cregs := l_cregs ls; l_sregs := l_sregs ls;
     l_gcl := l_gcl ls; l_gsl := l_gsl ls; l_used := l_used ls; l_nb := nb; l_ncl := ncl |}.
Definition use_q (ls : lstate) (w nb ncl : N) : lstate :=
  {| l_tv := l_tv ls; l_cdict := l_cdict ls; l_sdict := l_sdict ls; l_nc := l_nc ls; l_ns := l_ns ls;
     l_cinfo := l_cinfo ls; l_sinfo := l_sinfo ls; l_cregs := l_cregs ls; l_sregs := l_sregs ls;
     l_gcl := l_gcl ls; l_gsl := l_gsl ls; l_used := w :: l_used ls; l_nb := nb; l_ncl := ncl |}.

(* the answer 250 EXTENDED id names a circuit Tor has, none of whose hops was reported yet, or one it is about to announce *)
Definition ext_ok (tv : tview) (id : N) : bool :=
  match kfind tc_id id (tcs tv) with Some o => match tc_path o with [] => true | _ => false end | None => true end.

(* None = not a history the property quantifies over *)
Definition lstep (ls : lstate) (o : op) : option lstate :=
  match o with
  | OEv e => lstep_ev ls e
  | OAddCL l =>
      Some {| l_tv := l_tv ls; l_cdict := l_cdict ls; l_sdict := l_sdict ls; l_nc := l_nc ls; l_ns := l_ns ls;
              l_cinfo := l_cinfo ls; l_sinfo := l_sinfo ls;
              l_cregs := add_to_all l (l_cdict ls) (l_cregs ls); l_sregs := l_sregs ls;
              l_gcl := l_gcl ls ++ [l]; l_gsl := l_gsl ls; l_used := l_used ls; l_nb := l_nb ls; l_ncl := l_ncl ls |}
  | OAddSL l =>
      Some {| l_tv := l_tv ls; l_cdict := l_cdict ls; l_sdict := l_sdict ls; l_nc := l_nc ls; l_ns := l_ns ls;
              l_cinfo := l_cinfo ls; l_sinfo := l_sinfo ls;
              l_cregs := l_cregs ls; l_sregs := add_to_all l (l_sdict ls) (l_sregs ls);
              l_gcl := l_gcl ls; l_gsl := l_gsl ls ++ [l]; l_used := l_used ls; l_nb := l_nb ls; l_ncl := l_ncl ls |}
  | OCListen o l =>
      if o <? l_nc ls then
        Some {| l_tv := l_tv ls; l_cdict := l_cdict ls; l_sdict := l_sdict ls; l_nc := l_nc ls; l_ns := l_ns ls;
                l_cinfo := l_cinfo ls; l_sinfo := l_sinfo ls;
                l_cregs := tset (l_cregs ls) o (add_once l (tget [] (l_cregs ls) o)); l_sregs := l_sregs ls;
                l_gcl := l_gcl ls; l_gsl := l_gsl ls; l_used := l_used ls; l_nb := l_nb ls; l_ncl := l_ncl ls |}
      else None
  | OCUnlisten o l =>        (* only a listener that is registered can be removed *)
      if (o <? l_nc ls) && memN l (tget [] (l_cregs ls) o) then
        Some {| l_tv := l_tv ls; l_cdict := l_cdict ls; l_sdict := l_sdict ls; l_nc := l_nc ls; l_ns := l_ns ls;
                l_cinfo := l_cinfo ls; l_sinfo := l_sinfo ls;
                l_cregs := tset (l_cregs ls) o (remove1 l (tget [] (l_cregs ls) o)); l_sregs := l_sregs ls;
                l_gcl := l_gcl ls; l_gsl := l_gsl ls; l_used := l_used ls; l_nb := l_nb ls; l_ncl := l_ncl ls |}
      else None
  | OSListen o l =>
      if o <? l_ns ls then
        Some {| l_tv := l_tv ls; l_cdict := l_cdict ls; l_sdict := l_sdict ls; l_nc := l_nc ls; l_ns := l_ns ls;
                l_cinfo := l_cinfo ls; l_sinfo := l_sinfo ls; l_cregs := l_cregs ls;
                l_sregs := tset (l_sregs ls) o (add_once l (tget [] (l_sregs ls) o));
                l_gcl := l_gcl ls; l_gsl := l_gsl ls; l_used := l_used ls; l_nb := l_nb ls; l_ncl := l_ncl ls |}
      else None
  | OSUnlisten o l =>
      if (o <? l_ns ls) && memN l (tget [] (l_sregs ls) o) then
        Some {| l_tv := l_tv ls; l_cdict := l_cdict ls; l_sdict := l_sdict ls; l_nc := l_nc ls; l_ns := l_ns ls;
                l_cinfo := l_cinfo ls; l_sinfo := l_sinfo ls; l_cregs := l_cregs ls;
                l_sregs := tset (l_sregs ls) o (remove1 l (tget [] (l_sregs ls) o));
                l_gcl := l_gcl ls; l_gsl := l_gsl ls; l_used := l_used ls; l_nb := l_nb ls; l_ncl := l_ncl ls |}
      else None
  | OWhenBuilt o w | OWhenClosed o w =>      (* the object exists, the wait id is fresh *)
      if (o <? l_nc ls) && negb (memN w (l_used ls)) then Some (use_q ls w (l_nb ls) (l_ncl ls)) else None
  | OCClose o w =>
      if (o <? l_nc ls) && negb (memN w (l_used ls)) && (l_nb ls =? 0) then Some (use_q ls w (l_nb ls) (l_ncl ls + 1)) else None
  | OSClose o w =>
      if (o <? l_ns ls) && negb (memN w (l_used ls)) && (l_nb ls =? 0) then Some (use_q ls w (l_nb ls) (l_ncl ls + 1)) else None
  | OAck => if l_nb ls =? 0 then Some (with_q ls (l_nb ls) (l_ncl ls - 1)) else None
  | OBuild rs w =>
      if (l_ncl ls =? 0) && negb (memN w (l_used ls)) then Some (use_q ls w (l_nb ls + 1) (l_ncl ls)) else None
  | OExtended id =>
      if (0 <? l_nb ls) && ext_ok (l_tv ls) id
      then option_map (fun l => with_q l (l_nb ls - 1) (l_ncl ls)) (lstep_ev ls (ext_event id)) else None
  | OBuildErr => if 0 <? l_nb ls then Some (with_q ls (l_nb ls - 1) (l_ncl ls)) else None
  end.

Fixpoint legal8_from (ls : lstate) (ops : list op) : bool :=
  match ops with
  | [] => true
  | o :: t => match lstep ls o with Some ls' => legal8_from ls' t | None => false end
  end.
Definition legal8 (ops : list op) : bool := legal8_from ls0 ops.

(* what additionally depends on what was observed: the waits still open, the close commands not yet answered *)
Inductive wkind := KBuilt | KClosed | KClose.
(* an open wait; for KClose: gone_seen = the object was reported gone (before or since the request),
   pending_cmd = the close command this request submitted has not been answered yet *)
Record wait := { w_id : N; w_kind : wkind; w_circ : bool; w_obj : N; w_gone_seen : bool; w_pending_cmd : bool }.

Record sstate := { s_l : lstate; s_open : list wait;
                   s_cmdq : list (N * bool) }.      (* unanswered close commands: the wait, Tor's answer *)
Definition ss0 : sstate := {| s_l := ls0; s_open := []; s_cmdq := [] |}.

(* ---------------------------------------------------------------------------------------------- notifications *)
(* what a listener registered on the object must be told for this event, in this order *)
Definition expected_circ (first : bool) (oldlen : nat) (o : N) (st : cstatus) (path : list hop) (kw : kws)
  : list (N * N * N * kws) :=
  (if first then [(M_NEW, o, 0, [])] else []) ++
  match st with
  | CLaunched => [(M_LAUNCHED, o, 0, [])]
  | CFailed => [(M_FAILED, o, 0, both_cases kw)]
  | CClosed => [(M_CLOSED, o, 0, both_cases kw)]
  | _ => map (fun h => (M_EXTEND, o, h_rid h, [])) (skipn oldlen path) ++
         match st with CBuilt => [(M_BUILT, o, 0, [])] | _ => [] end
  end.

Definition expected_stream (o : N) (st : sstatus) (attached_to : option N) (kw : kws) : list (N * N * N * kws) :=
  match st with
  | SNew | SNewResolve => [(MS_NEW, o, 0, [])]      (* "a new stream has been created": a connection or a RESOLVE request *)
  | SSucceeded => [(MS_SUCCEEDED, o, 0, [])]
  | SDetached => [(MS_DETACH, o, 0, both_cases kw)]
  | SClosed => [(MS_CLOSED, o, 0, both_cases kw)]
  | SFailed => [(MS_FAILED, o, 0, both_cases kw)]
  | _ => []
  end ++
  match attached_to with Some c => [(MS_ATTACH, o, c + 1, [])] | None => [] end.

Definition calls_of_circ (l : N) (es : list nev) : list (N * N * N * kws) :=
  concat (map (fun e => match e with NCirc l' m o a f => if l' =? l then [(m, o, a, f)] else [] | _ => [] end) es).
Definition calls_of_stream (l : N) (es : list nev) : list (N * N * N * kws) :=
  concat (map (fun e => match e with NStream l' m o a f => if l' =? l then [(m, o, a, f)] else [] | _ => [] end) es).
Definition circ_listeners_called (es : list nev) : list N :=
  concat (map (fun e => match e with NCirc l _ _ _ _ => [l] | _ => [] end) es).
Definition stream_listeners_called (es : list nev) : list N :=
  concat (map (fun e => match e with NStream l _ _ _ _ => [l] | _ => [] end) es).

(* keyword arguments are a dict: compared as sets of pairs *)
Definition kws_same (a b : kws) : bool :=
  (length a =? length b)%nat && nodupN (map fst a) &&
  forallb (fun p => existsb (pair_eqb p) b) a.
Definition call_eqb (a b : N * N * N * kws) : bool :=
  let '(m1, o1, a1, f1) := a in let '(m2, o2, a2, f2) := b in
  (m1 =? m2) && (o1 =? o2) && (a1 =? a2) && kws_same f1 f2.

(* What a listener does when it is called is its own business: return, raise (the harness lets listener
   8 * (m + 1) + i, i < 8, raise from its method m), or look at TorState.  Every OTHER listener still hears
   exactly its calls.  A listener >= 64 looks its object up in TorState.circuits / TorState.streams from inside
   every callback and reports what it saw in the argument: + 2000 = listed (as this object), + 1000 = not
   listed.  The state a callback sees already reflects the transition it is told about: the object is listed
   unless the callback is *_closed / *_failed. *)
Definition lqueries (l : N) : bool := 64 <=? l.
Definition carg (l m a : N) : N :=
  if lqueries l then a + (if (m =? M_CLOSED) || (m =? M_FAILED) then 1000 else 2000) else a.
Definition qcall (l : N) (c : N * N * N * kws) : N * N * N * kws :=
  let '(m, o, a, f) := c in (m, o, carg l m a, f).

Definition notif_ok (circ : bool) (regs : list N) (expected : list (N * N * N * kws)) (es : list nev) : bool :=
  let called := if circ then circ_listeners_called es else stream_listeners_called es in
  let other := if circ then stream_listeners_called es else circ_listeners_called es in
  match other with [] => true | _ => false end &&
  forallb (fun l => memN l regs) called &&
  forallb (fun l => list_eqb call_eqb (if circ then calls_of_circ l es else calls_of_stream l es) (map (qcall l) expected)) regs.

Definition no_notifs (es : list nev) : bool :=
  match circ_listeners_called es, stream_listeners_called es with [], [] => true | _, _ => false end.

(* ---------------------------------------------------------------------------------------------- waits *)
Definition dones (es : list nev) : list (N * wres) :=
  concat (map (fun e => match e with NDone w r => [(w, r)] | _ => [] end) es).
Definition has_cmd (es : list nev) : bool := existsb (fun e => match e with NCmd _ _ => true | _ => false end) es.
Definition raised (es : list nev) : bool := existsb (fun e => match e with NRaised _ => true | _ => false end) es.

Inductive want := WantOkC (o : N) | WantOk | WantFail | WantAny.
Definition res_ok (x : want) (r : wres) : bool :=
  match x, r with
  | WantOkC o, WOkC o' => o =? o'
  | WantOk, (WOkC _ | WOkS _ | WOkNone) => true
  | WantFail, WFail _ _ _ => true
  | WantAny, _ => true
  | _, _ => false
  end.

(* [must]: waits that have to complete in this operation; [may]: waits that are allowed to *)
Definition done_ok (must may : list (N * want)) (es : list nev) : bool :=
  let ds := dones es in
  nodupN (map fst ds) &&
  forallb (fun d => match kfind fst (fst d) (must ++ may) with Some (_, x) => res_ok x (snd d) | None => false end) ds &&
  forallb (fun m => memN (fst m) (map fst ds)) must.


(* ---------------------------------------------------------------------------------------------- one operation *)
(* the listener calls of one operation, judged against what the history so far determines: only an event
   notifies anybody; it tells exactly the listeners registered on its object what expected_* lists *)
Definition notif_check (ls : lstate) (o : op) (es : list nev) : bool :=
  match o with
  | OEv (ECirc id st path kw) =>
      let '(first, ob) := locate id (l_cdict ls) (l_nc ls) in
      let regs := if first then dedupe (l_gcl ls) else tget [] (l_cregs ls) ob in
      let oldlen := match kfind tc_id id (tcs (l_tv ls)) with Some t => length (tc_path t) | None => O end in
      notif_ok true regs (expected_circ first oldlen ob st path kw) es
  | OEv (EStream id st cid host port kw) =>
      let '(first, ob) := locate id (l_sdict ls) (l_ns ls) in
      let regs := if first then dedupe (l_gsl ls) else tget [] (l_sregs ls) ob in
      let tv' := tor_step (l_tv ls) (EStream id st cid host port kw) in
      let att_before := match kfind ts_id id (tss (l_tv ls)) with Some t => ts_att t | None => ANone end in
      let att_after := match kfind ts_id id (tss tv') with Some t => ts_att t | None => ANone end in
      let attached_to := match att_before, att_after with
                         | ANone, AOn c => option_map snd (kfind fst c (l_cdict ls))
                         | _, _ => None
                         end in
      notif_ok false regs (expected_stream ob st attached_to kw) es
  | OExtended id =>       (* the circuit is new to the listeners iff no event announced it before the answer *)
      let '(first, ob) := locate id (l_cdict ls) (l_nc ls) in
      let regs := if first then dedupe (l_gcl ls) else tget [] (l_cregs ls) ob in
      notif_ok true regs (expected_circ first O ob CExtended [] []) es
  | _ => no_notifs es
  end.

Definition mark_gone (circ : bool) (o : N) (ds : list (N * wres)) (ws : list wait) : list wait :=
  concat (map (fun w => if memN (w_id w) (map fst ds) then []
                        else if Bool.eqb (w_circ w) circ && (w_obj w =? o)
                             then [{| w_id := w_id w; w_kind := w_kind w; w_circ := w_circ w; w_obj := w_obj w;
                                      w_gone_seen := true; w_pending_cmd := w_pending_cmd w |}]
                             else [w]) ws).
Definition drop_done (ds : list (N * wres)) (ws : list wait) : list wait :=
  filter (fun w => negb (memN (w_id w) (map fst ds))) ws.

(* the observations of an event, judged against the state before it *)
Definition spec_event (s : sstate) (e : event) (es : list nev) : bool * list wait :=
  let ls := s_l s in
  match e with
  | ECirc id st path kw =>
      let '(first, o) := locate id (l_cdict ls) (l_nc ls) in
      let built := match st with CBuilt => true | _ => false end in
      let gone := c_terminal st in
      let mine := filter (fun w => w_circ w && (w_obj w =? o)) (s_open s) in
      let must :=
        concat (map (fun w => match w_kind w with
                              | KBuilt => if built then [(w_id w, WantOkC o)] else if gone then [(w_id w, WantFail)] else []
                              | KClosed => if gone then [(w_id w, WantOkC o)] else []
                              | KClose => if gone && negb (w_pending_cmd w) then [(w_id w, WantOk)] else []
                              end) mine) in
      let may :=
        concat (map (fun w => match w_kind w with
                              | KClose => if gone && w_pending_cmd w then [(w_id w, WantOk)] else []
                              | _ => []
                              end) mine) in
      (notif_check ls (OEv e) es && done_ok must may es && negb (has_cmd es) && negb (raised es),
       if gone then mark_gone true o (dones es) (s_open s) else drop_done (dones es) (s_open s))
  | EStream id st cid host port kw =>
      let '(first, o) := locate id (l_sdict ls) (l_ns ls) in
      let gone := s_terminal st in
      let mine := filter (fun w => negb (w_circ w) && (w_obj w =? o)) (s_open s) in
      let must := concat (map (fun w => if gone && negb (w_pending_cmd w) then [(w_id w, WantOk)] else []) mine) in
      let may := concat (map (fun w => if gone && w_pending_cmd w then [(w_id w, WantOk)] else []) mine) in
      (notif_check ls (OEv e) es && done_ok must may es && negb (has_cmd es) && negb (raised es),
       if gone then mark_gone false o (dones es) (s_open s) else drop_done (dones es) (s_open s))
  end.

Definition cmds_ok (kind id : N) (es : list nev) : bool :=
  let cs := concat (map (fun e => match e with NCmd k i => [(k, i)] | _ => [] end) es) in
  match cs with
  | [] => true
  | [(k, i)] => (k =? kind) && (i =? id)
  | _ => false
  end.

(* a wait requested now (judged against the state before the request) *)
Definition spec_request (s : sstate) (circ : bool) (o w : N) (k : wkind) (es : list nev) : bool * list wait * list (N * bool) :=
  let ls := s_l s in
  let dict := if circ then l_cdict ls else l_sdict ls in
  let info := tget (info0 0) (if circ then l_cinfo ls else l_sinfo ls) o in
  let gone := negb (alive dict o) in
  let cmd := has_cmd es in
  let must :=
    match k with
    | KBuilt => if oi_built info then [(w, WantOkC o)] else if gone then [(w, WantFail)] else []
    | KClosed => if gone then [(w, WantOkC o)] else []
    | KClose => if gone && negb cmd then [(w, WantOk)] else []
    end in
  let may := match k with KClose => if gone && cmd then [(w, WantAny)] else [] | _ => [] end in
  let cmd_ok := match k with KClose => cmds_ok (if circ then 0 else 1) (oi_id info) es | _ => negb cmd end in
  let done := memN w (map fst (dones es)) in
  (* Tor has the id when the command is submitted: 250 OK, else 552 *)
  let answer := kmem fst (oi_id info) dict in
  (no_notifs es && done_ok must may es && cmd_ok && negb (raised es),
   if done then s_open s
   else s_open s ++ [{| w_id := w; w_kind := k; w_circ := circ; w_obj := o; w_gone_seen := gone; w_pending_cmd := cmd |}],
   if cmd then s_cmdq s ++ [(w, answer)] else s_cmdq s).

Definition spec_ack (s : sstate) (es : list nev) : bool * list wait * list (N * bool) :=
  match s_cmdq s with
  | [] => (match es with [] => true | _ => false end, s_open s, [])
  | (w, ok) :: q =>
      let mine := filter (fun x => w_id x =? w) (s_open s) in
      let must := concat (map (fun x => if w_gone_seen x then [(w, if ok then WantOk else WantAny)] else []) mine) in
      let may := concat (map (fun x => if negb ok && negb (w_gone_seen x) then [(w, WantFail)] else []) mine) in
      (no_notifs es && done_ok must may es && negb (has_cmd es) && negb (raised es),
       concat (map (fun x => if memN (w_id x) (map fst (dones es)) then []
                             else if w_id x =? w
                                  then [{| w_id := w_id x; w_kind := w_kind x; w_circ := w_circ x; w_obj := w_obj x;
                                           w_gone_seen := w_gone_seen x; w_pending_cmd := false |}]
                                  else [x]) (s_open s)),
       q)
  end.

(* build_circuit(): the EXTENDCIRCUIT command is submitted, nothing else happens; the call is answered later *)
Definition nev_eqb0 (a b : nev) : bool :=
  match a, b with NCmd k1 i1, NCmd k2 i2 => (k1 =? k2) && (i1 =? i2) | _, _ => false end.
Definition spec_build (s : sstate) (rs : list N) (w : N) (es : list nev) : bool * list wait * list (N * bool) :=
  (list_eqb nev_eqb0 es (NCmd 2 (N.of_nat (length rs)) :: map (NCmd 3) rs), s_open s, s_cmdq s ++ [(w, true)]).

(* 250 EXTENDED id: the oldest build_circuit() completes with the Circuit object standing for id -- the one
   already announced if an event for id came first, else a new one, announced (circuit_new) now *)
Definition spec_extended (s : sstate) (id : N) (es : list nev) : bool * list wait * list (N * bool) :=
  let ls := s_l s in
  match s_cmdq s with
  | [] => (false, s_open s, [])
  | (w, _) :: q =>
      let '(first, o) := locate id (l_cdict ls) (l_nc ls) in
      (notif_check ls (OExtended id) es && done_ok [(w, WantOkC o)] [] es && negb (has_cmd es) && negb (raised es),
       s_open s, q)
  end.

Definition spec_builderr (s : sstate) (es : list nev) : bool * list wait * list (N * bool) :=
  match s_cmdq s with
  | [] => (false, s_open s, [])
  | (w, _) :: q => (no_notifs es && done_ok [(w, WantFail)] [] es && negb (has_cmd es) && negb (raised es), s_open s, q)
  end.

Definition quiet (es : list nev) : bool := match es with [] => true | _ => false end.

(* None = the observations of this operation violate the property (or the history is not legal) *)
Definition spec_op (s : sstate) (o : op) (es : list nev) : option sstate :=
  match lstep (s_l s) o with
  | None => None
  | Some ls' =>
      let '(ok, open', cmdq') :=
        match o with
        | OEv e => let '(ok, open') := spec_event s e es in (ok, open', s_cmdq s)
        | OWhenBuilt ob w => spec_request s true ob w KBuilt es
        | OWhenClosed ob w => spec_request s true ob w KClosed es
        | OCClose ob w => spec_request s true ob w KClose es
        | OSClose ob w => spec_request s false ob w KClose es
        | OAck => spec_ack s es
        | OBuild rs w => spec_build s rs w es
        | OExtended id => spec_extended s id es
        | OBuildErr => spec_builderr s es
        | _ => (quiet es, s_open s, s_cmdq s)
        end in
      if ok then Some {| s_l := ls'; s_open := open'; s_cmdq := cmdq' |} else None
  end.

Fixpoint oracle_from8 (s : sstate) (ops : list op) (tr : list (list nev)) : bool :=
  match ops, tr with
  | [], [] => true
  | o :: ops', es :: tr' => match spec_op s o es with Some s' => oracle_from8 s' ops' tr' | None => false end
  | _, _ => false
  end.

Definition oracle8 (ops : list op) (tr : list (list nev)) : bool := oracle_from8 ss0 ops tr.

(* the notification clause alone, operation by operation *)
Fixpoint notifs_from (ls : lstate) (ops : list op) (tr : list (list nev)) : bool :=
  match ops, tr with
  | [], [] => true
  | o :: ops', es :: tr' =>
      notif_check ls o es && match lstep ls o with Some ls' => notifs_from ls' ops' tr' | None => false end
  | _, _ => false
  end.
Definition notifs_exact (ops : list op) (tr : list (list nev)) : bool := notifs_from ls0 ops tr.

(* histories without close requests *)
Definition no_close (ops : list op) : bool :=
  forallb (fun o => match o with OCClose _ _ | OSClose _ _ => false | _ => true end) ops.
