(* C13: GETINFO / GETCONF results map each key to exactly the value Tor sent.
   Tor's side (control-spec 3.9 GETINFO, 3.3 GETCONF):
     GETINFO k1 k2 ..   ->  250-k1=v1 / 250+k=  data lines  . / ... / 250 OK
     GETCONF k          ->  250 k=v   |  250 k  (default)  |  250-k=v1 .. 250 k=vn
   Independent of Model/ and Gen/. *)
From Coq Require Import List Bool Ascii Arith NArith.
From TxVerif Require Import Lib.Bytes Spec.Ctl.
Import ListNotations.
Open Scope N_scope.

(* what the caller gets for one key *)
Inductive pval := PStr (v : bytes) | PList (vs : list bytes).
Definition pval_eqb (a b : pval) : bool :=
  match a, b with
  | PStr x, PStr y => beqb x y
  | PList x, PList y => list_eqb beqb x y
  | _, _ => false
  end.
Definition dict := list (bytes * pval).
Definition dict_eqb (a b : dict) : bool :=
  list_eqb (fun x y => beqb (fst x) (fst y) && pval_eqb (snd x) (snd y)) a b.

Definition DEFAULT : bytes := map ch [68; 69; 70; 65; 85; 76; 84].

(* one GETINFO answer: a single-line value, or a multi-line value (data block) *)
Inductive ival := ISingle (v : bytes) | IMulti (ls : list bytes).

Inductive request :=
| RGetInfo (kvs : list (bytes * ival))        (* get_info(k1, .., kn) / get_info_single(k) *)
| RGetConf (key : bytes) (vals : option (list bytes)).   (* get_conf_single(key): None = unset *)

(* Tor's reply *)
Definition EQ : bytes := [EQC].
Definition render_request (r : request) : item :=
  match r with
  | RGetInfo kvs =>
      {| icode := 250;
         iparts := map (fun kv => match snd kv with
                                  | ISingle v => Mid (fst kv ++ EQ ++ v)
                                  | IMulti ls => Data (fst kv ++ EQ) ls
                                  end) kvs;
         ifinal := OKs |}
  | RGetConf key None => {| icode := 250; iparts := []; ifinal := key |}
  | RGetConf key (Some vs) =>
      {| icode := 250; iparts := map (fun v => Mid (key ++ EQ ++ v)) (removelast vs);
         ifinal := key ++ EQ ++ last vs [] |}
  end.

(* what the caller must get *)
Definition expected (r : request) : dict :=
  match r with
  | RGetInfo kvs =>
      map (fun kv => (fst kv, match snd kv with
                              | ISingle v => PStr v
                              | IMulti ls => PStr (join [LF] ([] :: ls))
                              end)) kvs
  | RGetConf key None => [(key, PStr DEFAULT)]
  | RGetConf key (Some [v]) => [(key, PStr v)]
  | RGetConf key (Some vs) => [(key, PList vs)]
  end.

(* observation: the dict the Deferred fired with (GETCONF single: the one value, reported under
   the key), or a failure *)
Inductive obs13 := OResult (d : dict) | OFailed.

Definition oracle (r : request) (o : obs13) : bool :=
  match o with OResult d => dict_eqb d (expected r) | OFailed => false end.

(* well-formed requests: keys are non-empty words without '=' or whitespace, distinct; values are
   7-bit text without CR/LF; GETCONF with Some has at least one value *)
Definition wf_key (k : bytes) : bool :=
  negb (beqb k []) && negb (beqb k OKs)
  && forallb (fun c => negb (Ascii.eqb c EQC) && negb (is_ws c) && (code c <? 128)) k.
Fixpoint distinct (ks : list bytes) : bool :=
  match ks with [] => true | k :: ks' => negb (existsb (beqb k) ks') && distinct ks' end.
Definition wf_ival (v : ival) : bool :=
  match v with ISingle t => wf_text t | IMulti ls => forallb wf_text ls end.
Definition is_nil {A} (l : list A) : bool := match l with [] => true | _ => false end.
Definition wf_request (r : request) : bool :=
  match r with
  | RGetInfo kvs => negb (is_nil kvs) && forallb (fun kv => wf_key (fst kv) && wf_ival (snd kv)) kvs
                    && distinct (map fst kvs)
                    && (match kvs with [_] => true | _ => forallb (fun kv => match snd kv with ISingle _ => true | _ => false end) kvs end)
  | RGetConf k None => wf_key k
  | RGetConf k (Some vs) => wf_key k && negb (is_nil vs) && forallb wf_text vs
  end.

(* what the correspondence check accepts: as wf_request, but a request of several keys may also hold data
   blocks (get_info('version', 'config-text')).  The theorems are stated for wf_request; requests that are only
   wf_request_wide are judged by the oracle on the correspondence run. *)
Definition wf_request_wide (r : request) : bool :=
  match r with
  | RGetInfo kvs => negb (is_nil kvs) && forallb (fun kv => wf_key (fst kv) && wf_ival (snd kv)) kvs
                    && distinct (map fst kvs)
  | _ => wf_request r
  end.

(* ---- input classes of the open findings ---- *)
Definition quote_wrapped (v : bytes) : bool :=
  match v, rev v with
  | a :: _, b :: _ => (Ascii.eqb a DQ && Ascii.eqb b DQ) || (Ascii.eqb a (ch 39) && Ascii.eqb b (ch 39))
  | _, _ => false
  end.
