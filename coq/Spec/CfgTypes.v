(* Vocabulary shared by the TorConfig properties C10 and C11: Python values that are assigned to
   and read from configuration attributes, the operations of a history, what is observed after
   each operation.  Python's own `list` semantics (append/extend/insert/remove/pop/__setitem__)
   is written down here once (py_list_op); it is not txtorcon code.
   Imports only Lib/. *)
From Coq Require Import String.
From Coq Require Import List Bool Ascii Arith NArith ZArith Lia.
From TxVerif Require Import Lib.Bytes Lib.CfgLib.
Import ListNotations.
Open Scope N_scope.

Definition bs (s : string) : bytes := list_ascii_of_string s.

(* ---- Python values ---- *)
Inductive atom :=
| AStr (s : bytes)
| AInt (z : Z)
| ABool (b : bool)
| AFloat (t : bytes).      (* a float, carried as its repr() text *)

Inductive pyval := PAtom (a : atom) | PList (l : list atom).

Definition atom_eqb (a b : atom) : bool :=
  match a, b with
  | AStr x, AStr y => beqb x y
  | AInt x, AInt y => Z.eqb x y
  | ABool x, ABool y => Bool.eqb x y
  | AFloat x, AFloat y => beqb x y
  | _, _ => false
  end.

(* str(x) *)
Definition atom_text (a : atom) : bytes :=
  match a with
  | AStr s => s
  | AInt z => dec_of_Z z
  | ABool true => bs "True"
  | ABool false => bs "False"
  | AFloat t => t
  end.

(* ---- in-place list operations ---- *)
Inductive lop :=
| LAppend (a : atom)
| LExtend (l : list atom)
| LInsert (i : Z) (a : atom)
| LRemove (a : atom)
| LPop (i : option Z)
| LSetItem (i : Z) (a : atom).

(* Python index normalisation: negative indices count from the end *)
Definition norm_index (len : nat) (i : Z) : option nat :=
  let n := Z.of_nat len in
  let j := if (i <? 0)%Z then (i + n)%Z else i in
  if ((0 <=? j) && (j <? n))%Z then Some (Z.to_nat j) else None.

(* list.insert clamps *)
Definition clamp_index (len : nat) (i : Z) : nat :=
  let n := Z.of_nat len in
  let j := if (i <? 0)%Z then (i + n)%Z else i in
  if (j <? 0)%Z then O else if (n <? j)%Z then len else Z.to_nat j.

Fixpoint remove_first (a : atom) (l : list atom) : option (list atom) :=
  match l with
  | [] => None
  | x :: t => if atom_eqb x a then Some t
              else option_map (cons x) (remove_first a t)
  end.

Fixpoint set_nth (n : nat) (a : atom) (l : list atom) : list atom :=
  match n, l with
  | O, _ :: t => a :: t
  | S n', x :: t => x :: set_nth n' a t
  | _, [] => []
  end.

Fixpoint del_nth (n : nat) (l : list atom) : list atom :=
  match n, l with
  | O, _ :: t => t
  | S n', x :: t => x :: del_nth n' t
  | _, [] => []
  end.

(* exception classes, as small numbers *)
Definition E_Value : N := 1.
Definition E_Type : N := 2.
Definition E_Index : N := 3.
Definition E_Key : N := 4.
Definition E_Attribute : N := 5.
Definition E_Runtime : N := 6.
Definition E_Other : N := 9.

(* the list after the operation, or the exception Python raises (the list is then unchanged) *)
Definition py_list_op (o : lop) (l : list atom) : list atom + N :=
  match o with
  | LAppend a => inl (l ++ [a])
  | LExtend m => inl (l ++ m)
  | LInsert i a => let k := clamp_index (length l) i in inl (firstn k l ++ a :: skipn k l)
  | LRemove a => match remove_first a l with Some l' => inl l' | None => inr E_Value end
  | LPop None => match l with [] => inr E_Index | _ => inl (removelast l) end
  | LPop (Some i) => match norm_index (length l) i with
                     | Some k => inl (del_nth k l)
                     | None => inr E_Index
                     end
  | LSetItem i a => match norm_index (length l) i with
                    | Some k => inl (set_nth k a l)
                    | None => inr E_Index
                    end
  end.

(* ---- a history ---- *)
(* what can be done while a save() is unanswered *)
Inductive dop :=
| DAssign (name : bytes) (v : pyval)
| DListOp (name : bytes) (o : lop)
| DRead (name : bytes)
| DNeedsSave
| DSave                                         (* another config.save(), answered after the first *)
| DEvent (items : list (bytes * option bytes)).

Inductive op :=
| OpAssign (name : bytes) (v : pyval)           (* config.<name> = v *)
| OpListOp (name : bytes) (o : lop)             (* config.<name>.<op>(...) : applied to what a read returns *)
| OpSave (reject : option N)                    (* config.save(); Tor answers 250 OK, or <code> *)
| OpRead (name : bytes)                         (* config.<name> *)
| OpNeedsSave                                   (* config.needs_save() *)
| OpEvent (items : list (bytes * option bytes)) (* Tor sends 650 CONF_CHANGED: Key=Value / Key lines *)
| OpSocks                                       (* config.socks_endpoint(reactor) *)
| OpCopy (dst src : bytes)                      (* config.<dst> = config.<src>: the object a read of <src> returns is assigned *)
(* config.save() returns its Deferred; the operations of [during] are performed while the SETCONF is
   unanswered; then Tor answers every outstanding SETCONF, in order, 250 OK (None) or <code> *)
| OpSaveDuring (reject : option N) (during : list dop).

(* ---- observations ---- *)
(* what a read returned: a scalar, or a list (is it a tracked list; str() of each element) *)
Inductive rval := RAtom (a : atom) | RList (tracked : bool) (els : list bytes).
Inductive rres := RGot (v : rval) | RExc (k : N).

(* outcome of the Deferred returned by save() *)
Inductive sres := SOk | SFail (code : N) | SErr (k : N) | SNotFired | SRaised (k : N).

Inductive sockres := SockTcp (host : bytes) (port : N) | SockUnix (path : bytes) | SockExc (k : N).

(* result of an operation performed while a save is unanswered *)
Inductive ires :=
| IOk | IRaised (k : N) | IVal (v : rval) | IBool (b : bool)
| ISent                                          (* save() returned a Deferred (fired or not) *)
| ISaveRaised (k : N)                            (* save() raised *)
| IEvent (needs_save : bool) (snap : list rres).

Inductive ores :=
| XOk
| XRaised (k : N)
| XVal (v : rval)
| XBool (b : bool)
| XSaved (r : sres) (needs_save : bool) (snap : list rres)    (* snapshot: every option, table order *)
| XEvent (needs_save : bool) (snap : list rres)
| XSocks (r : sockres)
(* OpSaveDuring: the result of each operation of [during]; the outcome of every save() call (the
   first one, then each DSave, in call order) once everything is answered; needs_save(); snapshot *)
| XFlight (inner : list ires) (outs : list sres) (needs_save : bool) (snap : list rres).

Record obs := { o_wrote : list bytes;      (* complete lines written on the transport during the op *)
                o_res : ores }.

Definition rval_eqb (a b : rval) : bool :=
  match a, b with
  | RAtom x, RAtom y => atom_eqb x y
  | RList t1 l1, RList t2 l2 => Bool.eqb t1 t2 && list_eqb beqb l1 l2
  | _, _ => false
  end.
Definition rres_eqb (a b : rres) : bool :=
  match a, b with
  | RGot x, RGot y => rval_eqb x y
  | RExc x, RExc y => x =? y
  | _, _ => false
  end.
Definition sres_eqb (a b : sres) : bool :=
  match a, b with
  | SOk, SOk | SNotFired, SNotFired => true
  | SFail x, SFail y | SErr x, SErr y | SRaised x, SRaised y => x =? y
  | _, _ => false
  end.
Definition sockres_eqb (a b : sockres) : bool :=
  match a, b with
  | SockTcp h p, SockTcp h' p' => beqb h h' && (p =? p')
  | SockUnix x, SockUnix y => beqb x y
  | SockExc x, SockExc y => x =? y
  | _, _ => false
  end.
Definition ires_eqb (a b : ires) : bool :=
  match a, b with
  | IOk, IOk | ISent, ISent => true
  | IRaised x, IRaised y | ISaveRaised x, ISaveRaised y => x =? y
  | IVal x, IVal y => rval_eqb x y
  | IBool x, IBool y => Bool.eqb x y
  | IEvent n s, IEvent n' s' => Bool.eqb n n' && list_eqb rres_eqb s s'
  | _, _ => false
  end.
Definition ores_eqb (a b : ores) : bool :=
  match a, b with
  | XOk, XOk => true
  | XRaised x, XRaised y => x =? y
  | XVal x, XVal y => rval_eqb x y
  | XBool x, XBool y => Bool.eqb x y
  | XSaved r n s, XSaved r' n' s' => sres_eqb r r' && Bool.eqb n n' && list_eqb rres_eqb s s'
  | XEvent n s, XEvent n' s' => Bool.eqb n n' && list_eqb rres_eqb s s'
  | XSocks x, XSocks y => sockres_eqb x y
  | XFlight i o n s, XFlight i' o' n' s' =>
      list_eqb ires_eqb i i' && list_eqb sres_eqb o o' && Bool.eqb n n' && list_eqb rres_eqb s s'
  | _, _ => false
  end.
(* an operation performed during a flight, as the ordinary operation it is (DSave is none) *)
Definition op_of_dop (d : dop) : option op :=
  match d with
  | DAssign n v => Some (OpAssign n v)
  | DListOp n o => Some (OpListOp n o)
  | DRead n => Some (OpRead n)
  | DNeedsSave => Some OpNeedsSave
  | DEvent items => Some (OpEvent items)
  | DSave => None
  end.
(* ... and its result as the result of that ordinary operation *)
Definition ores_of_ires (r : ires) : option ores :=
  match r with
  | IOk => Some XOk | IRaised k => Some (XRaised k) | IVal v => Some (XVal v) | IBool b => Some (XBool b)
  | IEvent n s => Some (XEvent n s)
  | ISent | ISaveRaised _ => None
  end.
Definition ires_of_ores (r : ores) : option ires :=
  match r with
  | XOk => Some IOk | XRaised k => Some (IRaised k) | XVal v => Some (IVal v) | XBool b => Some (IBool b)
  | XEvent n s => Some (IEvent n s)
  | _ => None
  end.
Definition obs_eqb (a b : obs) : bool :=
  list_eqb beqb (o_wrote a) (o_wrote b) && ores_eqb (o_res a) (o_res b).

(* ---- the input of a case ---- *)
Record cfg_input := {
  i_table : list (bytes * bytes);              (* GETINFO config/names: option name, declared type *)
  i_store : list (bytes * list bytes);         (* Tor's configuration: option -> its values ([] = unset) *)
  i_defaults : option (list (bytes * bytes));  (* GETINFO config/defaults lines; None = not supported *)
  (* how the attached state is reached: None = TorConfig(protocol);
     Some l = TorConfig(), then config.<name> = value for each entry of l, then attach_protocol(protocol)
     (the txtorcon.launch() path).  What must hold afterwards does not depend on it. *)
  i_pre : option (list (bytes * pyval));
  i_ops : list op }.
