(* C03, command-level view with caller-side cancellation.
   The property: when the connection is lost every command that has not received its reply fails exactly
   once; none fires twice; nothing is written afterwards.  A caller may have given up on a command
   (Deferred.cancel(), or addTimeout expiring): that command is already resolved - by the caller - and
   must not be resolved again, while every OTHER outstanding command must still fail at the loss.
   This file is the reference: what each operation must produce, from the property text and C01's
   one-in-flight FIFO discipline.  Replies are whole `250 OK` replies (C01 owns framing and parsing).
   The loss may also be delivered from inside the callback of a reply (QReplyLose: the caller's callback
   hangs up and the transport reports the loss synchronously): the command just answered is resolved - by
   its reply - and must not fail; every other outstanding command must.
   Independent of Model/ and Gen/. *)
From Coq Require Import List Bool Arith NArith Lia.
Import ListNotations.
Open Scope N_scope.

(* what the callback of a disconnect-notification request does when it is told *)
Inductive wbeh :=
| WPlain                (* nothing *)
| WNested               (* asks to be told about disconnection again (nested teardown) *)
| WSubmit.              (* submits a command *)

Inductive qop :=
| QSubmit               (* queue_command; ids are 0,1,2,... in submission order *)
| QCancel (k : N)       (* the caller cancels the Deferred of command k *)
| QReply                (* a complete 250 OK reply arrives *)
| QWatch (b : wbeh)     (* when_disconnected(); requests are numbered 0,1,2,... as they are made *)
| QLose                 (* connectionLost *)
| QReplyLose.           (* a complete 250 OK reply arrives and the callback the caller attached to that
                           command's Deferred hangs up; the transport reports the loss synchronously, so
                           connectionLost runs while the answered command is still being processed *)

Inductive qout := QOk | QDisc | QCancelled.
Inductive qev := QWrote (k : N) | QRes (k : N) (o : qout) | QNote (w : N).

Definition qout_eqb (a b : qout) : bool :=
  match a, b with QOk, QOk | QDisc, QDisc | QCancelled, QCancelled => true | _, _ => false end.
Definition qev_eqb (a b : qev) : bool :=
  match a, b with
  | QWrote x, QWrote y => x =? y
  | QRes x o, QRes y p => (x =? y) && qout_eqb o p
  | QNote x, QNote y => x =? y
  | _, _ => false
  end.

Fixpoint memN (k : N) (l : list N) : bool :=
  match l with [] => false | x :: l' => (x =? k) || memN k l' end.

(* reference state: n submitted, w written, a answered (a <= w <= n, w <= a + 1), who is resolved,
   the notification requests not yet honoured, how many requests were made *)
Record rstate := { r_n : N; r_w : N; r_a : N; r_res : list N; r_lost : bool;
                   r_watch : list (N * wbeh); r_nw : N }.
Definition r_init : rstate :=
  {| r_n := 0; r_w := 0; r_a := 0; r_res := []; r_lost := false; r_watch := []; r_nw := 0 |}.

(* ids lo, lo+1, ..., lo+len-1 *)
Fixpoint seqN (lo : N) (len : nat) : list N :=
  match len with O => [] | S len' => lo :: seqN (lo + 1) len' end.
(* ... of which those not resolved yet *)
Definition unresolved (res : list N) (lo : N) (len : nat) : list N :=
  filter (fun k => negb (memN k res)) (seqN lo len).

(* telling one request (numbered wid) at or after the loss: the note, then at once what its callback
   causes - a nested request is told at once; a submitted command fails at once when nothing else is
   outstanding ([inflight] = false), otherwise it joins the outstanding ones.
   acc = (events so far, commands submitted, resolved, requests made) *)
Definition tell (inflight : bool) (acc : list qev * N * list N * N) (wb : N * wbeh)
  : list qev * N * list N * N :=
  let '(ev, n, res, nw) := acc in
  match snd wb with
  | WPlain => (ev ++ [QNote (fst wb)], n, res, nw)
  | WNested => (ev ++ [QNote (fst wb); QNote nw], n, res, nw + 1)
  | WSubmit =>
      if inflight then (ev ++ [QNote (fst wb)], n + 1, res, nw)
      else (ev ++ [QNote (fst wb); QRes n QDisc], n + 1, n :: res, nw)
  end.

(* a whole reply for the command in flight (there is one, the connection is up) *)
Definition r_reply (s : rstate) : rstate * list qev :=
  let c := r_a s in
  let e1 := if memN c (r_res s) then [] else [QRes c QOk] in
  let more := r_w s <? r_n s in
  ({| r_n := r_n s; r_w := if more then r_w s + 1 else r_w s; r_a := c + 1;
      r_res := c :: r_res s; r_lost := false; r_watch := r_watch s; r_nw := r_nw s |},
   e1 ++ (if more then [QWrote (r_w s)] else [])).

(* the loss (the connection is up): every request is told, in the order the requests were made; then every
   command still outstanding - those submitted by the callbacks included - fails, in submission order *)
Definition r_lose (s : rstate) : rstate * list qev :=
  let '(ev, n, res, nw) := fold_left (tell (r_a s <? r_w s)) (r_watch s) ([], r_n s, r_res s, r_nw s) in
  let out := unresolved res (r_a s) (N.to_nat (n - r_a s)) in
  ({| r_n := n; r_w := r_w s; r_a := r_a s; r_res := out ++ res; r_lost := true;
      r_watch := []; r_nw := nw |},
   ev ++ map (fun k => QRes k QDisc) out).

(* None = outside the envelope (a reply nobody is waiting for, anything after a second loss) *)
Definition r_step (s : rstate) (o : qop) : option (rstate * list qev) :=
  match o with
  | QSubmit =>
      let k := r_n s in
      if r_lost s then
        Some ({| r_n := k + 1; r_w := r_w s; r_a := r_a s; r_res := k :: r_res s; r_lost := true;
                 r_watch := r_watch s; r_nw := r_nw s |}, [QRes k QDisc])
      else if r_w s =? r_a s then
        Some ({| r_n := k + 1; r_w := r_w s + 1; r_a := r_a s; r_res := r_res s; r_lost := false;
                 r_watch := r_watch s; r_nw := r_nw s |}, [QWrote k])
      else Some ({| r_n := k + 1; r_w := r_w s; r_a := r_a s; r_res := r_res s; r_lost := false;
                    r_watch := r_watch s; r_nw := r_nw s |}, [])
  | QCancel k =>
      if (k <? r_n s) && negb (memN k (r_res s)) then
        Some ({| r_n := r_n s; r_w := r_w s; r_a := r_a s; r_res := k :: r_res s; r_lost := r_lost s;
                 r_watch := r_watch s; r_nw := r_nw s |},
              [QRes k QCancelled])
      else Some (s, [])
  | QReply =>
      if r_lost s || negb (r_a s <? r_w s) then None else Some (r_reply s)
  | QWatch b =>
      if r_lost s then
        (* already disconnected: told at once (nothing is outstanding any more) *)
        let '(ev, n, res, nw) := tell false ([], r_n s, r_res s, r_nw s + 1) (r_nw s, b) in
        Some ({| r_n := n; r_w := r_w s; r_a := r_a s; r_res := res; r_lost := true;
                 r_watch := []; r_nw := nw |}, ev)
      else
        Some ({| r_n := r_n s; r_w := r_w s; r_a := r_a s; r_res := r_res s; r_lost := false;
                 r_watch := r_watch s ++ [(r_nw s, b)]; r_nw := r_nw s + 1 |}, [])
  | QLose =>
      if r_lost s then None else Some (r_lose s)
  | QReplyLose =>
      if r_lost s || negb (r_a s <? r_w s) then None else
      let c := r_a s in
      (* the caller has given up on c: its callback chain ran then, nothing hangs up now - a plain reply *)
      if memN c (r_res s) then Some (r_reply s) else
      (* c is resolved by its reply; its callback hangs up: exactly the loss, from the state in which c is
         resolved and still being processed (observers' submissions join the outstanding commands; c does
         not fail; the next queued command is NOT written) *)
      let '(s', ev) := r_lose {| r_n := r_n s; r_w := r_w s; r_a := c; r_res := c :: r_res s; r_lost := false;
                                 r_watch := r_watch s; r_nw := r_nw s |} in
      Some (s', QRes c QOk :: ev)
  end.

Fixpoint r_run (s : rstate) (ops : list qop) : option (list (list qev)) :=
  match ops with
  | [] => Some []
  | o :: ops' =>
      match r_step s o with
      | None => None
      | Some (s', es) => option_map (cons es) (r_run s' ops')
      end
  end.

Definition q_ref (ops : list qop) : option (list (list qev)) := r_run r_init ops.

(* the oracle on an observed trace: it is exactly the reference trace *)
Definition q_oracle (ops : list qop) (obs : list (list qev)) : option bool :=
  match q_ref ops with
  | None => None
  | Some tr =>
      Some ((Nat.eqb (length tr) (length obs)) &&
            forallb (fun p => (Nat.eqb (length (fst p)) (length (snd p))) &&
                              forallb (fun q => qev_eqb (fst q) (snd q)) (combine (fst p) (snd p)))
                    (combine tr obs))
  end.
