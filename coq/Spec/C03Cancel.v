(* C03, command-level view with caller-side cancellation.
   The property: when the connection is lost every command that has not received its reply fails exactly
   once; none fires twice; nothing is written afterwards.  A caller may have given up on a command
   (Deferred.cancel(), or addTimeout expiring): that command is already resolved - by the caller - and
   must not be resolved again, while every OTHER outstanding command must still fail at the loss.
   This file is the reference: what each operation must produce, from the property text and C01's
   one-in-flight FIFO discipline.  Replies are whole `250 OK` replies (C01 owns framing and parsing).
   Independent of Model/ and Gen/. *)
From Coq Require Import List Bool Arith NArith Lia.
Import ListNotations.
Open Scope N_scope.

Inductive qop :=
| QSubmit               (* queue_command; ids are 0,1,2,... in submission order *)
| QCancel (k : N)       (* the caller cancels the Deferred of command k *)
| QReply                (* a complete 250 OK reply arrives *)
| QLose.                (* connectionLost *)

Inductive qout := QOk | QDisc | QCancelled.
Inductive qev := QWrote (k : N) | QRes (k : N) (o : qout).

Definition qout_eqb (a b : qout) : bool :=
  match a, b with QOk, QOk | QDisc, QDisc | QCancelled, QCancelled => true | _, _ => false end.
Definition qev_eqb (a b : qev) : bool :=
  match a, b with
  | QWrote x, QWrote y => x =? y
  | QRes x o, QRes y p => (x =? y) && qout_eqb o p
  | _, _ => false
  end.

Fixpoint memN (k : N) (l : list N) : bool :=
  match l with [] => false | x :: l' => (x =? k) || memN k l' end.

(* reference state: n submitted, w written, a answered (a <= w <= n, w <= a + 1), who is resolved *)
Record rstate := { r_n : N; r_w : N; r_a : N; r_res : list N; r_lost : bool }.
Definition r_init : rstate := {| r_n := 0; r_w := 0; r_a := 0; r_res := []; r_lost := false |}.

(* ids lo, lo+1, ..., lo+len-1 *)
Fixpoint seqN (lo : N) (len : nat) : list N :=
  match len with O => [] | S len' => lo :: seqN (lo + 1) len' end.
(* ... of which those not resolved yet *)
Definition unresolved (res : list N) (lo : N) (len : nat) : list N :=
  filter (fun k => negb (memN k res)) (seqN lo len).

(* None = outside the envelope (a reply nobody is waiting for, anything after a second loss) *)
Definition r_step (s : rstate) (o : qop) : option (rstate * list qev) :=
  match o with
  | QSubmit =>
      let k := r_n s in
      if r_lost s then
        Some ({| r_n := k + 1; r_w := r_w s; r_a := r_a s; r_res := k :: r_res s; r_lost := true |}, [QRes k QDisc])
      else if r_w s =? r_a s then
        Some ({| r_n := k + 1; r_w := r_w s + 1; r_a := r_a s; r_res := r_res s; r_lost := false |}, [QWrote k])
      else Some ({| r_n := k + 1; r_w := r_w s; r_a := r_a s; r_res := r_res s; r_lost := false |}, [])
  | QCancel k =>
      if (k <? r_n s) && negb (memN k (r_res s)) then
        Some ({| r_n := r_n s; r_w := r_w s; r_a := r_a s; r_res := k :: r_res s; r_lost := r_lost s |},
              [QRes k QCancelled])
      else Some (s, [])
  | QReply =>
      if r_lost s || negb (r_a s <? r_w s) then None else
      let c := r_a s in
      let e1 := if memN c (r_res s) then [] else [QRes c QOk] in
      let more := r_w s <? r_n s in
      Some ({| r_n := r_n s; r_w := if more then r_w s + 1 else r_w s; r_a := c + 1;
               r_res := c :: r_res s; r_lost := false |},
            e1 ++ (if more then [QWrote (r_w s)] else []))
  | QLose =>
      if r_lost s then None else
      let out := unresolved (r_res s) (r_a s) (N.to_nat (r_n s - r_a s)) in
      Some ({| r_n := r_n s; r_w := r_w s; r_a := r_a s; r_res := out ++ r_res s; r_lost := true |},
            map (fun k => QRes k QDisc) out)
  end.

Fixpoint r_run (s : rstate) (ops : list qop) : option (list (list qev)) :=
  match ops with
  | [] => Some []
  | o :: ops' =>
      match r_step s o with
      | None => None
      | Some (s', es) => option_map (cons es) (r_run s' ops')
      end
  end.

Definition q_ref (ops : list qop) : option (list (list qev)) := r_run r_init ops.

(* the oracle on an observed trace: it is exactly the reference trace *)
Definition q_oracle (ops : list qop) (obs : list (list qev)) : option bool :=
  match q_ref ops with
  | None => None
  | Some tr =>
      Some ((Nat.eqb (length tr) (length obs)) &&
            forallb (fun p => (Nat.eqb (length (fst p)) (length (snd p))) &&
                              forallb (fun q => qev_eqb (fst q) (snd q)) (combine (fst p) (snd p)))
                    (combine tr obs))
  end.
