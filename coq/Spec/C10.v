(* C10 -- Config changes reach Tor only on save, as one SETCONF with exactly the changes.
   The oracle is Spec/CfgOracle.v's reference semantics over histories of assignments, in-place
   list operations, saves (accepted or rejected), reads and needs_save().
   Also: the input classes of the open findings of C10 (predicates over the INPUT only).
   Independent of Model/ and Gen/. *)
From Coq Require Import String.
From Coq Require Import List Bool Ascii Arith NArith ZArith Lia.
From TxVerif Require Import Lib.Bytes Lib.CfgLib Spec.CfgTypes Spec.TorStore Spec.CfgOracle.
Import ListNotations.
Open Scope N_scope.

Definition c10_op (o : op) : bool :=
  match o with
  | OpEvent _ | OpSocks => false
  | OpSaveDuring _ ds => forallb (fun d => match d with DEvent _ => false | _ => true end) ds
  | _ => true
  end.

Definition oracle (i : cfg_input) (tr : list obs) : bool := cfg_oracle i tr.

(* ------------------------------------------------------------------ finding classes
   A monitor runs the reference semantics over the input and raises a flag when the history
   enters the input class of a finding.

   F1 emptied_list_saved: save() is called while a list option is pending with NO elements
      (emptied in place, or assigned []).
   (F2 failed_listop_marks_pending is repaired in the source.)
   F4 odd_element_saved: an ACKNOWLEDGED save() while a pending list holds an element that is not a
      non-empty string (the integer 0 or 9050, an empty string): the element is sent as its text
      (or, empty, clears), Tor then holds texts, but the view keeps the element as it was written.
   m_fs is not a finding but an envelope flag: a Copy whose source has a pending change.
   F3 edit_while_detached: an in-place operation on an option whose pending value is not the
      list a read returns: the option was assigned since the last save() attempt, or its
      pending value is a string (comma list assigned as text), or Tor announced a new value
      for it (CONF_CHANGED) while it was pending. *)
Record mon := { m_st : ost; m_det : list bytes; m_f1 : bool; m_f3 : bool; m_fs : bool; m_f4 : bool }.

Section Mon.
  Variable opts : list (bytes * kind).
  Variable defaults : option (list (bytes * bytes)).

  Definition has_empty_list (pend : list (bytes * ival)) : bool :=
    existsb (fun p : bytes * ival => match snd p with IList [] => true | _ => false end) pend.

  (* a list element that Tor will not hold as it was written: anything but a non-empty string *)
  Definition odd_elem (a : atom) : bool := match a with AStr (_ :: _) => false | _ => true end.
  Definition has_odd_list (pend : list (bytes * ival)) : bool :=
    existsb (fun p : bytes * ival => match snd p with IList l => existsb odd_elem l | _ => false end) pend.

  Definition scalar_keys (pend : list (bytes * ival)) : list bytes :=
    concat (map (fun p : bytes * ival => match snd p with IScalar _ => [fst p] | _ => [] end) pend).

  Definition mon_step_gen (flightm : mon -> option N -> list dop -> mon) (m : mon) (o : op) : mon :=
    let st := m_st m in
    let st' := spec_next opts defaults st o in
    match o with
    | OpAssign name v =>
        match dfind_ci name opts with
        | Some (cn, k) =>
            match spec_validate k v with
            | Some _ => {| m_st := st'; m_det := cn :: m_det m; m_f1 := m_f1 m; m_f3 := m_f3 m; m_fs := m_fs m; m_f4 := m_f4 m |}
            | None => {| m_st := st'; m_det := m_det m; m_f1 := m_f1 m; m_f3 := m_f3 m; m_fs := m_fs m; m_f4 := m_f4 m |}
            end
        | None => m
        end
    | OpListOp name lo =>
        match dfind_ci name opts with
        | Some (cn, k) =>
            {| m_st := st'; m_det := m_det m; m_f1 := m_f1 m;
               m_f3 := m_f3 m || mem_bytes cn (m_det m); m_fs := m_fs m; m_f4 := m_f4 m |}
        | None => m
        end
    | OpSave rej =>
        match s_pend st with
        | [] => m
        | pend =>
            {| m_st := st';
               m_det := match rej with None => [] | Some _ => scalar_keys pend end;
               m_f1 := m_f1 m || has_empty_list pend; m_f3 := m_f3 m; m_fs := m_fs m;
               m_f4 := m_f4 m || match rej with None => has_odd_list pend | Some _ => false end |}
        end
    | OpEvent items =>
        {| m_st := st';
           m_det := concat (map (fun it : bytes * option bytes =>
                                   let cn := canon opts (fst it) in
                                   if dmem cn (s_pend st) then [cn] else []) items) ++ m_det m;
           m_f1 := m_f1 m; m_f3 := m_f3 m; m_fs := m_fs m; m_f4 := m_f4 m |}
    | OpCopy dst src =>
        match dfind_ci dst opts, dfind_ci src opts with
        | Some (cd, _), Some (cs, _) =>
            {| m_st := st'; m_det := cd :: m_det m; m_f1 := m_f1 m; m_f3 := m_f3 m;
               m_fs := m_fs m || dmem cs (s_pend st); m_f4 := m_f4 m |}
        | _, _ => m
        end
    | OpRead _ | OpNeedsSave | OpSocks => m
    | OpSaveDuring rej ds => flightm m rej ds
    end.

  (* ---- OpSaveDuring: the monitor carries the unanswered snapshots along ---- *)
  Definition mon_base : mon -> op -> mon := mon_step_gen (fun m _ _ => m).
  Definition accepted (rej : option N) : bool := match rej with None => true | Some _ => false end.

  (* save() is called: like OpSave up to the answer (scalars are re-read into config: detached) *)
  Definition mon_send (rej : option N) (mq : mon * list (list (bytes * ival))) : mon * list (list (bytes * ival)) :=
    let m := fst mq in
    match s_pend (m_st m) with
    | [] => mq
    | pend => ({| m_st := m_st m; m_det := scalar_keys pend;
                  m_f1 := m_f1 m || has_empty_list pend; m_f3 := m_f3 m; m_fs := m_fs m;
                  m_f4 := m_f4 m || (accepted rej && has_odd_list pend) |},
               snd mq ++ [pend])
    end.

  Definition event_on_pending (st : ost) (d : dop) : bool :=
    match d with
    | DEvent items => existsb (fun it : bytes * option bytes => dmem (canon opts (fst it)) (s_pend st)) items
    | _ => false
    end.

  Definition mon_dop (rej : option N) (mq : mon * list (list (bytes * ival))) (d : dop) : mon * list (list (bytes * ival)) :=
    match op_of_dop d with
    | None => mon_send rej mq
    | Some o =>
        let m := fst mq in
        let m1 := mon_base m o in
        let hot := accepted rej && negb (is_nil (snd mq)) in
        ({| m_st := m_st m1; m_det := m_det m1; m_f1 := m_f1 m1; m_f3 := m_f3 m1;
            m_fs := m_fs m1 || (hot && event_on_pending (m_st m) d); m_f4 := m_f4 m1 |}, snd mq)
    end.

  Definition mon_flight (m : mon) (rej : option N) (ds : list dop) : mon :=
    let mq := fold_left (mon_dop rej) ds (mon_send rej (m, [])) in
    let m1 := fst mq in
    {| m_st := fold_left (answer opts rej) (snd mq) (m_st m1);
       (* an acknowledged option is no longer detached; one changed since the save was sent still is *)
       m_det := if accepted rej && negb (is_nil (snd mq))
                then filter (fun cn => dmem cn (s_pend (fold_left (answer opts rej) (snd mq) (m_st m1)))) (m_det m1)
                else m_det m1;
       m_f1 := m_f1 m1; m_f3 := m_f3 m1;
       m_fs := m_fs m1 || (accepted rej && flight_ambiguous opts defaults (m_st m) ds); m_f4 := m_f4 m1 |}.

  Definition mon_step : mon -> op -> mon := mon_step_gen mon_flight.

  Definition mon_run (m : mon) (ops : list op) : mon := fold_left mon_step ops m.
End Mon.

Definition mon_of (i : cfg_input) : mon :=
  mon_run (options (i_table i)) (i_defaults i)
          {| m_st := eff_ost i; m_det := []; m_f1 := false; m_f3 := false; m_fs := false; m_f4 := false |} (i_ops i).

Definition emptied_list_saved (i : cfg_input) : bool := m_f1 (mon_of i).
Definition edit_while_detached (i : cfg_input) : bool := m_f3 (mon_of i).

Definition odd_element_saved (i : cfg_input) : bool := m_f4 (mon_of i).

Definition c10_known (i : cfg_input) : bool :=
  emptied_list_saved i || edit_while_detached i || odd_element_saved i.

(* outside the envelope (history dependent): config.A = config.B while B has a pending change --
   whether a read of B then shows the pending or the saved list is what finding F3 is about; and a
   CONF_CHANGED that names an option of an unanswered save Tor then acknowledges (in a real Tor the
   event that follows the acknowledged SETCONF settles the view; the histories have no such echo); and
   an option assigned again while its save is unanswered that ends up with the acknowledged value
   (Spec.CfgOracle.flight_ambiguous) *)
Definition copy_of_pending (i : cfg_input) : bool := m_fs (mon_of i).

Definition c10_scope (i : cfg_input) : bool :=
  in_scope i && forallb c10_op (i_ops i) && negb (copy_of_pending i).
