(* C19: launch fires at most once; success only after full bootstrap over the authenticated control
   connection on which ownership was requested; failure if the process ends or the timeout elapses
   first (TERM on timeout); a temporary data directory goes when the process has ended, a
   caller-supplied one never.
   Written from the property text.  The control connection is a command channel (DESIGN 4.2): the
   code sends commands (observed), the scripted Tor answers the oldest outstanding one (OAck), sends
   STATUS_CLIENT events on a connection only once SETEVENTS was accepted there, and the connection's
   authentication outcome arrives as OBoot.
   The TorConfig handed to launch() is not attached to a protocol; attaching it (attach_protocol, seen
   as EAttach) takes c_attach round trips, each answered by an OAttach stimulus (accepted / rejected).
   The launch() result may be held back while such an attach is in flight (launch() returns a Tor whose
   configuration is attached); everybody else is told at once.  Independent of Model/ and Gen/. *)
From Coq Require Import List Bool Ascii Arith NArith Lia.
From TxVerif Require Import Lib.Bytes.
Import ListNotations.
Open Scope N_scope.

Record cfg := { c_timeout : bool;        (* launch(timeout=...) given *)
                c_userdir : bool;        (* launch(data_directory=...) given *)
                c_killerr : bool;        (* kill_on_stderr *)
                c_attach : N }.          (* round trips the attachment of the configuration takes *)

Inductive exitst := XCode (n : N) | XSignal (s : N).

Inductive op :=
| OOut (chunk : bytes)          (* stdout of the launched Tor *)
| OErr (chunk : bytes)          (* stderr *)
| OConnOk                       (* the pending control connection attempt succeeds: new connection, numbered from 0 *)
| OConnFail                     (* ... fails *)
| OBoot (c : N) (ok : bool)     (* connection c: authentication + protocol bootstrap finished / failed *)
| OAck (c : N) (ok : bool)      (* Tor answers the oldest outstanding command on c: 250 OK / an error *)
| OAttach (ok : bool)           (* Tor answers the current round trip of the config attach in flight: ok / rejected *)
| OProgress (c : N) (p : N)     (* Tor reports bootstrap progress p on c (only delivered if events are on) *)
| OStatus (c : N)               (* some other STATUS_CLIENT event on c *)
| OTimeout                      (* the clock passes the launch timeout *)
| OExit (x : exitst)            (* the process ends *)
| OWhen (w : N)                 (* when_connected() is called; the Deferred is waiter w (>= 1) *)
| OWhenR (w w' : N)             (* the same, and the callback under waiter w calls when_connected() again while w is
                                   being told (from inside the delivery); that second Deferred is waiter w' *)
| OShutdown.                    (* reactor shutdown: the 'before shutdown' triggers run *)

Inductive res := ROk | RFail (k : N).   (* 1 launch timeout, 2 exit code, 3 killed, 4 killed after timeout, 9 other *)

Inductive obs :=
| EFired (w : N) (r : res)      (* waiter w fired; waiter 0 is the Deferred returned by launch() *)
| ESignal (name : bytes)        (* transport.signalProcess(name) *)
| ELoseConn                     (* transport.loseConnection() *)
| EConnecting                   (* connection_creator() called *)
| ESent (c : N) (cmd : bytes)   (* command written on connection c *)
| EAttach (c : N)               (* config.attach_protocol(connection c) called *)
| EProgress (p : N)             (* progress_updates callback *)
| ERaised (k : N)               (* the stimulus raised: 1 RuntimeError, 2 AlreadyCalled, 9 other *)
| EDir (there : bool).          (* after the operation: does the data directory exist *)

Definition res_eqb (a b : res) : bool :=
  match a, b with
  | ROk, ROk => true
  | RFail x, RFail y => x =? y
  | _, _ => false
  end.

Definition obs_eqb (a b : obs) : bool :=
  match a, b with
  | EFired w r, EFired w' r' => (w =? w') && res_eqb r r'
  | ESignal x, ESignal y => beqb x y
  | ELoseConn, ELoseConn => true
  | EConnecting, EConnecting => true
  | ESent c x, ESent c' y => (c =? c') && beqb x y
  | EAttach c, EAttach c' => c =? c'
  | EProgress p, EProgress q => p =? q
  | ERaised j, ERaised k => j =? k
  | EDir x, EDir y => Bool.eqb x y
  | _, _ => false
  end.
Definition chunk_eqb (a b : list obs) : bool := list_eqb obs_eqb a b.

Definition str (l : list N) : bytes := map ch l.
(* "Opening Control listener" *)
Definition LISTENER : bytes :=
  str [79;112;101;110;105;110;103;32;67;111;110;116;114;111;108;32;108;105;115;116;101;110;101;114].
Definition w_TERM : bytes := str [84;69;82;77].
Definition w_TAKEOWNERSHIP : bytes := str [84;65;75;69;79;87;78;69;82;83;72;73;80].
Definition w_SETEVENTS : bytes := str [83;69;84;69;86;69;78;84;83].

Fixpoint isinfix (p l : bytes) : bool :=
  prefixb p l || match l with [] => false | _ :: l' => isinfix p l' end.

(* ---- the scripted Tor's view of one control connection ---- *)
Record sconn := { q_auth : bool;            (* authenticated (OBoot true seen) *)
                  q_own : bool;             (* TAKEOWNERSHIP was sent on it *)
                  q_evon : bool;            (* SETEVENTS accepted: events flow *)
                  q_fifo : list bytes }.    (* outstanding commands, oldest first *)

Record sst := { s_conns : list sconn;
                s_npend : nat;              (* connection attempts not yet resolved *)
                s_decided : option bool;    (* Some true = succeeded, Some false = failed *)
                s_waiting : list N;         (* waiters registered and not yet fired *)
                s_exited : bool;
                s_timer : bool;             (* a timeout was given and the clock has not passed it *)
                s_gone : bool;              (* process ended or reactor shut down *)
                s_acc : bytes;              (* stdout so far, until the first connection attempt *)
                s_tried : bool;             (* a connection attempt was made *)
                s_att : N;                  (* round trips the config attach in flight still needs; 0 = none in flight *)
                s_wait0 : bool;             (* launch succeeded, its result (waiter 0) is held back until the attach is over *)
                s_nested : list N }.        (* the requests the callbacks of waiting waiters will make when they are told *)

Definition s0 (c : cfg) : sst :=
  {| s_conns := []; s_npend := 0; s_decided := None; s_waiting := [0]; s_exited := false;
     s_timer := c_timeout c; s_gone := false; s_acc := []; s_tried := false;
     s_att := 0; s_wait0 := false; s_nested := [] |}.

Definition nthc (s : sst) (c : N) : option sconn := nth_error (s_conns s) (N.to_nat c).

Fixpoint set_nth {A} (n : nat) (x : A) (l : list A) : list A :=
  match n, l with
  | _, [] => []
  | O, _ :: l' => x :: l'
  | S n', y :: l' => y :: set_nth n' x l'
  end.

Definition upd_conn (s : sst) (c : N) (q : sconn) : sst :=
  {| s_conns := set_nth (N.to_nat c) q (s_conns s); s_npend := s_npend s; s_decided := s_decided s;
     s_waiting := s_waiting s; s_exited := s_exited s; s_timer := s_timer s; s_gone := s_gone s;
     s_acc := s_acc s; s_tried := s_tried s; s_att := s_att s; s_wait0 := s_wait0 s; s_nested := s_nested s |}.

Definition decide (s : sst) (b : bool) : sst :=
  match s_decided s with
  | Some _ => s
  | None => {| s_conns := s_conns s; s_npend := s_npend s; s_decided := Some b; s_waiting := [];
               s_exited := s_exited s; s_timer := s_timer s; s_gone := s_gone s;
               s_acc := s_acc s; s_tried := s_tried s; s_att := s_att s; s_wait0 := s_wait0 s; s_nested := [] |}
  end.

Definition memN (k : N) (l : list N) : bool := existsb (N.eqb k) l.
Fixpoint nodupN (l : list N) : bool :=
  match l with [] => true | x :: l' => negb (memN x l') && nodupN l' end.
(* the waiters without the launch() result *)
Definition drop0 (l : list N) : list N := filter (fun w => negb (w =? 0)) l.

(* the launch succeeded: everybody waiting is to be told; whether the launch() result (waiter 0) was
   among those told is taken from the observations (absorb1) *)
Definition decide_ok (s : sst) : sst :=
  match s_decided s with
  | Some _ => s
  | None => {| s_conns := s_conns s; s_npend := s_npend s; s_decided := Some true; s_waiting := [];
               s_exited := s_exited s; s_timer := s_timer s; s_gone := s_gone s;
               s_acc := s_acc s; s_tried := s_tried s; s_att := s_att s;
               s_wait0 := memN 0 (s_waiting s); s_nested := [] |}
  end.

(* the config attach in flight is over with this answer: the last round trip accepted, or one rejected *)
Definition att_resolves (s : sst) (ok : bool) : bool :=
  if ok then s_att s =? 1 else negb (s_att s =? 0).

(* events reach the client on c only when Tor has them switched on there *)
Definition delivered (s : sst) (c : N) : bool :=
  match nthc s c with Some q => q_evon q | None => false end.
(* 100% on c counts when c is authenticated and ownership was requested on it *)
Definition full_bootstrap (s : sst) (c : N) : bool :=
  match nthc s c with Some q => q_evon q && q_auth q && q_own q | None => false end.

(* the operation's own effect, before the commands the client sends in reaction are taken in *)
Definition op_effect (c : cfg) (s : sst) (o : op) : sst :=
  match o with
  | OOut chunk =>
      if s_tried s then s else
      {| s_conns := s_conns s; s_npend := s_npend s; s_decided := s_decided s; s_waiting := s_waiting s;
         s_exited := s_exited s; s_timer := s_timer s; s_gone := s_gone s;
         s_acc := s_acc s ++ chunk; s_tried := false; s_att := s_att s; s_wait0 := s_wait0 s; s_nested := s_nested s |}
  | OConnOk =>
      match s_npend s with
      | O => s
      | S n => {| s_conns := s_conns s ++ [{| q_auth := false; q_own := false; q_evon := false; q_fifo := [] |}];
                  s_npend := n; s_decided := s_decided s; s_waiting := s_waiting s; s_exited := s_exited s;
                  s_timer := s_timer s; s_gone := s_gone s; s_acc := s_acc s; s_tried := s_tried s; s_att := s_att s; s_wait0 := s_wait0 s; s_nested := s_nested s |}
      end
  | OConnFail =>
      {| s_conns := s_conns s; s_npend := pred (s_npend s); s_decided := s_decided s; s_waiting := s_waiting s;
         s_exited := s_exited s; s_timer := s_timer s; s_gone := s_gone s; s_acc := s_acc s; s_tried := s_tried s; s_att := s_att s; s_wait0 := s_wait0 s; s_nested := s_nested s |}
  | OBoot k ok =>
      match nthc s k with
      | Some q => if ok then upd_conn s k {| q_auth := true; q_own := q_own q; q_evon := q_evon q; q_fifo := q_fifo q |}
                  else s
      | None => s
      end
  | OAck k ok =>
      match nthc s k with
      | Some q =>
          match q_fifo q with
          | [] => s
          | cmd :: rest =>
              upd_conn s k {| q_auth := q_auth q; q_own := q_own q;
                              q_evon := q_evon q || (ok && prefixb w_SETEVENTS cmd); q_fifo := rest |}
          end
      | None => s
      end
  | OProgress k p =>
      if (p =? 100) && full_bootstrap s k then decide_ok s else s
  | OAttach ok =>
      if s_att s =? 0 then s else
      {| s_conns := s_conns s; s_npend := s_npend s; s_decided := s_decided s; s_waiting := s_waiting s;
         s_exited := s_exited s; s_timer := s_timer s; s_gone := s_gone s; s_acc := s_acc s; s_tried := s_tried s;
         s_att := if ok then N.pred (s_att s) else 0;
         s_wait0 := s_wait0 s && negb (att_resolves s ok); s_nested := s_nested s |}
  | OStatus _ => s
  | OTimeout =>
      if s_timer s then
        let s1 := decide s false in
        {| s_conns := s_conns s1; s_npend := s_npend s1; s_decided := s_decided s1; s_waiting := s_waiting s1;
           s_exited := s_exited s1; s_timer := false; s_gone := s_gone s1; s_acc := s_acc s1; s_tried := s_tried s1; s_att := s_att s1; s_wait0 := s_wait0 s1; s_nested := s_nested s1 |}
      else s
  | OExit _ =>
      let s1 := decide s false in
      {| s_conns := s_conns s1; s_npend := s_npend s1; s_decided := s_decided s1; s_waiting := s_waiting s1;
         s_exited := true; s_timer := s_timer s1; s_gone := true; s_acc := s_acc s1; s_tried := s_tried s1; s_att := s_att s1; s_wait0 := s_wait0 s1; s_nested := s_nested s1 |}
  | OWhen w =>
      match s_decided s with
      | Some _ => s
      | None => {| s_conns := s_conns s; s_npend := s_npend s; s_decided := None; s_waiting := s_waiting s ++ [w];
                   s_exited := s_exited s; s_timer := s_timer s; s_gone := s_gone s; s_acc := s_acc s;
                   s_tried := s_tried s; s_att := s_att s; s_wait0 := s_wait0 s; s_nested := s_nested s |}
      end
  | OWhenR w w' =>
      match s_decided s with
      | Some _ => s
      | None => {| s_conns := s_conns s; s_npend := s_npend s; s_decided := None; s_waiting := s_waiting s ++ [w];
                   s_exited := s_exited s; s_timer := s_timer s; s_gone := s_gone s; s_acc := s_acc s;
                   s_tried := s_tried s; s_att := s_att s; s_wait0 := s_wait0 s; s_nested := s_nested s ++ [w'] |}
      end
  | OErr _ => s
  | OShutdown =>
      {| s_conns := s_conns s; s_npend := s_npend s; s_decided := s_decided s; s_waiting := s_waiting s;
         s_exited := s_exited s; s_timer := s_timer s; s_gone := true; s_acc := s_acc s; s_tried := s_tried s; s_att := s_att s; s_wait0 := s_wait0 s; s_nested := s_nested s |}
  end.

(* what the client was seen to do: commands sent, connection attempts, the config attach started, the
   launch() result delivered *)
Definition absorb1 (c : cfg) (s : sst) (e : obs) : sst :=
  match e with
  | ESent k cmd =>
      match nthc s k with
      | Some q => upd_conn s k {| q_auth := q_auth q; q_own := q_own q || beqb cmd w_TAKEOWNERSHIP;
                                  q_evon := q_evon q; q_fifo := q_fifo q ++ [cmd] |}
      | None => s
      end
  | EConnecting =>
      {| s_conns := s_conns s; s_npend := S (s_npend s); s_decided := s_decided s; s_waiting := s_waiting s;
         s_exited := s_exited s; s_timer := s_timer s; s_gone := s_gone s; s_acc := s_acc s; s_tried := true; s_att := s_att s; s_wait0 := s_wait0 s; s_nested := s_nested s |}
  | EAttach _ =>
      {| s_conns := s_conns s; s_npend := s_npend s; s_decided := s_decided s; s_waiting := s_waiting s;
         s_exited := s_exited s; s_timer := s_timer s; s_gone := s_gone s; s_acc := s_acc s; s_tried := s_tried s;
         s_att := c_attach c; s_wait0 := s_wait0 s; s_nested := s_nested s |}
  | EFired w _ =>
      if w =? 0 then
        {| s_conns := s_conns s; s_npend := s_npend s; s_decided := s_decided s; s_waiting := s_waiting s;
           s_exited := s_exited s; s_timer := s_timer s; s_gone := s_gone s; s_acc := s_acc s; s_tried := s_tried s;
           s_att := s_att s; s_wait0 := false; s_nested := s_nested s |}
      else s
  | _ => s
  end.
Definition absorb (c : cfg) (s : sst) (es : list obs) : sst := fold_left (absorb1 c) es s.

Definition spec_step (c : cfg) (s : sst) (o : op) (es : list obs) : sst := absorb c (op_effect c s o) es.

(* ---- judging one chunk ---- *)
Definition fires (es : list obs) : list (N * res) :=
  flat_map (fun e => match e with EFired w r => [(w, r)] | _ => [] end) es.
Definition n_connecting (es : list obs) : nat :=
  length (filter (fun e => match e with EConnecting => true | _ => false end) es).
Definition signals (es : list obs) : list bytes :=
  flat_map (fun e => match e with ESignal n => [n] | _ => [] end) es.
Definition dirs (es : list obs) : list bool :=
  flat_map (fun e => match e with EDir b => [b] | _ => [] end) es.

Definition res_is (b : bool) (r : res) : bool :=
  match r with ROk => b | RFail _ => negb b end.

(* every waiting waiter fires, once, with outcome b; nobody else does *)
Definition all_fire (waiting : list N) (b : bool) (fs : list (N * res)) : bool :=
  nodupN (map fst fs)
  && forallb (fun w => memN w waiting) (map fst fs)
  && forallb (fun w => memN w (map fst fs)) waiting
  && forallb (fun wr => res_is b (snd wr)) fs.

Definition no_fire (fs : list (N * res)) : bool := match fs with [] => true | _ => false end.

Definition chunk_ok (c : cfg) (s : sst) (o : op) (es : list obs) : bool :=
  let fs := fires es in
  let quiet := match signals es with [] => true | _ => false end in
  let s' := op_effect c s o in
  (* who is told at the decision: the waiting ones, and the requests their callbacks make meanwhile *)
  let everyone := s_waiting s ++ s_nested s in
  (* the directory *)
  (match dirs es with [d] => Bool.eqb d (c_userdir c || negb (s_gone s')) | _ => false end)
  (* connection attempts: the first one exactly when the listener line has been seen on stdout *)
  && (match o with
      | OOut _ => if s_tried s then (n_connecting es <=? 1)%nat
                  else (n_connecting es =? (if isinfix LISTENER (s_acc s') then 1 else 0))%nat
      | _ => (n_connecting es =? 0)%nat
      end)
  (* who fires, and signals *)
  && (match o with
      | OWhen w =>
          quiet &&
          match s_decided s with
          | Some b => match fs with [(w', r)] => (w' =? w) && res_is b r | _ => false end
          | None => no_fire fs
          end
      | OWhenR w w' =>
          (* a request made from inside a delivery gets the same outcome, in the same step *)
          quiet &&
          match s_decided s with
          | Some b => all_fire [w; w'] b fs
          | None => no_fire fs
          end
      | OExit _ =>
          quiet &&
          match s_decided s with None => all_fire everyone false fs | Some _ => no_fire fs end
      | OTimeout =>
          if s_timer s then
            match s_decided s with
            | None => all_fire everyone false fs
                      && match signals es with [n] => beqb n w_TERM | _ => false end
            | Some true => no_fire fs && quiet
            | Some false => no_fire fs
            end
          else no_fire fs && quiet
      | OProgress k p =>
          quiet &&
          if (p =? 100) && delivered s k then
            match s_decided s with
            | None =>
                if full_bootstrap s k then
                  (* everybody is told; the launch() result may be held back only while the configuration
                     is being attached (it is then due when that attach is over, see OAttach) *)
                  all_fire everyone true fs
                  || (negb (s_att (absorb c s' es) =? 0) && all_fire (drop0 everyone) true fs)
                else no_fire fs
            | Some _ => no_fire fs
            end
          else no_fire fs
      | OAttach ok =>
          quiet &&
          if s_wait0 s && att_resolves s ok then
            match fs with [(w, r)] => (w =? 0) && res_is ok r | _ => false end
          else no_fire fs
      | _ => quiet && no_fire fs
      end).

Fixpoint oracle_from (c : cfg) (s : sst) (h : list op) (tr : list (list obs)) : bool :=
  match h, tr with
  | [], [] => true
  | o :: h', es :: tr' => chunk_ok c s o es && oracle_from c (spec_step c s o es) h' tr'
  | _, _ => false
  end.

(* tr = the chunk of launch() itself, then one chunk per operation *)
Definition oracle (c : cfg) (h : list op) (tr : list (list obs)) : bool :=
  match tr with
  | es0 :: tr' =>
      chunk_eqb es0 [EDir true]
      && oracle_from c (s0 c) h tr'
      && nodupN (map fst (fires (concat tr)))          (* no waiter ever fires twice *)
  | [] => false
  end.

(* ---- physically possible histories: the process ends at most once and is silent afterwards;
        waiter numbers are distinct and not 0 ---- *)
Fixpoint wf_from (exited : bool) (ws : list N) (h : list op) : bool :=
  match h with
  | [] => true
  | OExit _ :: h' => negb exited && wf_from true ws h'
  | (OOut _ | OErr _) :: h' => negb exited && wf_from exited ws h'
  | OWhen w :: h' => negb (memN w ws) && wf_from exited (w :: ws) h'
  | OWhenR w w' :: h' => negb (memN w ws) && negb (memN w' ws) && negb (w =? w') && wf_from exited (w' :: w :: ws) h'
  | _ :: h' => wf_from exited ws h'
  end.
Definition wf (h : list op) : bool := wf_from false [0] h.
