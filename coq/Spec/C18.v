(* C18: choosing a SOCKS port never alters Tor's existing SOCKS listeners.

   Written from the property text, Tor's manual (SocksPort [address:]port|unix:path|auto [flags])
   and control-spec (GETCONF / SETCONF, QuotedString).  Independent of Model/ and Gen/.

   Tor's side is a record [tor]: what it answers for `GETCONF SocksPort` (keyword only = unset,
   or the configured lines) and its built-in default lines (reported by `GETCONF __SocksPort`
   and by `GETINFO config/defaults`).  A SETCONF that Tor accepts replaces every SocksPort line.

   A history is a list of API calls made against one Tor; the observation of a call is the list
   of command lines the client wrote on the control connection during the call, and its outcome
   (an endpoint, identified by where it connects to on the reactor, or an error).

   The clauses, per call, with E = the SocksPort entries Tor reports at that moment:
     * only GETCONF (read-only) and SETCONF lines are written, at most one SETCONF;
     * no SETCONF: the outcome is an endpoint for a usable entry of E (the one asked for, if a
       port was asked for); an error is acceptable only from the TorConfig accessors that cannot
       add a port, and only when no entry of E is usable;
     * one SETCONF: only when no entry of E is usable; read with Tor's grammar it lists exactly
       the entries of E, byte for byte and in order, then the new port, all under the SocksPort
       keyword (an entry whose port is 0 is not a listener: it may be kept or left out); if Tor
       accepts it the outcome is an endpoint for the new port, if Tor refuses it an error.
   The second half of the property (a client endpoint without a SOCKS endpoint) is [oracle_client]. *)
From Coq Require Import List Bool Ascii NArith Lia String.
From TxVerif Require Import Lib.Bytes Lib.Words.
Import ListNotations.
Open Scope N_scope.

Definition tx (s : string) : bytes := list_ascii_of_string s.

(* ------------------------------------------------------------------ Tor's configuration *)
Inductive reply := RDefault | RVals (l : list bytes).
Record tor := { sp : reply;            (* GETCONF SocksPort: keyword only, or these values *)
                dflt : list bytes }.   (* default lines (GETCONF __SocksPort / config/defaults) *)

(* the SocksPort entries Tor reports *)
Definition entries (t : tor) : list bytes :=
  match sp t with RVals l => l | RDefault => dflt t end.

Inductive endpoint := EpTcp (host : bytes) (port : N) | EpUnix (path : bytes).

Definition ep_eqb (a b : endpoint) : bool :=
  match a, b with
  | EpTcp h p, EpTcp h' p' => beqb h h' && (p =? p')
  | EpUnix x, EpUnix y => beqb x y
  | _, _ => false
  end.

Definition LOCALHOST : bytes := tx "127.0.0.1".
Definition UNIXP : bytes := tx "unix:".
Definition SQ : ascii := ch 39.

(* the first word of a SocksPort line says where Tor listens *)
Inductive wclass :=
| WUnix (path : bytes)
| WPort (n : N)                 (* on 127.0.0.1 *)
| WHostPort (h : bytes) (n : N)
| WDisabled                     (* port 0: no listener *)
| WOther.                       (* auto, IPv6 brackets, anything else: not known to be connectable *)

Definition port_ok (n : N) : bool := (1 <=? n) && (n <=? 65535).

Definition classify (w : bytes) : wclass :=
  if prefixb UNIXP w then
    match skipn 5 w with [] => WOther | p => WUnix p end
  else
    match split_at COLON w with
    | Some (h, p) =>
        if negb (isnil h) && all_digits p && port_ok (digits_val p) then WHostPort h (digits_val p)
        else WOther
    | None =>
        if all_digits w then
          (if digits_val w =? 0 then WDisabled
           else if digits_val w <=? 65535 then WPort (digits_val w) else WOther)
        else WOther
    end.

Definition addr_of (w : bytes) : option endpoint :=
  match classify w with
  | WUnix p => Some (EpUnix p)
  | WPort n => Some (EpTcp LOCALHOST n)
  | WHostPort h n => Some (EpTcp h n)
  | WDisabled | WOther => None
  end.

Definition disabled (e : bytes) : bool :=
  match classify (first_word e) with WDisabled => true | _ => false end.

(* A request is a SocksPort line: a port (first word only) or a whole line with option words.
   Entry [e] is the one asked for when the request is that very line, byte for byte, or is exactly
   its first word. *)
Definition exact (r e : bytes) : bool := beqb r e || beqb r (first_word e).

(* the endpoint of entry [e] if it is usable and is the one asked for *)
Definition usable_for (want : option bytes) (e : bytes) : option endpoint :=
  let w := first_word e in
  match want with
  | Some x => if exact x e then addr_of w else None
  | None => addr_of w
  end.

Fixpoint usable_eps (want : option bytes) (E : list bytes) : list endpoint :=
  match E with
  | [] => []
  | e :: E' => match usable_for want e with
               | Some ep => ep :: usable_eps want E'
               | None => usable_eps want E'
               end
  end.

(* V re-lists E entry by entry (an entry with port 0 may be left out) and ends with [new] *)
Fixpoint relisted (E V : list bytes) (new : bytes) : bool :=
  match E with
  | [] => match V with [v] => beqb v new | _ => false end
  | e :: E' =>
      match V with
      | v :: V' => (beqb e v && relisted E' V' new) || (disabled e && relisted E' V new)
      | [] => false
      end
  end.

(* ------------------------------------------------------------------ API calls *)
Inductive api :=
| ACreate        (* txtorcon.endpoints._create_socks_endpoint(reactor, proto, want) *)
| ADefault       (* txtorcon.Tor._default_socks_endpoint() *)
| ACfgEndpoint   (* TorConfig.socks_endpoint(reactor, want) *)
| ACfgCreate.    (* TorConfig.create_socks_endpoint(reactor, want) *)

Record op := { o_api : api;
               o_want : option bytes;   (* the port asked for: first word of a SocksPort line *)
               o_avail : bytes;         (* decimal text of the free TCP port the OS would hand out *)
               o_accept : bool }.       (* does Tor accept a SETCONF sent during this call *)

Inductive outcome := OEp (e : endpoint) | OErr (k : N).  (* 1 RuntimeError 2 ValueError 3 TorProtocolError 9 other *)
Record opobs := { sent : list bytes; out : outcome }.

Definition is_cfg (a : api) : bool := match a with ACfgEndpoint | ACfgCreate => true | _ => false end.

Definition is_setconf (l : bytes) : bool := prefixb (tx "SETCONF ") l.
Definition is_getconf (l : bytes) : bool := prefixb (tx "GETCONF ") l.

(* ------------------------------------------------------------------ reading a SETCONF line
   control-spec 3.1:  "SETCONF" 1*(SP keyword ["=" value]) ; value = unquoted run of non-blank
   characters, or a QuotedString with the C-style escapes (backslash followed by n, t, r, a double
   quote, a backslash or a single quote).
   Octal and hexadecimal escapes are not needed to carry a SocksPort line and are refused here. *)
Inductive dmode :=
| DSkip
| DKey (k : bytes)            (* reversed *)
| DEq (k : bytes)             (* just after "=" *)
| DPlain (k v : bytes)        (* v reversed *)
| DQuote (k v : bytes)
| DEsc (k v : bytes)
| DEndQ (k v : bytes)         (* just after the closing quote *)
| DFail.

Definition dstate := (list (bytes * bytes) * dmode)%type.   (* pairs reversed *)

Definition is_blank (c : ascii) : bool := Ascii.eqb c SP || Ascii.eqb c TAB.

Definition dstep (st : dstate) (c : ascii) : dstate :=
  let '(acc, m) := st in
  match m with
  | DFail => st
  | DSkip => if is_blank c then st
             else if Ascii.eqb c EQC || Ascii.eqb c DQ then (acc, DFail)
             else (acc, DKey [c])
  | DKey k => if is_blank c then ((rev k, []) :: acc, DSkip)
              else if Ascii.eqb c EQC then (acc, DEq (rev k))
              else if Ascii.eqb c DQ then (acc, DFail)
              else (acc, DKey (c :: k))
  | DEq k => if Ascii.eqb c DQ then (acc, DQuote k [])
             else if is_blank c then ((k, []) :: acc, DSkip)
             else (acc, DPlain k [c])
  | DPlain k v => if is_blank c then ((k, rev v) :: acc, DSkip)
                  else if Ascii.eqb c DQ then (acc, DFail)
                  else (acc, DPlain k (c :: v))
  | DQuote k v => if Ascii.eqb c DQ then (acc, DEndQ k v)
                  else if Ascii.eqb c BSL then (acc, DEsc k v)
                  else (acc, DQuote k (c :: v))
  | DEsc k v => if code c =? 110 then (acc, DQuote k (LF :: v))
                else if code c =? 114 then (acc, DQuote k (CR :: v))
                else if code c =? 116 then (acc, DQuote k (TAB :: v))
                else if Ascii.eqb c DQ || Ascii.eqb c BSL || Ascii.eqb c SQ then (acc, DQuote k (c :: v))
                else (acc, DFail)
  | DEndQ k v => if is_blank c then ((k, rev v) :: acc, DSkip) else (acc, DFail)
  end.

Definition dfinish (st : dstate) : option (list (bytes * bytes)) :=
  let '(acc, m) := st in
  match m with
  | DSkip => Some (rev acc)
  | DKey k => Some (rev ((rev k, []) :: acc))
  | DEq k => Some (rev ((k, []) :: acc))
  | DPlain k v | DEndQ k v => Some (rev ((k, rev v) :: acc))
  | DQuote _ _ | DEsc _ _ | DFail => None
  end.

Definition SETCONF : bytes := tx "SETCONF".

(* the key/value pairs of a SETCONF line (without CRLF) *)
Definition decode_setconf (l : bytes) : option (list (bytes * bytes)) :=
  if prefixb SETCONF l then
    match skipn 7 l with
    | c :: rest => if is_blank c then dfinish (fold_left dstep rest ([], DSkip)) else None
    | [] => None
    end
  else None.

Definition key_is_socksport (k : bytes) : bool := beqb (lower k) (tx "socksport").

(* ------------------------------------------------------------------ one call *)
Definition new_line (o : op) : bytes :=
  match o_want o with Some w => w | None => o_avail o end.

(* the accessors that have no way of adding a port *)
Definition may_refuse (o : op) : bool :=
  match o_api o, o_want o with
  | ACfgEndpoint, _ => true
  | ACfgCreate, None => true
  | _, _ => false
  end.

(* TorConfig.socks_endpoint takes a port, not a line: a request with option words may be refused *)
Definition port_only (o : op) : bool :=
  match o_api o, o_want o with
  | ACfgEndpoint, Some x => has_char SP x
  | _, _ => false
  end.

(* When the request carries option words and no entry is that very line, an entry for the same
   port with other options is neither required nor forbidden to be used: without a SETCONF the
   outcome may be the endpoint of any usable entry with the request's first word; a SETCONF is
   allowed exactly when no entry is the one asked for. *)
Definition step_ok (t : tor) (o : op) (b : opobs) : bool :=
  let E := entries t in
  let U := usable_eps (o_want o) E in
  forallb (fun l => is_getconf l || is_setconf l) (sent b) &&
  match filter is_setconf (sent b) with
  | [] =>
      match out b with
      | OEp e => existsb (ep_eqb e) (usable_eps (option_map first_word (o_want o)) E)
      | OErr _ => (isnil U && may_refuse o) || port_only o
      end
  | [s] =>
      isnil U &&
      match decode_setconf s with
      | Some kvs =>
          forallb key_is_socksport (map fst kvs) && relisted E (map snd kvs) (new_line o) &&
          match out b with
          | OEp e => o_accept o && option_eqb ep_eqb (addr_of (first_word (new_line o))) (Some e)
          | OErr _ => negb (o_accept o)
          end
      | None => false
      end
  | _ => false
  end.

(* Tor after the call: an accepted SETCONF replaces the SocksPort lines *)
Definition next_tor (t : tor) (o : op) (b : opobs) : tor :=
  match filter is_setconf (sent b) with
  | s :: _ =>
      if o_accept o then
        match decode_setconf s with
        | Some kvs => {| sp := RVals (map snd kvs); dflt := dflt t |}
        | None => t
        end
      else t
  | [] => t
  end.

Definition rejected (o : op) (b : opobs) : bool :=
  negb (o_accept o) && existsb is_setconf (sent b).

Fixpoint oracle_hist (t : tor) (ops : list op) (obs : list opobs) : bool :=
  match ops, obs with
  | [], [] => true
  | o :: ops', b :: obs' => step_ok t o b && oracle_hist (next_tor t o b) ops' obs'
  | _, _ => false
  end.

Fixpoint final_tor (t : tor) (ops : list op) (obs : list opobs) : tor :=
  match ops, obs with
  | o :: ops', b :: obs' => final_tor (next_tor t o b) ops' obs'
  | _, _ => t
  end.

(* what "never alters the existing listeners" means for Tor's configuration before and after *)
Definition listeners (t : tor) : list bytes := filter (fun e => negb (disabled e)) (entries t).
Fixpoint is_prefix (p l : list bytes) : bool :=
  match p, l with
  | [], _ => true
  | x :: p', y :: l' => beqb x y && is_prefix p' l'
  | _ :: _, [] => false
  end.

(* ------------------------------------------------------------------ input class of the open finding *)
Definition DEFAULTW : bytes := tx "DEFAULT".

Definition usable (e : bytes) : bool :=
  match addr_of (first_word e) with Some _ => true | None => false end.

(* C18-F4: a TorConfig call made after Tor refused a SETCONF of an earlier call *)
Definition f4 (rej : bool) (o : op) : bool := is_cfg (o_api o) && rej.

Definition in_class (rej : bool) (o : op) : bool := f4 rej o.

(* does a history touch a class (refusals and Tor's state are read off the observations, as the oracle does) *)
Fixpoint flag_from (t : tor) (rej : bool) (ops : list op) (obs : list opobs) : bool :=
  match ops, obs with
  | o :: ops', b :: obs' =>
      in_class rej o || flag_from (next_tor t o b) (rej || rejected o b) ops' obs'
  | _, _ => false
  end.

Definition flagged (t : tor) (ops : list op) (obs : list opobs) : bool := flag_from t false ops obs.

(* every call satisfies its clauses, or is in the input class of the known finding *)
Fixpoint oracle_known (t : tor) (rej : bool) (ops : list op) (obs : list opobs) : bool :=
  match ops, obs with
  | [], [] => true
  | o :: ops', b :: obs' =>
      (step_ok t o b || in_class rej o)
      && oracle_known (next_tor t o b) (rej || rejected o b) ops' obs'
  | _, _ => false
  end.

(* ------------------------------------------------------------------ the envelope
   Lines as Tor reports them: printable ASCII, no leading or trailing blank, first word in one
   of Tor's forms (unix:path, port, address:port, or a word that is not a number at all such
   as auto / [::1]:9050); numbers are canonical decimals up to 65535.  A request is such a line too, with a
   usable first word. *)
Definition okchar (c : ascii) : bool := (32 <=? code c) && (code c <=? 126).
Definition okwordchar (c : ascii) : bool :=
  (33 <=? code c) && (code c <=? 126) && negb (Ascii.eqb c DQ || Ascii.eqb c BSL || Ascii.eqb c SQ).

(* text that int() refuses for certain: empty, or with a character that is neither a digit nor _ + - *)
Definition surely_not_int (p : bytes) : bool :=
  isnil p || existsb (fun c => negb (is_digit c || Ascii.eqb c (ch 95) || Ascii.eqb c PLUS || Ascii.eqb c DASH)) p.

Definition okword (w : bytes) : bool :=
  negb (isnil w) && forallb okwordchar w &&
  if prefixb UNIXP w then negb (isnil (skipn 5 w))
  else match split_at COLON w with
       | Some (h, p) =>
           if all_digits p then canonical_dec p && port_ok (digits_val p) && negb (isnil h)
           else surely_not_int p
       | None =>
           if all_digits w then canonical_dec w && (digits_val w <=? 65535)
           else surely_not_int w
       end.

Definition okline0 (l : bytes) : bool :=
  forallb okchar l && okword (first_word l) &&
  match l with c :: _ => negb (is_sp c) | [] => false end &&
  match rev l with c :: _ => negb (is_sp c) | [] => false end.

(* Tor never reports the word txtorcon uses as its "unset" sentinel *)
Definition okline (l : bytes) : bool := okline0 l && negb (beqb l DEFAULTW).

Definition wf_op (o : op) : bool :=
  match o_want o with
  | Some w => okline w && usable w
  | None => true
  end &&
  canonical_dec (o_avail o) && port_ok (digits_val (o_avail o)) &&
  match o_api o, o_want o with ADefault, Some _ => false | _, _ => true end.

Definition wf_hist (t : tor) (ops : list op) : bool :=
  forallb okline (match sp t with RVals l => l | RDefault => [] end) && forallb okline (dflt t) &&
  forallb wf_op ops &&
  ((forallb (fun o => negb (is_cfg (o_api o))) ops && (N.of_nat (List.length (dflt t)) <=? 1))
   || (forallb (fun o => is_cfg (o_api o)) ops && match sp t with RVals [] => false | _ => true end)).

(* ------------------------------------------------------------------ client endpoint without a SOCKS endpoint *)
Inductive attempt :=
| TOk                        (* TCP connection and SOCKS negotiation succeed *)
| TConnErr (k : N)           (* the TCP connection fails: a twisted ConnectError (kind k) *)
| TSocksErr (c : N)          (* connected; the SOCKS server answers with error code c *)
| TLost                      (* connected; the connection closes before the SOCKS reply *)
| TPending.                  (* nothing happens *)

Inductive cres :=
| CProto                     (* the application protocol *)
| CConnErr (idx : N)         (* the very error object of attempt idx *)
| CSocksErr (c : option N)   (* a SOCKS error (its code) *)
| CPending                   (* connect() has not fired *)
| COther.                    (* anything else *)

Record cobs := { attempts : list endpoint; cresult : cres }.

Definition cres_eqb (a b : cres) : bool :=
  match a, b with
  | CProto, CProto | CPending, CPending | COther, COther => true
  | CConnErr i, CConnErr j => i =? j
  | CSocksErr x, CSocksErr y => option_eqb N.eqb x y
  | _, _ => false
  end.

(* Tor's default SocksPort and Tor Browser's *)
Definition well_known : list N := [9050; 9150].

Definition res_of (o : attempt) (idx : N) : cres :=
  match o with
  | TOk => CProto
  | TConnErr _ => CConnErr idx
  | TSocksErr c => CSocksErr (Some c)
  | TLost => CSocksErr None
  | TPending => CPending
  end.

(* attempts go to the targets in order; the next one is made only after a connection error;
   the last error is reported when every target failed *)
Fixpoint chk_attempts (targets atts : list endpoint) (outs : list attempt) (idx : N) (res : cres) : bool :=
  match targets, atts with
  | tg :: targets', a :: atts' =>
      ep_eqb tg a &&
      match hd TPending outs, targets' with
      | TConnErr _, _ :: _ => chk_attempts targets' atts' (tl outs) (idx + 1) res
      | o, _ => isnil atts' && cres_eqb res (res_of o idx)
      end
  | _, _ => false
  end.

Definition oracle_client (given : option endpoint) (outs : list attempt) (b : cobs) : bool :=
  match given with
  | Some e => chk_attempts [e] (attempts b) outs 0 (cresult b)
  | None => chk_attempts (map (EpTcp LOCALHOST) well_known) (attempts b) outs 0 (cresult b)
  end.

(* ------------------------------------------------------------------ a whole case *)
Inductive scenario :=
| SHist (t : tor) (ops : list op)
| SClient (given : option endpoint) (outs : list attempt).

Inductive observation :=
| BHist (obs : list opobs)
| BClient (b : cobs).

Definition oracle (s : scenario) (b : observation) : bool :=
  match s, b with
  | SHist t ops, BHist obs => oracle_hist t ops obs
  | SClient g outs, BClient c => oracle_client g outs c
  | _, _ => false
  end.

Definition wf (s : scenario) : bool :=
  match s with SHist t ops => wf_hist t ops | SClient _ _ => true end.
