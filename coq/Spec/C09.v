(* C09: each new stream gets exactly one attachment decision, honouring the attacher.
   Written from the property text, control-spec (ATTACHSTREAM, __LeaveStreamsUnattached, STREAM and
   CIRC events) and the documented IStreamAttacher / PriorityAttacher / Circuit.stream_via contracts.
   Independent of Model/ and Gen/.

   A history is a list of operations; the implementation's observation is one event list per
   operation.  The oracle replays the history on "Tor's side of the story" (which circuits exist and
   are BUILT, which streams are alive, which attacher is installed, which local addresses belong to
   via-circuit connections) and demands, operation by operation:
     - the attacher(s) consulted are exactly the ones the contract names, each once;
     - the commands seen on the control connection are, in order, exactly the decided ones
       (ATTACHSTREAM sid cid / ATTACHSTREAM sid 0 / SETCONF __LeaveStreamsUnattached=0|1), a command
       never appears before its decision and all of them have appeared when Tor has answered
       everything (the final flush);
     - an invalid answer is reported, exactly once, and sends nothing;
     - connect() through a circuit succeeds only if its own stream was attached to exactly that
       circuit, and does succeed once that and the SOCKS reply have both happened. *)
From Coq Require Import List Bool Ascii Arith NArith Lia String.
From TxVerif Require Import Lib.Bytes Lib.Dec.
Import ListNotations.
Open Scope N_scope.

(* ---------------------------------------------------------------- inputs *)
Inductive cstatus := CLaunched | CExtended | CBuilt | CFailed | CClosed.
Inductive sstatus := SNew | SNewResolve | SRemap | SSentConnect | SSentResolve | SSucceeded
                   | SFailed | SClosed | SDetached | SCtrlWait.
Inductive source := SrcNone | SrcInternal (port : N) | SrcIp (ip port : N).

(* what an attacher says about a stream *)
Inductive akind :=
| AKNone                 (* no preference *)
| AKDoNot                (* TorState.DO_NOT_ATTACH *)
| AKNotCirc (v : N)      (* something that is not a Circuit: 0 a string, 1..6 the falsy values False 0 '' [] {} () *)
| AKRaise                (* raises / its Deferred fails *)
| AKForeign              (* a Circuit object this TorState does not know (id 9000) *)
| AKCirc (oid : nat).    (* the oid-th circuit object (creation order), in whatever state it is now *)
Inductive amode :=
| MPlain                 (* the value itself *)
| MWrapped               (* a Deferred that has already fired / a coroutine that returns at once *)
| MLater.                (* a pending Deferred / a coroutine awaiting one; fired by OFire *)
Record answer := { a_kind : akind; a_mode : amode }.
Inductive att := AttCustom (j : nat) | AttPrio.

Inductive op :=
| OCirc (cid : N) (st : cstatus)
| OStream (sid : N) (st : sstatus) (cid : N) (host : bytes) (port : N) (src : source) (answers : list answer)
| OFire (n : nat)
| OSetAtt (a : option att)
| OPrioAdd (j : nat) (prio : N)
| OPrioRemove (j : nat)
| OConnect (k : nat) (oid : nat)
| OLocal (k : nat) (ip port : N)
| OSocks (k : nat) (ok : bool)
| OReply (ok : bool)
| OFlush.

(* ---------------------------------------------------------------- observations *)
Inductive cres := ROk | RFail (kind : N).
   (* 1 RuntimeError, 2 CircuitBuildFailedError, 3 CircuitBuildClosedError, 4 TorProtocolError,
      5 SocksError, 9 other *)
Inductive ev :=
| EWrote (line : bytes)            (* one transport.write on the control connection *)
| EAsked (j : nat) (sid : N)       (* custom attacher j's attach_stream was called for stream sid *)
| EReported                        (* TorState._attacher_error was called *)
| ERaised (k : N)                  (* the API call of this operation raised: 1 RuntimeError 2 ValueError *)
| EStarted (k : nat)               (* connection k began its TCP connection to the SOCKS port *)
| EConnDone (k : nat) (r : cres).  (* the Deferred of TorCircuitEndpoint.connect fired *)

Definition cres_eqb (a b : cres) : bool :=
  match a, b with ROk, ROk => true | RFail x, RFail y => x =? y | _, _ => false end.
Definition ev_eqb (a b : ev) : bool :=
  match a, b with
  | EWrote x, EWrote y => beqb x y
  | EAsked j s, EAsked j' s' => Nat.eqb j j' && (s =? s')
  | EReported, EReported => true
  | ERaised x, ERaised y => x =? y
  | EStarted x, EStarted y => Nat.eqb x y
  | EConnDone k r, EConnDone k' r' => Nat.eqb k k' && cres_eqb r r'
  | _, _ => false
  end.

(* ---------------------------------------------------------------- how Tor reads a command line *)
Inductive cmd := CAttach (sid cid : N) | CLeave (v : N) | COther.
Definition cmd_eqb (a b : cmd) : bool :=
  match a, b with
  | CAttach s c, CAttach s' c' => (s =? s') && (c =? c')
  | CLeave v, CLeave v' => v =? v'
  | COther, COther => true
  | _, _ => false
  end.

Definition str (s : string) : bytes := list_ascii_of_string s.

Fixpoint split_on (sep : ascii) (l : bytes) (cur : bytes) : list bytes :=
  match l with
  | [] => [rev cur]
  | a :: l' => if Ascii.eqb a sep then rev cur :: split_on sep l' [] else split_on sep l' (a :: cur)
  end.

(* one write must be exactly one line: text without CR/LF, then CR LF *)
Definition line_body (l : bytes) : option bytes :=
  match rev l with
  | lf :: cr :: body_rev =>
      if Ascii.eqb lf LF && Ascii.eqb cr CR && negb (memb CR body_rev) && negb (memb LF body_rev)
      then Some (rev body_rev) else None
  | _ => None
  end.

Definition parse_cmd (l : bytes) : cmd :=
  match line_body l with
  | None => COther
  | Some body =>
      match split_on SP body [] with
      | [w; a; b] =>
          if beqb w (str "ATTACHSTREAM") then
            match parse_dec a, parse_dec b with
            | Some s, Some c => CAttach s c
            | _, _ => COther
            end
          else COther
      | [w; a] =>
          if beqb w (str "SETCONF") then
            if beqb a (str "__LeaveStreamsUnattached=0") then CLeave 0
            else if beqb a (str "__LeaveStreamsUnattached=1") then CLeave 1
            else COther
          else COther
      | _ => COther
      end
  end.

(* ---------------------------------------------------------------- Tor's side of the story *)
Definition cstatus_eqb (a b : cstatus) : bool :=
  match a, b with
  | CLaunched, CLaunched | CExtended, CExtended | CBuilt, CBuilt | CFailed, CFailed | CClosed, CClosed => true
  | _, _ => false
  end.
Definition c_terminal (s : cstatus) : bool := match s with CFailed | CClosed => true | _ => false end.
Definition s_terminal (s : sstatus) : bool := match s with SFailed | SClosed => true | _ => false end.
Definition s_fresh (s : sstatus) : bool := match s with SNew | SNewResolve => true | _ => false end.

(* one incarnation of a circuit id: what the oid-th Circuit object stands for *)
Record inc := { i_cid : N; i_st : cstatus; i_built : bool (* has been BUILT at some time *) }.
Inductive slotv := VCustom (j : nat) | VPrio | VCirc.
Record pa := { pa_sid : N; pa_kind : akind; pa_fired : bool }.        (* an answer still to come *)
Record sub := { sb_j : nat; sb_prio : N; sb_live : bool }.            (* PriorityAttacher entries, insertion order *)

Record tor := {
  incs : list inc;              (* index = oid *)
  alive : list (N * nat);       (* circuit id -> oid of its live incarnation *)
  sids : list N;                (* live stream ids *)
  inst : option slotv;          (* the installed attacher *)
  pas : list pa;
  subs : list sub;
  kids : list (nat * nat);      (* connection number -> the circuit object it goes through *)
  addrs : list ((N * N) * nat); (* local address -> the via-circuit connection that owns it *)
  refused : bool;               (* a connect() was refused because another attacher is installed *)
  via : bool                    (* the circuit attacher was installed by a connect() *)
}.

Definition tor0 : tor :=
  {| incs := []; alive := []; sids := []; inst := None; pas := []; subs := []; kids := []; addrs := [];
     refused := false; via := false |}.

Definition lookup {A} (k : N) (l : list (N * A)) : option A :=
  match find (fun p => fst p =? k) l with Some p => Some (snd p) | None => None end.
Definition remove_key {A} (k : N) (l : list (N * A)) : list (N * A) := filter (fun p => negb (fst p =? k)) l.
Definition memN (x : N) (l : list N) : bool := existsb (N.eqb x) l.
Definition memnat (x : nat) (l : list nat) : bool := existsb (Nat.eqb x) l.

Fixpoint set_nth {A} (n : nat) (x : A) (l : list A) : list A :=
  match l, n with
  | [], _ => []
  | _ :: l', O => x :: l'
  | y :: l', S n' => y :: set_nth n' x l'
  end.

Definition upd_inc (i : inc) (st : cstatus) : inc :=
  {| i_cid := i_cid i; i_st := st; i_built := i_built i || cstatus_eqb st CBuilt |}.

(* a CIRC event *)
Definition tor_circ (t : tor) (cid : N) (st : cstatus) : tor :=
  let '(oid, incs1) :=
    match lookup cid (alive t) with
    | Some oid => (oid, incs t)
    | None => (List.length (incs t), incs t ++ [{| i_cid := cid; i_st := CLaunched; i_built := false |}])
    end in
  let incs2 := match nth_error incs1 oid with Some i => set_nth oid (upd_inc i st) incs1 | None => incs1 end in
  let alive2 := if c_terminal st then remove_key cid (alive t)
                else match lookup cid (alive t) with Some _ => alive t | None => alive t ++ [(cid, oid)] end in
  {| incs := incs2; alive := alive2; sids := sids t; inst := inst t; pas := pas t; subs := subs t; kids := kids t;
     addrs := addrs t; refused := refused t; via := via t |}.

(* which status changes Tor can report for a live circuit *)
Definition c_next_ok (old new : cstatus) : bool :=
  match old, new with
  | CLaunched, (CExtended | CBuilt | CFailed | CClosed) => true
  | CExtended, (CExtended | CBuilt | CFailed | CClosed) => true
  | CBuilt, CClosed => true
  | _, _ => false
  end.

Fixpoint ends_with (suffix l : bytes) : bool :=
  beqb suffix l || match l with [] => false | _ :: l' => ends_with suffix l' end.
(* a ".exit" address: the notation "hostname.exitnode.exit" of the Tor manual *)
(* host names are case-insensitive (Tor itself compares the ".exit" suffix without regard to case) *)
Definition lower_ch (a : ascii) : ascii :=
  if (65 <=? code a) && (code a <=? 90) then ch (code a + 32) else a.
Definition lower (h : bytes) : bytes := map lower_ch h.
Definition is_exit_host (h : bytes) : bool := ends_with (str ".exit") (lower h).
Fixpoint contains (needle l : bytes) : bool :=
  prefixb needle l || match l with [] => false | _ :: l' => contains needle l' end.

Definition default_answer : answer := {| a_kind := AKNone; a_mode := MPlain |}.
Definition ans (answers : list answer) (j : nat) : answer := nth j answers default_answer.

Definition plain_none (a : answer) : bool :=
  match a_kind a, a_mode a with AKNone, MPlain => true | _, _ => false end.

(* PriorityAttacher contract: "consulted in order [of priority, 0 first; ties in insertion order] and
   the first one to return something besides None wins" *)
Fixpoint insert_sub (x : sub) (l : list sub) : list sub :=
  match l with
  | [] => [x]
  | y :: l' => if sb_prio x <=? sb_prio y then x :: l else y :: insert_sub x l'
  end.
Definition prio_order (ss : list sub) : list nat :=
  map sb_j (fold_right insert_sub [] (filter sb_live ss)).

Fixpoint consult (order : list nat) (answers : list answer) : list nat * option answer :=
  match order with
  | [] => ([], None)
  | j :: r =>
      if plain_none (ans answers j) then let '(q, w) := consult r answers in (j :: q, w)
      else ([j], Some (ans answers j))
  end.

(* the decision an answer stands for, at the moment it is known *)
Inductive decision := DAttach (cid : N) | DTorChooses | DNothing | DInvalid.
Definition decide (t : tor) (a : akind) : decision :=
  match a with
  | AKNone => DTorChooses
  | AKDoNot => DNothing
  | AKNotCirc _ | AKRaise | AKForeign => DInvalid
  | AKCirc oid =>
      match nth_error (incs t) oid with
      | Some i => if cstatus_eqb (i_st i) CBuilt then DAttach (i_cid i) else DInvalid
      | None => DTorChooses       (* no such object (yet): the harness's attacher answers None then *)
      end
  end.
Definition dec_cmds (sid : N) (d : decision) : list cmd :=
  match d with DAttach c => [CAttach sid c] | DTorChooses => [CAttach sid 0] | _ => [] end.
Definition dec_reports (d : decision) : nat := match d with DInvalid => 1%nat | _ => 0%nat end.

(* what has to happen for a stream seen for the first time *)
Inductive outcome :=
| NoDecision                                                  (* no attacher, or a .exit address *)
| Asked (who : list nat) (winner : option answer)             (* custom / priority attacher consulted *)
| ViaCircuit.                                                 (* the circuit attacher decides by source address *)

Definition first_sight (t : tor) (sid : N) (st : sstatus) : bool := negb (memN sid (sids t)) && negb (s_terminal st).

Definition stream_outcome (t : tor) (sid : N) (st : sstatus) (host : bytes) (answers : list answer) : outcome :=
  if negb (first_sight t sid st) then NoDecision else
  match inst t with
  | None => NoDecision
  | Some v =>
      if is_exit_host host then NoDecision else
      match v with
      | VCustom j => Asked [j] (Some (ans answers j))
      | VPrio => let '(q, w) := consult (prio_order (subs t)) answers in Asked q w
      | VCirc => ViaCircuit
      end
  end.

Definition set_sids (t : tor) (l : list N) : tor :=
  {| incs := incs t; alive := alive t; sids := l; inst := inst t; pas := pas t; subs := subs t; kids := kids t;
     addrs := addrs t; refused := refused t; via := via t |}.
Definition set_pas (t : tor) (l : list pa) : tor :=
  {| incs := incs t; alive := alive t; sids := sids t; inst := inst t; pas := l; subs := subs t; kids := kids t;
     addrs := addrs t; refused := refused t; via := via t |}.
Definition set_inst (t : tor) (v : option slotv) : tor :=
  {| incs := incs t; alive := alive t; sids := sids t; inst := v; pas := pas t; subs := subs t; kids := kids t;
     addrs := addrs t; refused := refused t; via := via t |}.
Definition set_subs (t : tor) (l : list sub) : tor :=
  {| incs := incs t; alive := alive t; sids := sids t; inst := inst t; pas := pas t; subs := l; kids := kids t;
     addrs := addrs t; refused := refused t; via := via t |}.

Definition tor_stream (t : tor) (sid : N) (st : sstatus) (host : bytes) (answers : list answer) : tor :=
  let t1 := match stream_outcome t sid st host answers with
            | Asked _ (Some a) =>
                match a_mode a with
                | MLater => set_pas t (pas t ++ [{| pa_sid := sid; pa_kind := a_kind a; pa_fired := false |}])
                | _ => t
                end
            | _ => t
            end in
  if s_terminal st then set_sids t1 (filter (fun x => negb (x =? sid)) (sids t1))
  else if memN sid (sids t1) then t1 else set_sids t1 (sids t1 ++ [sid]).

Definition att_slot (a : att) : slotv := match a with AttCustom j => VCustom j | AttPrio => VPrio end.
Definition slotv_eqb (a b : slotv) : bool :=
  match a, b with
  | VCustom x, VCustom y => Nat.eqb x y
  | VPrio, VPrio | VCirc, VCirc => true
  | _, _ => false
  end.

(* set_attacher: None removes; the installed one again is a no-op; a different one is refused *)
Inductive set_result := SetInstalled | SetSame | SetRefused | SetRemoved.
Definition set_outcome (t : tor) (a : option att) : set_result :=
  match a, inst t with
  | None, _ => SetRemoved
  | Some x, None => SetInstalled
  | Some x, Some v => if slotv_eqb (att_slot x) v then SetSame else SetRefused
  end.

(* connect() through a circuit needs the circuit attacher: installs it when the slot is free,
   is refused when another attacher is installed *)
Inductive conn_result := ConnInstalls | ConnReady | ConnRefused.
Definition conn_outcome (t : tor) : conn_result :=
  match inst t with
  | None => ConnInstalls
  | Some VCirc => ConnReady
  | Some _ => ConnRefused
  end.

Fixpoint kill_sub (j : nat) (l : list sub) : list sub :=
  match l with
  | [] => []
  | x :: l' => if Nat.eqb (sb_j x) j && sb_live x
               then {| sb_j := sb_j x; sb_prio := sb_prio x; sb_live := false |} :: l'
               else x :: kill_sub j l'
  end.

Definition tor_step (t : tor) (o : op) : tor :=
  match o with
  | OCirc cid st => tor_circ t cid st
  | OStream sid st _ host _ _ answers => tor_stream t sid st host answers
  | OFire n =>
      match nth_error (pas t) n with
      | Some p => set_pas t (set_nth n {| pa_sid := pa_sid p; pa_kind := pa_kind p; pa_fired := true |} (pas t))
      | None => t
      end
  | OSetAtt a =>
      match set_outcome t a with
      | SetInstalled => set_inst t (option_map att_slot a)
      | SetRemoved => set_inst t None
      | _ => t
      end
  | OPrioAdd j p => set_subs t (subs t ++ [{| sb_j := j; sb_prio := p; sb_live := true |}])
  | OPrioRemove j => set_subs t (kill_sub j (subs t))
  | OConnect k oid =>
      let t1 := {| incs := incs t; alive := alive t; sids := sids t; inst := inst t; pas := pas t; subs := subs t;
                   kids := kids t ++ [(k, oid)]; addrs := addrs t; refused := refused t; via := via t |} in
      match conn_outcome t with
      | ConnInstalls => {| incs := incs t1; alive := alive t1; sids := sids t1; inst := Some VCirc; pas := pas t1;
                           subs := subs t1; kids := kids t1; addrs := addrs t1; refused := refused t1; via := true |}
      | ConnReady => t1
      | ConnRefused => {| incs := incs t1; alive := alive t1; sids := sids t1; inst := inst t1; pas := pas t1;
                          subs := subs t1; kids := kids t1; addrs := addrs t1; refused := true; via := via t1 |}
      end
  | OLocal k ip port =>
      {| incs := incs t; alive := alive t; sids := sids t; inst := inst t; pas := pas t; subs := subs t; kids := kids t;
         addrs := addrs t ++ [((ip, port), k)]; refused := refused t; via := via t |}
  | OSocks _ _ | OReply _ | OFlush => t
  end.

(* ---- the envelope: what Tor can emit and what the documented API allows ---- *)
Definition ID_LIMIT : N := 9000.
Definition akind_ok (t : tor) (a : akind) : bool :=
  match a with AKCirc oid => Nat.ltb oid (List.length (incs t)) | _ => true end.
(* an answer given at once can only name a circuit object that exists; a LATE answer may name one that
   is created between the consultation and the answer ("build a circuit for this stream, wait for BUILT,
   return it"): it is judged against the circuits known when it arrives (OFire) *)
Definition answer_ok (t : tor) (a : answer) : bool :=
  match a_mode a with MLater => true | _ => akind_ok t (a_kind a) end.

Definition legal (t : tor) (o : op) : bool :=
  match o with
  | OCirc cid st =>
      (cid <? ID_LIMIT) && (0 <? cid) &&
      match lookup cid (alive t) with
      | Some oid => match nth_error (incs t) oid with Some i => c_next_ok (i_st i) st | None => false end
      | None => true           (* a circuit may be seen first in any status *)
      end
  | OStream sid st cid host port src answers =>
      (sid <? ID_LIMIT) && (0 <? sid) &&
      ((cid =? 0) || match lookup cid (alive t) with Some _ => true | None => false end) &&
      (negb (s_fresh st) || negb (memN sid (sids t))) &&
      forallb (answer_ok t) answers &&
      (port <? 65536) &&
      match src with SrcNone => true | SrcInternal p => p <? 65536 | SrcIp ip p => (ip <? 4294967296) && (p <? 65536) end
  | OFire _ => true
  | OSetAtt a =>
      (* "if you do [use stream_via], then you can't call set_attacher yourself" *)
      negb (via t) &&
      match a with None => match inst t with Some _ => true | None => false end | Some _ => true end
  | OPrioAdd j p =>
      (* one entry per sub-attacher at a time *)
      (p <? 1000) && negb (existsb (fun x => Nat.eqb (sb_j x) j && sb_live x) (subs t))
  | OPrioRemove _ => true
  | OConnect k oid =>
      negb (existsb (fun p => Nat.eqb (fst p) k) (kids t)) && Nat.ltb oid (List.length (incs t)) && negb (refused t)
  | OLocal k ip port =>
      (ip <? 4294967296) && (0 <? ip) && (port <? 65536) && negb (existsb (fun p => (fst (fst p) =? ip) && (snd (fst p) =? port)) (addrs t))
  | OSocks _ _ | OReply _ => true
  | OFlush => true
  end.

Fixpoint wf_from (t : tor) (ops : list op) : bool :=
  match ops with
  | [] => false                                   (* a history ends with the flush *)
  | [OFlush] => true
  | OFlush :: _ => false
  | o :: r => legal t o && wf_from (tor_step t o) r
  end.
Definition wf (ops : list op) : bool := wf_from tor0 ops.

(* ---------------------------------------------------------------- the checker *)
Record reg := { r_ip : N; r_port : N; r_oid : nat; r_k : nat }.
Record cn := { n_k : nat; n_oid : nat; n_started : bool; n_local : bool; n_socks : option bool;
               n_att : option bool;   (* Some true: its stream was attached to its circuit; Some false: refused *)
               n_done : bool;
               n_refused : bool;      (* its connect() met another attacher in the slot *)
               n_r4 : bool            (* Tor refused a command while this connection had not started yet *) }.
Record chk := { t : tor; regs : list reg; cns : list cn; expect : list cmd }.

Definition chk0 : chk := {| t := tor0; regs := []; cns := []; expect := [] |}.

Definition writes (es : list ev) : list bytes :=
  List.concat (map (fun e => match e with EWrote b => [b] | _ => [] end) es).
Definition askeds (es : list ev) : list (nat * N) :=
  List.concat (map (fun e => match e with EAsked j s => [(j, s)] | _ => [] end) es).
Definition n_reported (es : list ev) : nat :=
  List.length (filter (fun e => match e with EReported => true | _ => false end) es).
Definition raiseds (es : list ev) : list N :=
  List.concat (map (fun e => match e with ERaised k => [k] | _ => [] end) es).
Definition starteds (es : list ev) : list nat :=
  List.concat (map (fun e => match e with EStarted k => [k] | _ => [] end) es).
Definition dones (es : list ev) : list (nat * cres) :=
  List.concat (map (fun e => match e with EConnDone k r => [(k, r)] | _ => [] end) es).

Definition find_cn (k : nat) (l : list cn) : option cn := find (fun c => Nat.eqb (n_k c) k) l.
Definition upd_cn (c : cn) (l : list cn) : list cn :=
  map (fun x => if Nat.eqb (n_k x) (n_k c) then c else x) l.

Definition cn_started (c : cn) : cn :=
  {| n_k := n_k c; n_oid := n_oid c; n_started := true; n_local := n_local c; n_socks := n_socks c; n_att := n_att c; n_done := n_done c; n_refused := n_refused c; n_r4 := n_r4 c |}.
Definition cn_local (c : cn) : cn :=
  {| n_k := n_k c; n_oid := n_oid c; n_started := n_started c; n_local := true; n_socks := n_socks c; n_att := n_att c; n_done := n_done c; n_refused := n_refused c; n_r4 := n_r4 c |}.
Definition cn_socks (c : cn) (ok : bool) : cn :=
  {| n_k := n_k c; n_oid := n_oid c; n_started := n_started c; n_local := n_local c; n_socks := Some ok; n_att := n_att c; n_done := n_done c; n_refused := n_refused c; n_r4 := n_r4 c |}.
Definition cn_att (c : cn) (ok : bool) : cn :=
  {| n_k := n_k c; n_oid := n_oid c; n_started := n_started c; n_local := n_local c; n_socks := n_socks c; n_att := Some ok; n_done := n_done c; n_refused := n_refused c; n_r4 := n_r4 c |}.
Definition cn_r4 (c : cn) : cn :=
  if negb (n_started c) && negb (n_done c) then
    {| n_k := n_k c; n_oid := n_oid c; n_started := n_started c; n_local := n_local c; n_socks := n_socks c; n_att := n_att c;
       n_done := n_done c; n_refused := n_refused c; n_r4 := true |}
  else c.
Definition cn_done (c : cn) : cn :=
  {| n_k := n_k c; n_oid := n_oid c; n_started := n_started c; n_local := n_local c; n_socks := n_socks c; n_att := n_att c; n_done := true; n_refused := n_refused c; n_r4 := n_r4 c |}.

Definition both_ok (c : cn) : bool :=
  match n_att c, n_socks c with Some true, Some true => true | _, _ => false end.

(* the connection events of an operation, in the order they happened:
   EStarted k: a known connection, once, and only through a circuit that has been BUILT;
   EConnDone k r: once per connection; success only when its stream went to its circuit and SOCKS said yes;
   a failure only for a reason the property allows: another attacher is installed (RuntimeError), its circuit
   turned out unusable when its stream appeared (RuntimeError), its circuit failed / closed before it was ever
   BUILT (CircuitBuildFailedError / CircuitBuildClosedError), Tor refused a command before the connection
   started (TorProtocolError), the SOCKS request was refused (SocksError) -- never merely because another
   via-circuit connect() is in progress *)
Definition fail_ok (tt : tor) (c : cn) (kind : N) : bool :=
  if kind =? 1 then n_refused c || match n_att c with Some false => true | _ => false end
  else if kind =? 2 then match nth_error (incs tt) (n_oid c) with
                         | Some i => cstatus_eqb (i_st i) CFailed && negb (i_built i) | None => false end
  else if kind =? 3 then match nth_error (incs tt) (n_oid c) with
                         | Some i => cstatus_eqb (i_st i) CClosed && negb (i_built i) | None => false end
  else if kind =? 4 then n_r4 c && negb (n_started c)
  else if kind =? 5 then match n_socks c with Some false => true | _ => false end
  else false.

Definition conn_event (tt : tor) (l : list cn) (e : ev) : option (list cn) :=
  match e with
  | EStarted k =>
      match find_cn k l with
      | Some c =>
          let built := match nth_error (incs tt) (n_oid c) with Some i => i_built i | None => false end in
          if negb (n_started c) && negb (n_done c) && built then Some (upd_cn (cn_started c) l) else None
      | None => None
      end
  | EConnDone k r =>
      match find_cn k l with
      | Some c =>
          if n_done c then None else
          let fine := match r with ROk => both_ok c | RFail kind => negb (both_ok c) && fail_ok tt c kind end in
          if fine then Some (upd_cn (cn_done c) l) else None
      | None => None
      end
  | _ => Some l
  end.

Fixpoint conn_events (tt : tor) (l : list cn) (es : list ev) : option (list cn) :=
  match es with
  | [] => Some l
  | e :: r => match conn_event tt l e with Some l' => conn_events tt l' r | None => None end
  end.

Definition is_ok (r : cres) : bool := match r with ROk => true | _ => false end.
(* must: (k, want_success) outcomes that have to be reported in this operation *)
Definition musts_met (must : list (nat * bool)) (ds : list (nat * cres)) : bool :=
  forallb (fun m => existsb (fun d => Nat.eqb (fst d) (fst m) && Bool.eqb (is_ok (snd d)) (snd m)) ds) must.

Fixpoint prefix_cmds (w pending : list cmd) : option (list cmd) :=
  match w, pending with
  | [], _ => Some pending
  | x :: w', y :: p' => if cmd_eqb x y then prefix_cmds w' p' else None
  | _ :: _, [] => None
  end.

(* common tail of every operation *)
Definition finish (tt : tor) (rg : list reg) (cs : list cn) (pending : list cmd) (es : list ev)
                  (asked : list (nat * N)) (reports : nat -> bool) (raised : list N -> bool)
                  (must : list (nat * bool)) : option chk :=
  match prefix_cmds (map parse_cmd (writes es)) pending with
  | None => None
  | Some rest =>
      if negb (list_eqb (fun a b => Nat.eqb (fst a) (fst b) && (snd a =? snd b)) (askeds es) asked) then None else
      if negb (reports (n_reported es)) then None else
      if negb (raised (raiseds es)) then None else
      match conn_events tt cs es with
      | None => None
      | Some cs2 =>
          if musts_met must (dones es) then Some {| t := tt; regs := rg; cns := cs2; expect := rest |} else None
      end
  end.

Definition none_raised (l : list N) : bool := match l with [] => true | _ => false end.
Definition exactly (n : nat) (m : nat) : bool := Nat.eqb n m.

Definition find_reg (ip port : N) (l : list reg) : option reg :=
  find (fun r => (r_ip r =? ip) && (r_port r =? port)) l.
Definition remove_reg (ip port : N) (l : list reg) : list reg :=
  filter (fun r => negb ((r_ip r =? ip) && (r_port r =? port))) l.

Definition chk_op (k : chk) (o : op) (es : list ev) : option chk :=
  if negb (legal (t k) o) then None else
  let tt := tor_step (t k) o in
  match o with
  | OCirc _ _ | OPrioAdd _ _ =>
      finish tt (regs k) (cns k) (expect k) es [] (exactly 0) none_raised []
  | OPrioRemove _ =>
      (* removing an attacher that is not there may raise *)
      finish tt (regs k) (cns k) (expect k) es [] (exactly 0) (fun _ => true) []
  | OStream sid st _ host _ src answers =>
      match stream_outcome (t k) sid st host answers with
      | NoDecision => finish tt (regs k) (cns k) (expect k) es [] (exactly 0) none_raised []
      | Asked who w =>
          let asked := map (fun j => (j, sid)) who in
          let later := match w with Some a => match a_mode a with MLater => true | _ => false end | None => false end in
          if later then finish tt (regs k) (cns k) (expect k) es asked (exactly 0) none_raised []
          else
            let d := decide (t k) (match w with Some a => a_kind a | None => AKNone end) in
            finish tt (regs k) (cns k) (expect k ++ dec_cmds sid d) es asked (exactly (dec_reports d)) none_raised []
      | ViaCircuit =>
          match src with
          | SrcIp ip port =>
              match find_reg ip port (regs k) with
              | Some r =>
                  let built := match nth_error (incs (t k)) (r_oid r) with
                               | Some i => if cstatus_eqb (i_st i) CBuilt then Some (i_cid i) else None
                               | None => None end in
                  let rg := remove_reg ip port (regs k) in
                  match find_cn (r_k r) (cns k), built with
                  | Some c, Some cid =>
                      let c1 := cn_att c true in
                      finish tt rg (upd_cn c1 (cns k)) (expect k ++ [CAttach sid cid]) es [] (exactly 0) none_raised
                             (if both_ok c1 && negb (n_done c1) then [(r_k r, true)] else [])
                  | Some c, None =>
                      (* its circuit is gone: the stream must not be handed to another circuit *)
                      finish tt rg (upd_cn (cn_att c false) (cns k)) (expect k) es [] (exactly 0) none_raised []
                  | None, _ => None
                  end
              | None => finish tt (regs k) (cns k) (expect k ++ [CAttach sid 0]) es [] (exactly 0) none_raised []
              end
          | _ => finish tt (regs k) (cns k) (expect k ++ [CAttach sid 0]) es [] (exactly 0) none_raised []
          end
      end
  | OFire n =>
      match nth_error (pas (t k)) n with
      | Some p =>
          if pa_fired p then finish tt (regs k) (cns k) (expect k) es [] (exactly 0) none_raised []
          else let d := decide (t k) (pa_kind p) in
               finish tt (regs k) (cns k) (expect k ++ dec_cmds (pa_sid p) d) es [] (exactly (dec_reports d)) none_raised []
      | None => finish tt (regs k) (cns k) (expect k) es [] (exactly 0) none_raised []
      end
  | OSetAtt a =>
      match set_outcome (t k) a with
      | SetInstalled => finish tt (regs k) (cns k) (expect k ++ [CLeave 1]) es [] (exactly 0) none_raised []
      | SetRemoved => finish tt (regs k) (cns k) (expect k ++ [CLeave 0]) es [] (exactly 0) none_raised []
      | SetSame => finish tt (regs k) (cns k) (expect k) es [] (exactly 0) none_raised []
      | SetRefused => finish tt (regs k) (cns k) (expect k) es [] (exactly 0)
                             (fun l => match l with [_] => true | _ => false end) []
      end
  | OConnect kk oid =>
      let c := {| n_k := kk; n_oid := oid; n_started := false; n_local := false; n_socks := None; n_att := None; n_done := false;
                  n_refused := match conn_outcome (t k) with ConnRefused => true | _ => false end; n_r4 := false |} in
      match conn_outcome (t k) with
      | ConnInstalls => finish tt (regs k) (cns k ++ [c]) (expect k ++ [CLeave 1]) es [] (exactly 0) none_raised []
      | ConnReady => finish tt (regs k) (cns k ++ [c]) (expect k) es [] (exactly 0) none_raised []
      | ConnRefused => finish tt (regs k) (cns k ++ [c]) (expect k) es [] (exactly 0) none_raised [(kk, false)]
      end
  | OLocal kk ip port =>
      match find_cn kk (cns k) with
      | Some c =>
          if n_started c && negb (n_local c) && negb (n_done c) then
            finish tt (regs k ++ [{| r_ip := ip; r_port := port; r_oid := n_oid c; r_k := kk |}])
                   (upd_cn (cn_local c) (cns k)) (expect k) es [] (exactly 0) none_raised []
          else finish tt (regs k) (cns k) (expect k) es [] (exactly 0) none_raised []
      | None => finish tt (regs k) (cns k) (expect k) es [] (exactly 0) none_raised []
      end
  | OSocks kk ok =>
      match find_cn kk (cns k) with
      | Some c =>
          if n_local c && match n_socks c with None => true | Some _ => false end && negb (n_done c) then
            let c1 := cn_socks c ok in
            finish tt (regs k) (upd_cn c1 (cns k)) (expect k) es [] (exactly 0) none_raised
                   (if ok then (if both_ok c1 then [(kk, true)] else []) else [(kk, false)])
          else finish tt (regs k) (cns k) (expect k) es [] (exactly 0) none_raised []
      | None => finish tt (regs k) (cns k) (expect k) es [] (exactly 0) none_raised []
      end
  | OReply ok =>
      (* Tor refusing a command may be reported; accepting one is not *)
      finish tt (regs k) (if ok then cns k else map cn_r4 (cns k)) (expect k) es []
             (fun n => if ok then Nat.eqb n 0 else Nat.leb n 1) none_raised []
  | OFlush =>
      match finish tt (regs k) (cns k) (expect k) es [] (exactly 0) none_raised [] with
      | Some r => match expect r with [] => Some r | _ => None end
      | None => None
      end
  end.

Fixpoint chk_ops (k : chk) (ops : list op) (tr : list (list ev)) : bool :=
  match ops, tr with
  | [], [] => true
  | o :: ops', es :: tr' => match chk_op k o es with Some k' => chk_ops k' ops' tr' | None => false end
  | _, _ => false
  end.

Definition oracle (ops : list op) (tr : list (list ev)) : bool := chk_ops chk0 ops tr.

(* (the findings C09-F1 via-circuit stream after its circuit closed, C09-F2 target merely containing ".exit",
   C09-F3 PriorityAttacher heap-array order were repaired in /repo: f392c3b, abe169c, c8582a8; no input class
   is excluded any more) *)
