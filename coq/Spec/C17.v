(* C17: onion listen(): loopback listener, exact port mapping, no leak on failure.

   Written from the property text, the documented meaning of the endpoint options (docstrings of
   TCPHiddenServiceEndpoint / TCPHiddenServiceEndpointParser / Tor.create_*_endpoint) and, for "its
   descriptor wait is over", from Spec/C15.v.  Independent of Model/ and Gen/.

   A case = how the endpoint is requested (one of three routes with that route's options), what the
   environment does (is the configuration already there; does the local bind succeed; which port
   the OS hands out) and a script of stimuli after listen() was called.

   What is demanded:
   (a) an INVALID option combination is refused by the constructing call itself, and nothing has been
       started by then: no local listener, no control command, no Tor launched/contacted, no
       temporary directory;
   (b) otherwise, once the configuration is available, exactly one local listener is bound, on the
       loopback interface; then Tor is asked (exactly once) to forward exactly (public port ->
       127.0.0.1:that local port); nothing is bound or sent while the configuration is missing;
   (c) listen() resolves exactly when C15's creation is over (reply received and descriptor wait
       decided, Spec.C15.check_done), to a port whose address reports the assigned hostname and the
       public port and which wraps the bound listener; calling its stopListening closes that listener;
   (d) if the configuration cannot be had, the bind fails, Tor rejects the command, every upload
       fails or the control connection is lost before the wait is over, listen() fails with that
       error in that very step and afterwards no local listener is open; the listener is closed at
       most once and never while the service is being created or after success (before Stop). *)
From Coq Require Import List Bool Arith NArith Lia.
From TxVerif Require Import Lib.ListSet Spec.C15.
Import ListNotations.
Open Scope N_scope.

(* ---- option vocabularies ---- *)
Inductive tri := TNone | TFalse | TTrue.               (* a Python None / False / True argument *)
Inductive authk := ANone | ABasic | AStealth.
Inductive keyk := KNone | KRsa | KEd.                   (* no key / "RSA1024:..." / "ED25519-V3:..." *)
Inductive verk := VNone | V2 | V3.

Record ctor_args := {
  a_eph : tri;           (* ephemeral= *)
  a_hsdir : bool;        (* hidden_service_dir= given *)
  a_auth : authk;        (* auth= *)
  a_stealth_kw : bool;   (* the deprecated stealth_auth= keyword is given *)
  a_key : keyk;          (* private_key= *)
  a_ver : verk;          (* version= *)
  a_single : tri         (* single_hop= *)
}.

Inductive tor_method := MOnion | MAuth | MFs | MFsAuth.  (* Tor.create_[authenticated_|filesystem_|filesystem_authenticated_]onion_endpoint *)
Record tor_args := { t_m : tor_method; t_auth : authk; t_key : keyk; t_ver : verk; t_single : tri }.

Inductive sver := SVNone | SV2 | SV3 | SV4 | SVx.        (* version= absent / "2" / "3" / "4" / "x" *)
Inductive shop := SHNone | SHtrue | SHfalse | SH1 | SH0 | SHTrue | SHbad.   (* singleHop= absent/"true"/"false"/"1"/"0"/"True"/"maybe" *)
Inductive keyfile := KFNone | KFRsa | KFEd | KFPem | KFGarbage.  (* privateKeyFile= absent / blob file / blob file / PEM file / not a key *)
Record str_args := { s_hsd : bool; s_key : keyk; s_keyfile : keyfile; s_ver : sver; s_hop : shop; s_control : bool }.

Inductive route := RCtor (a : ctor_args) | RTor (t : tor_args) | RStr (s : str_args).

Record cfg := {
  g_route : route;
  g_pub : N;              (* public port *)
  g_bound : N;            (* the port the OS hands out for the local listener *)
  g_pending : bool;       (* the configuration is not available yet when listen() is called *)
  g_bind_ok : bool;       (* the local bind succeeds *)
  g_two_clients : bool;   (* an authenticated service is asked for with two client names instead of one *)
  g_same_dir : bool       (* the TorConfig already holds a (plain filesystem) service with the directory asked for *)
}.

Inductive lop :=
| LCfgOk | LCfgFail | LCfgWrong        (* the awaited configuration arrives / fails / is not a TorConfig *)
| LDesc (o : Spec.C15.op)              (* HS_DESC event, or the answer to the creating command *)
| LDisconnect                          (* the control connection is lost *)
| LStop.                               (* the user calls stopListening() on the port listen() gave *)

Inductive fkind := FConfig | FNotConfig | FBind | FRejected | FUploads | FDisconnected | FValue | FOther (k : N).

Inductive lres :=
| LOk (host_ok port_ok wraps : bool)   (* address (port.getHost().onion_uri and endpoint.onion_uri) reports a hostname Tor
                                          assigned to the service / the public port; wraps the bound listener *)
| LFail (k : fkind).

Inductive lobs :=
| ORefused                             (* the constructing call raised *)
| OConstructed
| OStartedTor                          (* a Tor launch / control connection was initiated *)
| OMkdtemp | OTrigger                  (* temporary HiddenServiceDir created / its removal registered *)
| OListen (port0 loopback ok : bool)   (* reactor.listenTCP(port, ..., interface): port == 0, interface == 127.0.0.1, succeeded *)
| OCmd (add_onion : bool) (maps : list (N * N * bool))   (* ADD_ONION / SETCONF with its port mappings (public, local, host is 127.0.0.1) *)
| OStopL (was_open : bool)             (* stopListening() reached the local listener *)
| OResult (r : lres)                   (* the listen() Deferred fired *)
| ONoop                                (* the script's answer had no command to answer *)
| ONoStop                              (* the script's Stop had no port to stop *)
| OOtherL (k : N).                     (* anything unexpected (other control line, logged error) *)

Record lrec := { l_evs : list lobs; l_open : N (* local listeners currently open *) }.

(* ---- which requests are invalid (from the documentation of the options) ---- *)
Definition tri_true (t : tri) : bool := match t with TTrue => true | _ => false end.
Definition has_key (k : keyk) : bool := match k with KNone => false | _ => true end.

(* the resolved request *)
Record req := { q_eph : bool; q_auth : authk; q_key : keyk; q_ver : verk; q_single : bool; q_hsdir : bool }.

Definition ctor_req (a : ctor_args) : option req :=
  let eph := match a_eph a with TNone => negb (a_hsdir a) | TTrue => true | TFalse => false end in
  if a_stealth_kw a && negb (match a_auth a with ANone => true | _ => false end) then None else
  let auth := if a_stealth_kw a then AStealth else a_auth a in
  if eph && (match auth with AStealth => true | _ => false end) then None else
  if eph && a_hsdir a then None else
  if has_key (a_key a) && negb eph then None else
  if tri_true (a_single a) && negb eph then None else
  if (match a_ver a with V3 => true | _ => false end) && (match a_key a with KRsa => true | _ => false end) then None else
  Some {| q_eph := eph; q_auth := auth; q_key := a_key a; q_ver := a_ver a; q_single := tri_true (a_single a);
          q_hsdir := a_hsdir a |}.

Definition tor_ctor (t : tor_args) : ctor_args :=
  match t_m t with
  | MOnion => {| a_eph := TTrue; a_hsdir := false; a_auth := ANone; a_stealth_kw := false; a_key := t_key t;
                 a_ver := t_ver t; a_single := t_single t |}
  | MAuth => {| a_eph := TTrue; a_hsdir := false; a_auth := t_auth t; a_stealth_kw := false; a_key := t_key t;
                a_ver := t_ver t; a_single := TNone |}
  | MFs => {| a_eph := TFalse; a_hsdir := true; a_auth := ANone; a_stealth_kw := false; a_key := KNone;
              a_ver := t_ver t; a_single := TNone |}
  | MFsAuth => {| a_eph := TFalse; a_hsdir := true; a_auth := t_auth t; a_stealth_kw := false; a_key := KNone;
                  a_ver := t_ver t; a_single := TNone |}
  end.

Definition str_ctor (s : str_args) : option ctor_args :=
  let key := match s_keyfile s, s_key s with
             | KFNone, k => Some k
             | _, (KRsa | KEd) => None                 (* both privateKey= and privateKeyFile= *)
             | KFRsa, KNone | KFPem, KNone => Some KRsa
             | KFEd, KNone => Some KEd
             | KFGarbage, KNone => None                (* the file holds no key *)
             end in
  match key with
  | None => None
  | Some k =>
    if s_hsd s && has_key k then None else
    match s_hop s with
    | SHbad => None
    | h =>
      let hop := match h with SHtrue | SH1 | SHTrue => TTrue | _ => TFalse end in
      match s_ver s with
      | SV4 | SVx => None
      | v => Some {| a_eph := TNone; a_hsdir := s_hsd s; a_auth := ANone; a_stealth_kw := false; a_key := k;
                     a_ver := match v with SV2 => V2 | SV3 => V3 | _ => VNone end; a_single := hop |}
      end
    end
  end.

Definition request (r : route) : option req :=
  match r with
  | RCtor a => ctor_req a
  | RTor t => ctor_req (tor_ctor t)
  | RStr s => match str_ctor s with Some a => ctor_req a | None => None end
  end.

Definition valid (c : cfg) : bool := match request (g_route c) with Some _ => true | None => false end.

(* ---- (a) construction ---- *)
Definition check_construct (c : cfg) (r : lrec) : bool :=
  (l_open r =? 0) &&
  if valid c then
    (* constructed; a string request may launch/contact Tor, an implicit directory may be created *)
    existsb (fun e => match e with OConstructed => true | _ => false end) (l_evs r)
    && forallb (fun e => match e with OConstructed | OStartedTor | OMkdtemp | OTrigger => true | _ => false end) (l_evs r)
  else
    match l_evs r with [ORefused] => true | _ => false end.

(* ---- the listen phase: specification state ---- *)
Inductive sphase :=
| SCfg                          (* waiting for the configuration *)
| SCreate (s : Spec.C15.sst)    (* listener bound, command sent: C15's creation is running *)
| SOver (ok : bool).            (* listen() has fired *)

Record lsst := { x_ph : sphase; x_open : bool (* the local listener should be open *); x_lost : bool (* connection lost *) }.

Definition c15cfg : Spec.C15.cfg :=
  {| c_await := false; c_own := 1; c_early := false; c_shared := false; c_progress := true |}.

Definition results (evs : list lobs) : list lres :=
  flat_map (fun e => match e with OResult r => [r] | _ => [] end) evs.
Definition count (p : lobs -> bool) (evs : list lobs) : nat := length (filter p evs).
Definition is_listen e := match e with OListen _ _ _ => true | _ => false end.
Definition is_cmd e := match e with OCmd _ _ => true | _ => false end.
Definition is_stop e := match e with OStopL _ => true | _ => false end.
Definition is_result e := match e with OResult _ => true | _ => false end.
Definition never (p : lobs -> bool) (evs : list lobs) : bool := Nat.eqb (count p evs) 0.
Definition clean (evs : list lobs) : bool :=
  forallb (fun e => match e with OListen _ _ _ | OCmd _ _ | OStopL _ | OResult _ | ONoop | ONoStop => true | _ => false end) evs.

Definition to15 (r : lres) : Spec.C15.result :=
  match r with
  | LOk h p w => ROk (h && p && w)
  | LFail FUploads => RUploadFailed
  | LFail FRejected => RRejected
  | LFail _ => ROther 0
  end.

(* what must happen in the step in which the configuration becomes available *)
Definition check_bind (c : cfg) (evs : list lobs) : bool :=
  if g_bind_ok c then
    match evs with
    | [OListen _ lo true; OCmd _ maps] =>
        lo && (match maps with [(p, l, h)] => (p =? g_pub c) && (l =? g_bound c) && h | _ => false end)
    | _ => false
    end
  else
    match evs with
    | [OListen _ lo false; OResult (LFail FBind)] => lo
    | _ => false
    end.

Definition after_bind (c : cfg) : lsst :=
  if g_bind_ok c then {| x_ph := SCreate Spec.C15.s0; x_open := true; x_lost := false |}
  else {| x_ph := SOver false; x_open := false; x_lost := false |}.

Definition b2N (b : bool) : N := if b then 1 else 0.

(* one failure result of kind k, the listener closed exactly once before it (if it was open) *)
Definition fails_with (k : fkind) (was_open : bool) (evs : list lobs) : bool :=
  match results evs with
  | [LFail k'] => match k, k' with
                  | FConfig, FConfig | FNotConfig, FNotConfig | FBind, FBind | FRejected, FRejected
                  | FUploads, FUploads | FDisconnected, FDisconnected => true
                  | _, _ => false
                  end
  | _ => false
  end
  && Nat.eqb (count is_stop evs) (if was_open then 1 else 0)
  && forallb (fun e => match e with OStopL w => w | _ => true end) evs.

(* s: state before the op.  Returns the state after it, or None if the record is not acceptable *)
Definition lstep (c : cfg) (s : lsst) (o : lop) (r : lrec) : option lsst :=
  let evs := l_evs r in
  if negb (clean evs) then None else
  match x_ph s, o with
  | SCfg, LCfgOk =>
      if check_bind c evs && (l_open r =? b2N (g_bind_ok c)) then Some (after_bind c) else None
  | SCfg, LCfgFail =>
      if fails_with FConfig false evs && never is_listen evs && never is_cmd evs && (l_open r =? 0)
      then Some {| x_ph := SOver false; x_open := false; x_lost := false |} else None
  | SCfg, LCfgWrong =>
      if fails_with FNotConfig false evs && never is_listen evs && never is_cmd evs && (l_open r =? 0)
      then Some {| x_ph := SOver false; x_open := false; x_lost := false |} else None
  | SCreate s15, LDesc o15 =>
      let s15' := Spec.C15.spec_step c15cfg s15 o15 in
      let rs := results evs in
      let ds := map to15 rs in
      if negb (Spec.C15.check_done s15 s15' o15 ds) then None else
      if negb (never is_listen evs && never is_cmd evs) then None else
      match rs with
      | [] => if never is_stop evs && (l_open r =? 1)
              then Some {| x_ph := SCreate s15'; x_open := true; x_lost := false |} else None
      | [LOk h p w] =>
              if h && p && w && never is_stop evs && (l_open r =? 1)
              then Some {| x_ph := SOver true; x_open := true; x_lost := false |} else None
      | [LFail k] =>
              if fails_with k true evs && (l_open r =? 0)
              then Some {| x_ph := SOver false; x_open := false; x_lost := false |} else None
      | _ => None
      end
  | SCreate s15, LDisconnect =>
      (* the wait can no longer be decided: listen() must fail now, and release the listener *)
      if fails_with FDisconnected true evs && never is_listen evs && never is_cmd evs && (l_open r =? 0)
      then Some {| x_ph := SOver false; x_open := false; x_lost := true |} else None
  | SCreate _, LStop =>
      (* listen() has not produced a port yet: there is nothing the user could stop *)
      match evs with [ONoStop] => if l_open r =? 1 then Some s else None | _ => None end
  | SOver ok, LStop =>
      if ok && x_open s then
        match evs with [OStopL true] => if l_open r =? 0 then Some {| x_ph := SOver true; x_open := false; x_lost := x_lost s |} else None
                  | _ => None end
      else match evs with [ONoStop] => if l_open r =? b2N (x_open s) then Some s else None | _ => None end
  | SOver ok, (LDesc _ | LDisconnect) =>
      (* after listen() has fired nothing more happens to the listener *)
      if forallb (fun e => match e with ONoop => true | _ => false end) evs && (l_open r =? b2N (x_open s))
      then Some s else None
  | _, _ => None       (* outside the envelope (see wf) *)
  end.

Fixpoint lgo (c : cfg) (s : lsst) (ops : list lop) (tr : list lrec) : bool :=
  match ops, tr with
  | [], [] => true
  | o :: ops', r :: tr' => match lstep c s o r with Some s' => lgo c s' ops' tr' | None => false end
  | _, _ => false
  end.

(* the call of listen() itself *)
Definition check_listen_call (c : cfg) (r : lrec) : option lsst :=
  if negb (clean (l_evs r)) then None else
  if g_pending c then
    match l_evs r with [] => if l_open r =? 0 then Some {| x_ph := SCfg; x_open := false; x_lost := false |} else None
                  | _ => None end
  else if check_bind c (l_evs r) && (l_open r =? b2N (g_bind_ok c)) then Some (after_bind c) else None.

Definition oracle (c : cfg) (ops : list lop) (tr : list lrec) : bool :=
  match tr with
  | [] => false
  | r0 :: tr' =>
      check_construct c r0 &&
      if valid c then
        match tr' with
        | [] => false
        | r1 :: tr'' => match check_listen_call c r1 with Some s => lgo c s ops tr'' | None => false end
        end
      else is_nil tr'
  end.

(* ---- the envelope of scripts: [cfg op, iff pending] ++ creation ops ++ [Stop]?; the command is
        answered at most once, events of the service come after the reply (C15-F2 is C15's business), no
        UPLOADED of another service for an attempted directory (C15-F1), nothing after a rejection or
        a disconnect except Stop; where Tor has no such service type the command is not accepted ---- *)
Fixpoint wf_body (answered : bool) (ops : list lop) : bool :=
  match ops with
  | [] => true
  | [LStop] => true
  | LDesc (Ev k a d) :: r => (answered || negb (a =? 1)) && wf_body answered r
  | LDesc Reply :: r => negb answered && wf_body true r
  | LDesc Reject :: r => negb answered && (match r with [] | [LStop] => true | _ => false end)
  | LDisconnect :: r => (match r with [] | [LStop] => true | _ => false end)
  | _ => false
  end.

Definition desc_ops (ops : list lop) : list Spec.C15.op :=
  flat_map (fun o => match o with LDesc d => [d] | _ => [] end) ops.

(* Tor has no authenticated v3 / ED25519 services of this kind: it rejects the creating command *)
Definition tor_rejects (c : cfg) : bool :=
  match request (g_route c) with
  | Some q => negb (match q_auth q with ANone => true | _ => false end)
              && ((match q_ver q with V3 => true | _ => false end) || (match q_key q with KEd => true | _ => false end))
  | None => false
  end.

Definition wf (c : cfg) (ops : list lop) : bool :=
  negb (tor_rejects c && existsb (fun o => match o with LDesc Reply => true | _ => false end) ops) &&
  (if g_pending c then
     match ops with
     | LCfgOk :: r => wf_body false r
     | [LCfgFail] | [LCfgWrong] => true
     | [] => true
     | _ => false
     end
   else wf_body false ops)
  && negb (Spec.C15.foreign_uploaded_shared_dir c15cfg (desc_ops ops)).

(* ---- single clauses, stated on their own (used by the theorems of Properties/C17.v) ---- *)
Definition has_failure (evs : list lobs) : bool :=
  existsb (fun e => match e with OResult (LFail _) => true | _ => false end) evs.

(* "... listen fails with that error and leaves no local listener open": from the record in which
   listen() fails on, no local listener is open *)
Fixpoint no_leak (failed : bool) (tr : list lrec) : bool :=
  match tr with
  | [] => true
  | r :: tr' => let f := failed || has_failure (l_evs r) in
                (negb f || (l_open r =? 0)) && no_leak f tr'
  end.

(* "binds a local listener on the loopback interface only, asks Tor to forward the public port to
   exactly that local port": over the whole trace at most one bind, on 127.0.0.1; at most one creating
   command, after a successful bind, with exactly the mapping public -> 127.0.0.1:bound *)
Definition good_obs (c : cfg) (bound_ok : bool) (e : lobs) : bool :=
  match e with
  | OListen _ lo _ => lo
  | OCmd _ maps => bound_ok && (match maps with [(p, l, h)] => (p =? g_pub c) && (l =? g_bound c) && h | _ => false end)
  | _ => true
  end.

Fixpoint loopback_and_mapping_evs (c : cfg) (nl nc : nat) (bound_ok : bool) (evs : list lobs) : (nat * nat * bool) * bool :=
  match evs with
  | [] => ((nl, nc, bound_ok), true)
  | e :: evs' =>
      let nl' := match e with OListen _ _ _ => S nl | _ => nl end in
      let nc' := match e with OCmd _ _ => S nc | _ => nc end in
      let b' := match e with OListen _ _ ok => ok | _ => bound_ok end in
      let '(st, okr) := loopback_and_mapping_evs c nl' nc' b' evs' in
      (st, good_obs c bound_ok e && Nat.leb nl' 1 && Nat.leb nc' 1 && okr)
  end.

Fixpoint loopback_and_mapping (c : cfg) (nl nc : nat) (bound_ok : bool) (tr : list lrec) : bool :=
  match tr with
  | [] => true
  | r :: tr' => let '((nl', nc', b'), ok) := loopback_and_mapping_evs c nl nc bound_ok (l_evs r) in
                ok && loopback_and_mapping c nl' nc' b' tr'
  end.

(* ---- input classes of the open findings ---- *)
(* C17-F5: the requested HiddenServiceDir is already in the configuration: listen() binds a fresh local port and
   tells Tor nothing, so the public port keeps being forwarded to the old local port *)
Definition directory_already_configured (c : cfg) : bool :=
  match request (g_route c) with
  | Some q => negb (q_eph q) && q_hsdir q && g_same_dir c
  | None => false
  end.

(* C17-F4: stealth authentication with several clients: Tor assigns one hostname per client and the
   address of the port reports none of them *)
Definition stealth_several_clients (c : cfg) : bool :=
  match request (g_route c) with
  | Some q => (match q_auth q with AStealth => true | _ => false end) && g_two_clients c
  | None => false
  end.

(* C17-F3: the control connection is lost while waiting for the descriptor upload *)
Fixpoint disconnect_while_waiting_from (answered : bool) (ops : list lop) : bool :=
  match ops with
  | [] => false
  | LDesc Reply :: r => disconnect_while_waiting_from true r
  | LDisconnect :: r => answered || disconnect_while_waiting_from answered r
  | _ :: r => disconnect_while_waiting_from answered r
  end.
Definition disconnect_while_waiting (c : cfg) (ops : list lop) : bool := disconnect_while_waiting_from false ops.

(* ---- equality of traces ---- *)
Definition fkind_eqb (a b : fkind) : bool :=
  match a, b with
  | FConfig, FConfig | FNotConfig, FNotConfig | FBind, FBind | FRejected, FRejected | FUploads, FUploads
  | FDisconnected, FDisconnected | FValue, FValue => true
  | FOther x, FOther y => x =? y
  | _, _ => false
  end.

Definition lres_eqb (a b : lres) : bool :=
  match a, b with
  | LOk a1 a2 a3, LOk b1 b2 b3 => Bool.eqb a1 b1 && Bool.eqb a2 b2 && Bool.eqb a3 b3
  | LFail x, LFail y => fkind_eqb x y
  | _, _ => false
  end.

Fixpoint maps_eqb (a b : list (N * N * bool)) : bool :=
  match a, b with
  | [], [] => true
  | (p, l, h) :: a', (p', l', h') :: b' => (p =? p') && (l =? l') && Bool.eqb h h' && maps_eqb a' b'
  | _, _ => false
  end.

Definition lobs_eqb (a b : lobs) : bool :=
  match a, b with
  | ORefused, ORefused | OConstructed, OConstructed | OStartedTor, OStartedTor | OMkdtemp, OMkdtemp
  | OTrigger, OTrigger | ONoop, ONoop | ONoStop, ONoStop => true
  | OListen a1 a2 a3, OListen b1 b2 b3 => Bool.eqb a1 b1 && Bool.eqb a2 b2 && Bool.eqb a3 b3
  | OCmd x m, OCmd y m' => Bool.eqb x y && maps_eqb m m'
  | OStopL x, OStopL y => Bool.eqb x y
  | OResult x, OResult y => lres_eqb x y
  | OOtherL x, OOtherL y => x =? y
  | _, _ => false
  end.

Fixpoint lobs_list_eqb (a b : list lobs) : bool :=
  match a, b with
  | [], [] => true
  | x :: a', y :: b' => lobs_eqb x y && lobs_list_eqb a' b'
  | _, _ => false
  end.

Fixpoint ltrace_eqb (a b : list lrec) : bool :=
  match a, b with
  | [], [] => true
  | x :: a', y :: b' => lobs_list_eqb (l_evs x) (l_evs y) && (l_open x =? l_open y) && ltrace_eqb a' b'
  | _, _ => false
  end.
