(* C15: onion creation completes only on this service's confirmed descriptor upload.

   Written from the property text and control-spec 4.1.25 (HS_DESC: "UPLOAD" = an upload to HsDir was
   started, "UPLOADED" = it succeeded, "FAILED" = it failed; each carries the service address).
   Independent of Model/ and Gen/.

   Reading of the text fixed here (see notes/C15.md):
   * an "attempted upload" is identified with its directory: for the service's OWN events (address =
     the service's address; whether or not the creating command has been answered yet)
         A = directories with an UPLOAD,  S = with an UPLOADED,  F = with a FAILED   (sets, growing)
   * the wait is decided at the FIRST moment at which
         okc   = S <> {} /\ (not await-all \/ A <= S u F)     "a successful upload / every attempted
                                                               upload succeeded or failed, one success"
      or failc = A <> {} /\ A <= F                            "every attempted upload failed"
     holds; if both hold at that moment the text gives both outcomes and either is accepted;
   * creation completes when both the creating command has been answered and the wait is decided
     (at the later of the two), exactly once; a rejected command fails creation at once;
   * from the op at which creation completed or failed on, the service's HS_DESC listener is gone
     (and, if it was the only one, HS_DESC is no longer among the subscribed events);
   * events of another service never complete or fail it (no completion, no unsubscription in the
     op of a foreign event);
   * exactness of the completion point (liveness) is demanded on protocol-conformant histories: every
     own UPLOADED/FAILED names a directory with an earlier own UPLOAD (control-spec: UPLOAD is emitted
     when the upload starts).  On the other orderings only the safety half is judged (at most once; Ok
     only after the reply and after some moment satisfying okc; Fail only after ... failc). *)
From Coq Require Import List Bool Arith NArith Lia.
From TxVerif Require Import Lib.ListSet.
Import ListNotations.
Open Scope N_scope.

Inductive kind := KUpload | KUploaded | KFailed.

Inductive op :=
| Ev (k : kind) (addr dir : N)     (* 650 HS_DESC <k> <addr> UNKNOWN <dir> ... *)
| Reply                            (* the creating command (ADD_ONION / SETCONF) is accepted *)
| Reject.                          (* ... is rejected with a 5xx *)

Record cfg := {
  c_await : bool;       (* await_all_uploads *)
  c_own : N;            (* the address Tor assigns to this service *)
  c_early : bool;       (* the service knows its address before the reply (existing HiddenServiceDir) *)
  c_shared : bool;      (* somebody else also listens for HS_DESC on this connection *)
  c_progress : bool     (* a progress callback was given *)
}.

Inductive result :=
| ROk (host_ok : bool)    (* create() fired with a service object; host_ok: its hostname is the assigned one *)
| RUploadFailed           (* create() failed with the "Failed to upload" error *)
| RRejected               (* create() failed with Tor's error reply *)
| ROther (k : N).         (* anything else *)

Inductive obs :=
| OSetEvents (hs : bool)          (* a SETEVENTS line was written; hs: it contains HS_DESC *)
| OCreateCmd (installed : bool)   (* the creating command was written; installed: our listener was registered then *)
| OProgress (num den : N)         (* progress callback value num/den *)
| ODone (r : result)              (* the create() Deferred fired *)
| OLine (k : N).                  (* any other line written (unexpected) *)

(* one record per op: what happened during it, then a snapshot of the subscription *)
Record rec := { r_evs : list obs; r_ncb : N (* the service's callbacks on HS_DESC *); r_inev : bool (* HS_DESC in protocol.events *) }.

(* ---- the specification state: the service's own events only ---- *)
Record sst := {
  sA : list N; sS : list N; sF : list N;
  s_conf : bool;                  (* conformant so far *)
  s_dec : option (bool * bool);   (* outcomes allowed, fixed at the first deciding moment: (ok, fail) *)
  s_okm : bool; s_failm : bool;   (* some moment so far satisfied okc / failc *)
  s_rep : option bool;            (* the creating command was answered: Some true accepted, Some false rejected *)
  s_done : bool                   (* creation has completed or failed *)
}.

Definition s0 : sst :=
  {| sA := []; sS := []; sF := []; s_conf := true; s_dec := None; s_okm := false; s_failm := false;
     s_rep := None; s_done := false |}.

Definition covered (A S F : list N) : bool := forallb (fun x => smem x S || smem x F) A.

Definition okc (aw : bool) (A S F : list N) : bool := snonempty S && (negb aw || covered A S F).
Definition failc (A F : list N) : bool := snonempty A && ssub A F.

Definition is_own (c : cfg) (a : N) : bool := a =? c_own c.

Definition spec_ev (c : cfg) (s : sst) (k : kind) (d : N) : sst :=
  let A' := match k with KUpload => sadd d (sA s) | _ => sA s end in
  let S' := match k with KUploaded => sadd d (sS s) | _ => sS s end in
  let F' := match k with KFailed => sadd d (sF s) | _ => sF s end in
  let cf := match k with KUpload => s_conf s | _ => s_conf s && smem d (sA s) end in
  let o := okc (c_await c) A' S' F' in
  let f := failc A' F' in
  {| sA := A'; sS := S'; sF := F'; s_conf := cf;
     s_dec := match s_dec s with Some x => Some x | None => if o || f then Some (o, f) else None end;
     s_okm := s_okm s || o; s_failm := s_failm s || f;
     s_rep := s_rep s; s_done := s_done s |}.

Definition set_rep (s : sst) (b : bool) : sst :=
  {| sA := sA s; sS := sS s; sF := sF s; s_conf := s_conf s; s_dec := s_dec s; s_okm := s_okm s;
     s_failm := s_failm s; s_rep := match s_rep s with None => Some b | x => x end; s_done := s_done s |}.

Definition set_done (s : sst) (b : bool) : sst :=
  {| sA := sA s; sS := sS s; sF := sF s; s_conf := s_conf s; s_dec := s_dec s; s_okm := s_okm s;
     s_failm := s_failm s; s_rep := s_rep s; s_done := b |}.

Definition spec_step (c : cfg) (s : sst) (o : op) : sst :=
  match o with
  | Ev k a d => if is_own c a then spec_ev c s k d else s
  | Reply => set_rep s true
  | Reject => set_rep s false
  end.

(* ---- judging one op ---- *)
Definition dones (evs : list obs) : list result :=
  flat_map (fun o => match o with ODone r => [r] | _ => [] end) evs.

Definition is_nil {A} (l : list A) : bool := match l with [] => true | _ => false end.
Definition accepted (s : sst) : bool := match s_rep s with Some true => true | _ => false end.

Definition allowed (dec : bool * bool) (r : result) : bool :=
  match r with ROk h => fst dec && h | RUploadFailed => snd dec | _ => false end.

Definition safe_done (s' : sst) (r : result) : bool :=
  match r with
  | ROk h => h && accepted s' && s_okm s'
  | RUploadFailed => accepted s' && s_failm s'
  | _ => false
  end.

(* s: before the op, s': after it *)
Definition check_done (s s' : sst) (o : op) (ds : list result) : bool :=
  if s_done s then is_nil ds else
  match o with
  | Reject => match ds with [RRejected] => true | _ => false end
  | _ =>
    if s_conf s' then
      match accepted s', s_dec s' with
      | true, Some dec => match ds with [r] => allowed dec r | _ => false end
      | _, _ => is_nil ds
      end
    else match ds with [] => true | [r] => safe_done s' r | _ => false end
  end.

Definition foreign_quiet (c : cfg) (o : op) (evs : list obs) : bool :=
  match o with
  | Ev _ a _ => is_own c a || forallb (fun e => match e with ODone _ | OSetEvents _ => false | _ => true end) evs
  | _ => true
  end.

Definition tidy (evs : list obs) : bool :=
  forallb (fun e => match e with OCreateCmd _ | OLine _ => false | _ => true end) evs.

Definition unsub_ok (c : cfg) (done : bool) (r : rec) : bool :=
  negb done || ((r_ncb r =? 0) && (c_shared c || negb (r_inev r))).

Definition done_after (s : sst) (ds : list result) : bool := s_done s || negb (is_nil ds).

Definition check_op (c : cfg) (s : sst) (o : op) (r : rec) : bool :=
  let s' := spec_step c s o in
  let ds := dones (r_evs r) in
  check_done s s' o ds && foreign_quiet c o (r_evs r) && tidy (r_evs r)
  && unsub_ok c (done_after s ds) r.

Fixpoint go (c : cfg) (s : sst) (ops : list op) (tr : list rec) : bool :=
  match ops, tr with
  | [], [] => true
  | o :: ops', r :: tr' =>
      check_op c s o r
      && go c (set_done (spec_step c s o) (done_after s (dones (r_evs r)))) ops' tr'
  | _, _ => false
  end.

(* the first record is the call of create(): the creating command is written exactly once, with the
   listener already installed; nothing completes *)
Definition n_create (evs : list obs) : nat :=
  length (filter (fun e => match e with OCreateCmd _ => true | _ => false end) evs).

Definition check_start (r : rec) : bool :=
  Nat.eqb (n_create (r_evs r)) 1
  && forallb (fun e => match e with OCreateCmd i => i | ODone _ | OLine _ => false | _ => true end) (r_evs r).

Definition oracle (c : cfg) (ops : list op) (tr : list rec) : bool :=
  match tr with
  | [] => false
  | r0 :: tr' => check_start r0 && go c s0 ops tr'
  end.

(* ---- single clauses, stated on their own (used by the theorems of Properties/C15.v) ---- *)
(* "afterwards its event subscription is removed": from the record in which create() fires on *)
Fixpoint unsub_all (c : cfg) (done : bool) (tr : list rec) : bool :=
  match tr with
  | [] => true
  | r :: tr' => let done' := done || negb (is_nil (dones (r_evs r))) in
                unsub_ok c done' r && unsub_all c done' tr'
  end.

(* "completes only after Tor reports a successful upload for that service" (and after the reply) *)
Fixpoint ok_only_after (c : cfg) (s : sst) (ops : list op) (tr : list rec) : bool :=
  match ops, tr with
  | o :: ops', r :: tr' =>
      let s' := spec_step c s o in
      forallb (fun d => match d with ROk _ => accepted s' && snonempty (sS s') | _ => true end) (dones (r_evs r))
      && ok_only_after c s' ops' tr'
  | _, _ => true
  end.

(* "upload events that belong to other services never complete or fail it": deleting them from the
   history deletes their (empty) records from the trace and changes nothing else *)
Definition keeps (c : cfg) (o : op) : bool := match o with Ev _ a _ => is_own c a | _ => true end.

Fixpoint own_part (c : cfg) (ops : list op) (tr : list rec) : list rec :=
  match ops, tr with
  | o :: ops', r :: tr' => if keeps c o then r :: own_part c ops' tr' else own_part c ops' tr'
  | _, _ => []
  end.

Fixpoint foreign_silent (c : cfg) (ops : list op) (tr : list rec) : bool :=
  match ops, tr with
  | o :: ops', r :: tr' => (keeps c o || is_nil (r_evs r)) && foreign_silent c ops' tr'
  | _, _ => true
  end.

(* the envelope: the creating command is answered at most once *)
Definition is_answer (o : op) : bool := match o with Ev _ _ _ => false | _ => true end.
Definition wf (ops : list op) : bool := Nat.leb (length (filter is_answer ops)) 1.

(* ---- input classes of the open findings (mirrored in harness/drive_C15.py) ---- *)
Section Findings.
  Variable c : cfg.

  (* C15-F1 (D15a): UPLOADED of ANOTHER service for a directory this service has attempted *)
  Definition bad_a (s : sst) (o : op) : bool :=
    match o with Ev KUploaded a d => negb (is_own c a) && smem d (sA s) | _ => false end.

  (* C15-F2 (D15d): an own event while the service does not know its address yet *)
  Definition bad_d (s : sst) (o : op) : bool :=
    match o with Ev _ a _ => is_own c a && negb (c_early c) && negb (accepted s) | _ => false end.

  Fixpoint any_bad (bad : sst -> op -> bool) (s : sst) (ops : list op) : bool :=
    match ops with
    | [] => false
    | o :: r => bad s o || any_bad bad (spec_step c s o) r
    end.
End Findings.

Definition foreign_uploaded_shared_dir (c : cfg) (ops : list op) : bool := any_bad c (bad_a c) s0 ops.
Definition own_event_before_reply (c : cfg) (ops : list op) : bool := any_bad c (bad_d c) s0 ops.

(* ---- directory NAMES.  control-spec 4.1.25: HsDir = LongName / Fingerprint, i.e. Tor names a directory
        "$FINGERPRINT~nickname" or just "$FINGERPRINT" (the long form when it knows the relay's descriptor, which can
        change between two events).  The directory is the relay, i.e. the fingerprint.  In a history as it is
        fed to the implementation the third component of Ev is a NAME: name 2i = the fingerprint-only form
        of directory i, name 2i+1 = its long form.  Everything above speaks about directories; a named
        history is judged after replacing every name by its directory. ---- *)
Definition dir_id (name : N) : N := N.div2 name.
Definition canon_op (o : op) : op := match o with Ev k a d => Ev k a (dir_id d) | x => x end.
Definition canon (ops : list op) : list op := map canon_op ops.

Definition oracle_named (c : cfg) (ops : list op) (tr : list rec) : bool := oracle c (canon ops) tr.

Definition names_of (ops : list op) : list N :=
  flat_map (fun o => match o with Ev _ _ d => [d] | _ => [] end) ops.

(* ---- equality of traces (progress values compared as fractions) ---- *)
Definition result_eqb (a b : result) : bool :=
  match a, b with
  | ROk x, ROk y => Bool.eqb x y
  | RUploadFailed, RUploadFailed | RRejected, RRejected => true
  | ROther x, ROther y => x =? y
  | _, _ => false
  end.

Definition obs_eqb (a b : obs) : bool :=
  match a, b with
  | OSetEvents x, OSetEvents y | OCreateCmd x, OCreateCmd y => Bool.eqb x y
  | OProgress n d, OProgress n' d' => (n * d' =? n' * d) && negb (d =? 0) && negb (d' =? 0)
  | ODone x, ODone y => result_eqb x y
  | OLine x, OLine y => x =? y
  | _, _ => false
  end.

Fixpoint obs_list_eqb (a b : list obs) : bool :=
  match a, b with
  | [], [] => true
  | x :: a', y :: b' => obs_eqb x y && obs_list_eqb a' b'
  | _, _ => false
  end.

Definition rec_eqb (a b : rec) : bool :=
  obs_list_eqb (r_evs a) (r_evs b) && (r_ncb a =? r_ncb b) && Bool.eqb (r_inev a) (r_inev b).

Fixpoint trace_eqb (a b : list rec) : bool :=
  match a, b with
  | [], [] => true
  | x :: a', y :: b' => rec_eqb x y && trace_eqb a' b'
  | _, _ => false
  end.
