(* The reference semantics of a TorConfig history, shared by C10 and C11, written from the
   property texts:

     state  = Tor's configuration store  +  the changes made since the last acknowledged save
              (per option, its intended value: a validated scalar, or a list of elements);
     Assign replaces the intended value by the validated value; an in-place list operation edits
     the option's current intended value (the pending one if there is one, otherwise what a read
     returns: Tor's value, or the default when unset) with Python's list semantics; an operation
     that raises changes nothing;
     Save with nothing pending writes nothing; otherwise it writes exactly one SETCONF whose
     entries for each pending option are exactly the intended value (scalar once; list once per
     element in order; empty list = one clearing entry) and that names no other option;
     acknowledged -> the store takes the entries, nothing is pending; rejected -> nothing changes;
     CONF_CHANGED replaces the store's values of the options it names;
     Copy (config.A = config.B for two list options, B without a pending change) is the assignment
     to A of the list a read of B returns; A and B stay independent options: later edits of one are
     changes of that one only;
     a read of an option with nothing pending returns the store's value parsed by the declared type.

   spec_next is the state transformer (it never looks at observations); spec_check judges the
   observation of one operation.  Independent of Model/ and Gen/. *)
From Coq Require Import String.
From Coq Require Import List Bool Ascii Arith NArith ZArith Lia.
From TxVerif Require Import Lib.Bytes Lib.CfgLib Spec.CfgTypes Spec.TorStore.
Import ListNotations.
Open Scope N_scope.

Inductive ival := IScalar (s : bytes) | IList (l : list atom).

Record ost := { s_store : store; s_pend : list (bytes * ival) }.

Section WithTable.
  Variable opts : list (bytes * kind).
  Variable defaults : option (list (bytes * bytes)).

  (* ---- validation: the value an assignment makes pending; None = must be refused ---- *)
  Definition int_of_atom (a : atom) : option Z :=
    match a with
    | AInt z => Some z
    | ABool b => Some (if b then 1%Z else 0%Z)
    | AStr s => parse_int s
    | AFloat _ => None
    end.

  Definition spec_validate (k : kind) (v : pyval) : option ival :=
    match k, v with
    | KBool, PAtom (ABool b) => Some (IScalar [ch (if b then 49 else 48)])
    | KBool, PAtom (AInt z) => Some (IScalar [ch (if Z.eqb z 0 then 48 else 49)])
    | KBoolAuto, PAtom a =>
        match int_of_atom a with
        | Some z => Some (IScalar (if (z <? 0)%Z then auto_word else if Z.eqb z 0 then [ch 48] else [ch 49]))
        | None => None
        end
    | KInt, PAtom a => option_map (fun z => IScalar (dec_of_Z z)) (int_of_atom a)
    | KFloat, PAtom (AFloat t) => match float_canon t with Some _ => Some (IScalar t) | None => None end
    | KFloat, PAtom (AStr s) => match float_canon s with Some _ => Some (IScalar s) | None => None end
    | KFloat, PAtom (AInt z) => match float_canon (dec_of_Z z) with Some _ => Some (IScalar (dec_of_Z z)) | None => None end
    | KStr, PAtom (AStr s) => Some (IScalar s)
    | KComma, PAtom (AStr s) => Some (IScalar s)
    | KComma, PList l => Some (IList l)
    | KLine, PList l => Some (IList l)
    | KPorts, PList l => Some (IList l)
    | _, _ => None
    end.

  (* ---- the current intended list of a list option ---- *)
  Definition view_list (st : ost) (cn : bytes) (k : kind) : list atom :=
    match typed_value k (store_get (s_store st) cn) (default_lines defaults cn) with
    | Some (RList _ els) => map AStr els
    | _ => []
    end.

  Definition cur_list (st : ost) (cn : bytes) (k : kind) : list atom :=
    match dget cn (s_pend st) with
    | Some (IList l) => l
    | Some (IScalar s) => map AStr (split_comma s)
    | None => view_list st cn k
    end.

  (* ---- what a pending value looks like on the wire ---- *)
  Definition entries_for (iv : ival) : list (option bytes) :=
    match iv with
    | IScalar s => [Some s]
    | IList [] => [None]
    | IList l => map (fun a => Some (atom_text a)) l
    end.

  Definition entry_val_eqb (expected got : option bytes) : bool :=
    match expected, got with
    | None, None | None, Some [] => true      (* "Key" and "Key=" both clear the option *)
    | Some a, Some b => beqb a b
    | _, _ => false
    end.

  Definition entries_match (pend : list (bytes * ival)) (es : list entry) : bool :=
    forallb (fun p : bytes * ival =>
               list_eqb entry_val_eqb (entries_for (snd p))
                        (map snd (filter (fun e : entry => ci_eqb (fst e) (fst p)) es))) pend
    && forallb (fun e : entry => existsb (fun p : bytes * ival => ci_eqb (fst e) (fst p)) pend) es.

  (* the store after Tor has accepted the pending changes *)
  Definition pend_entries (pend : list (bytes * ival)) : list entry :=
    concat (map (fun p : bytes * ival => map (fun v => (fst p, v)) (entries_for (snd p))) pend).

  Definition event_entries (items : list (bytes * option bytes)) : list entry := items.

  (* ---- the state transformer ---- *)
  (* [flight]: what an OpSaveDuring does (defined below from the other cases) *)
  Definition spec_next_gen (flight : ost -> option N -> list dop -> ost) (st : ost) (o : op) : ost :=
    match o with
    | OpAssign name v =>
        match dfind_ci name opts with
        | Some (cn, k) =>
            match spec_validate k v with
            | Some iv => {| s_store := s_store st; s_pend := dset cn iv (s_pend st) |}
            | None => st
            end
        | None => st
        end
    | OpListOp name lo =>
        match dfind_ci name opts with
        | Some (cn, k) =>
            match py_list_op lo (cur_list st cn k) with
            | inl l' => {| s_store := s_store st; s_pend := dset cn (IList l') (s_pend st) |}
            | inr _ => st
            end
        | None => st
        end
    | OpSave None =>
        {| s_store := apply_entries opts (s_store st) (pend_entries (s_pend st)); s_pend := [] |}
    | OpSave (Some _) => st
    | OpEvent items =>
        {| s_store := apply_entries opts (s_store st) (event_entries items); s_pend := s_pend st |}
    | OpCopy dst src =>
        match dfind_ci dst opts, dfind_ci src opts with
        | Some (cd, kd), Some (cs, ks) =>
            {| s_store := s_store st; s_pend := dset cd (IList (cur_list st cs ks)) (s_pend st) |}
        | _, _ => st
        end
    | OpRead _ | OpNeedsSave | OpSocks => st
    | OpSaveDuring rej ds => flight st rej ds
    end.

  (* ---- a save() whose SETCONF is not answered yet ----
     save() sends what is pending at that moment (its snapshot).  What is changed afterwards is not
     part of that SETCONF: when Tor acknowledges it, Tor holds the snapshot, and exactly the options
     whose intended value still IS the acknowledged one stop being pending; a change made after the
     save was sent stays pending and is sent by the next save.  A rejected answer changes nothing.
     A save() called while another is unanswered sends everything pending at that moment, after the
     earlier one is answered (the control connection carries one command at a time). *)
  Definition spec_base : ost -> op -> ost := spec_next_gen (fun st _ _ => st).

  Definition ival_eqb (a b : ival) : bool :=
    match a, b with
    | IScalar x, IScalar y => beqb x y
    | IList x, IList y => list_eqb atom_eqb x y
    | _, _ => false
    end.

  Definition flight_send (st : ost) (q : list (list (bytes * ival))) : list (list (bytes * ival)) :=
    match s_pend st with [] => q | p => q ++ [p] end.

  Definition dop_next (sq : ost * list (list (bytes * ival))) (d : dop) : ost * list (list (bytes * ival)) :=
    match op_of_dop d with
    | Some o => (spec_base (fst sq) o, snd sq)
    | None => (fst sq, flight_send (fst sq) (snd sq))
    end.

  Definition prune (pend snap : list (bytes * ival)) : list (bytes * ival) :=
    filter (fun p : bytes * ival =>
              negb (match dget (fst p) snap with Some iv => ival_eqb iv (snd p) | None => false end)) pend.

  Definition answer (rej : option N) (st : ost) (snap : list (bytes * ival)) : ost :=
    match rej with
    | None => {| s_store := apply_entries opts (s_store st) (pend_entries snap); s_pend := prune (s_pend st) snap |}
    | Some _ => st
    end.

  Definition flight_run (st : ost) (ds : list dop) : ost * list (list (bytes * ival)) :=
    fold_left dop_next ds (st, flight_send st []).

  Definition flight_next (st : ost) (rej : option N) (ds : list dop) : ost :=
    fold_left (answer rej) (snd (flight_run st ds)) (fst (flight_run st ds)).

  Definition spec_next : ost -> op -> ost := spec_next_gen flight_next.

  (* Outside the envelope: an option is ASSIGNED again while a save() that carries it is unanswered, and
     when that save is acknowledged its intended value equals the acknowledged one (assigned the same value
     again, or changed and changed back).  Is that "a change made since the save"?  The property does not
     say; the oracle (prune: compare values) would say no.  [ras]: per unanswered save, the options
     assigned since it was sent. *)
  Fixpoint flight_ras (sq : ost * list (list (bytes * ival))) (ras : list (list bytes)) (ds : list dop) : list (list bytes) :=
    match ds with
    | [] => ras
    | d :: ds' =>
        let ras1 :=
          match d with
          | DAssign name v =>
              match dfind_ci name opts with
              | Some (cn, k) => match spec_validate k v with Some _ => map (cons cn) ras | None => ras end
              | None => ras
              end
          | DSave => match s_pend (fst sq) with [] => ras | _ => ras ++ [[]] end
          | _ => ras
          end in
        flight_ras (dop_next sq d) ras1 ds'
    end.

  Fixpoint ambiguous_acks (pend : list (bytes * ival)) (q : list (list (bytes * ival))) (ras : list (list bytes)) : bool :=
    match q, ras with
    | snap :: q', ra :: ras' =>
        existsb (fun cn => match dget cn snap, dget cn pend with
                           | Some a, Some b => ival_eqb a b
                           | _, _ => false
                           end) ra
        || ambiguous_acks (prune pend snap) q' ras'
    | _, _ => false
    end.

  Definition flight_ambiguous (st : ost) (ds : list dop) : bool :=
    let q0 := flight_send st [] in
    ambiguous_acks (s_pend (fst (flight_run st ds))) (snd (flight_run st ds))
                   (flight_ras (st, q0) (map (fun _ => []) q0) ds).

  (* ---- judging observations ---- *)
  Definition read_ok (st : ost) (name : bytes) (r : rres) : bool :=
    match dfind_ci name opts with
    | None => false
    | Some (cn, k) =>
        if dmem cn (s_pend st) then (match r with RGot _ => true | RExc _ => false end)
        else match r, typed_read opts defaults (s_store st) name with
             | RGot v, Some e => rval_eqb v e
             | _, _ => false
             end
    end.

  Fixpoint snap_ok (st : ost) (os : list (bytes * kind)) (snap : list rres) : bool :=
    match os, snap with
    | [], [] => true
    | (cn, _) :: os', r :: snap' => read_ok st cn r && snap_ok st os' snap'
    | _, _ => false
    end.

  Definition is_nil {A} (l : list A) : bool := match l with [] => true | _ => false end.

  (* first token of a SocksPort line -> the endpoint a client should connect to *)
  Definition first_token (b : bytes) : bytes :=
    match split_on SP b with t :: _ => t | [] => [] end.
  Definition unix_prefix : bytes := bs "unix:".
  Definition localhost : bytes := bs "127.0.0.1".
  Definition socks_expect (line : bytes) : option sockres :=
    if prefixb unix_prefix line then Some (SockUnix (skipn 5 (first_token line)))
    else
      let t := first_token line in
      match split_on COLON t with
      | [p] => option_map (fun n => SockTcp localhost n) (parse_nat p)
      | [h; p] => option_map (fun n => SockTcp h n) (parse_nat p)
      | _ => None
      end.

  (* the entry a client should use: the first one that names a listener ("0" = SOCKS disabled;
     a line whose port is not a number, e.g. "auto", cannot be connected to) *)
  Fixpoint first_usable (lines : list atom) : option sockres :=
    match lines with
    | [] => None
    | AStr line :: rest =>
        if beqb (first_token line) [ch 48] then first_usable rest
        else match socks_expect line with
             | Some e => Some e
             | None => first_usable rest
             end
    | _ :: rest => first_usable rest
    end.

  Definition SocksPort_name : bytes := bs "SocksPort".

  (* [st] is the state BEFORE the operation *)
  Definition spec_check_gen (flightc : ost -> option N -> list dop -> obs -> bool) (st : ost) (o : op) (ob : obs) : bool :=
    let st' := spec_next st o in
    match o with
    | OpAssign name v =>
        is_nil (o_wrote ob) &&
        match dfind_ci name opts with
        | Some (cn, k) =>
            match spec_validate k v, o_res ob with
            | Some _, XOk => true
            | None, XRaised _ => true
            | _, _ => false
            end
        | None => false
        end
    | OpListOp name lo =>
        is_nil (o_wrote ob) &&
        match dfind_ci name opts with
        | Some (cn, k) =>
            match py_list_op lo (cur_list st cn k), o_res ob with
            | inl _, XOk => true
            | inr _, XRaised _ => true
            | _, _ => false
            end
        | None => false
        end
    | OpRead name =>
        is_nil (o_wrote ob) &&
        match o_res ob with
        | XVal v => read_ok st name (RGot v)
        | _ => false
        end
    | OpNeedsSave =>
        is_nil (o_wrote ob) &&
        match o_res ob with
        | XBool b => Bool.eqb b (negb (is_nil (s_pend st)))
        | _ => false
        end
    | OpSave rej =>
        match s_pend st with
        | [] =>
            is_nil (o_wrote ob) &&
            match o_res ob with
            | XSaved SOk false snap => snap_ok st opts snap
            | _ => false
            end
        | pend =>
            match o_wrote ob with
            | [line] =>
                match parse_setconf line with
                | Some es =>
                    entries_match pend es &&
                    match rej, o_res ob with
                    | None, XSaved SOk false snap => snap_ok st' opts snap
                    | Some c, XSaved (SFail c') true snap => (c =? c') && snap_ok st' opts snap
                    | _, _ => false
                    end
                | None => false
                end
            | _ => false
            end
        end
    | OpEvent items =>
        is_nil (o_wrote ob) &&
        match o_res ob with
        | XEvent ns snap => Bool.eqb ns (negb (is_nil (s_pend st))) && snap_ok st' opts snap
        | _ => false
        end
    | OpCopy dst src =>
        is_nil (o_wrote ob) && match o_res ob with XOk => true | _ => false end
    | OpSocks =>
        is_nil (o_wrote ob) &&
        match dfind_ci SocksPort_name opts with
        | Some (cn, k) =>
            if dmem cn (s_pend st) then true else
            match o_res ob with
            | XSocks r =>
                match first_usable (view_list st cn k) with
                | Some e => sockres_eqb r e
                | None => match r with SockExc _ => true | _ => false end   (* nothing usable: an error *)
                end
            | _ => false
            end
        | None => false
        end
    | OpSaveDuring rej ds => flightc st rej ds ob
    end.

  (* ---- judging an OpSaveDuring ---- *)
  Definition check_base : ost -> op -> obs -> bool := spec_check_gen (fun _ _ _ _ => false).

  (* every operation performed during the flight is judged as the ordinary operation it is, in the
     state it is performed in (what is pending then includes what the unanswered save has sent) *)
  Fixpoint flight_inner_ok (sq : ost * list (list (bytes * ival))) (ds : list dop) (rs : list ires) : bool :=
    match ds, rs with
    | [], [] => true
    | d :: ds', r :: rs' =>
        (match op_of_dop d, ores_of_ires r with
         | Some o, Some x => check_base (fst sq) o {| o_wrote := []; o_res := x |}
         | None, None => match r with ISent => true | _ => false end
         | _, _ => false
         end) && flight_inner_ok (dop_next sq d) ds' rs'
    | _, _ => false
    end.

  (* the outcome of each save() call: nothing pending -> done at once; otherwise Tor's answer *)
  Definition call_outcome (rej : option N) (st : ost) : sres :=
    match s_pend st with
    | [] => SOk
    | _ => match rej with None => SOk | Some c => SFail c end
    end.
  Fixpoint flight_outs (rej : option N) (sq : ost * list (list (bytes * ival))) (ds : list dop) : list sres :=
    match ds with
    | [] => []
    | d :: ds' =>
        (match op_of_dop d with None => [call_outcome rej (fst sq)] | Some _ => [] end)
        ++ flight_outs rej (dop_next sq d) ds'
    end.

  (* one SETCONF per save() that had something to send, in the order of the calls, each with
     exactly what was pending when it was called *)
  Fixpoint lines_ok (q : list (list (bytes * ival))) (lines : list bytes) : bool :=
    match q, lines with
    | [], [] => true
    | snap :: q', line :: lines' =>
        (match parse_setconf line with Some es => entries_match snap es | None => false end) && lines_ok q' lines'
    | _, _ => false
    end.

  Definition flight_check (st : ost) (rej : option N) (ds : list dop) (ob : obs) : bool :=
    let st' := flight_next st rej ds in
    match o_res ob with
    | XFlight rs outs ns snap =>
        flight_inner_ok (st, flight_send st []) ds rs
        && lines_ok (snd (flight_run st ds)) (o_wrote ob)
        && list_eqb sres_eqb outs (call_outcome rej st :: flight_outs rej (st, flight_send st []) ds)
        && Bool.eqb ns (negb (is_nil (s_pend st')))
        && snap_ok st' opts snap
    | _ => false
    end.

  Definition spec_check : ost -> op -> obs -> bool := spec_check_gen flight_check.

  Fixpoint spec_run (st : ost) (ops : list op) (obs_ : list obs) : bool :=
    match ops, obs_ with
    | [], [] => true
    | o :: ops', ob :: obs' => spec_check st o ob && spec_run (spec_next st o) ops' obs'
    | _, _ => false
    end.
End WithTable.

Definition init_ost (i : cfg_input) : ost := {| s_store := i_store i; s_pend := [] |}.

(* ---- a port list that names no listener at attach time ----
   Tor reports a port list (<X>PortLines row) that was never configured as unset, and one set to
   the single word "auto" as "auto".  The property text does not settle what the view shows then.
   Two readings are accepted, each consistently for the whole history:
     (1) the value as Tor reports it (unset -> the config/defaults lines, "auto" -> ["auto"]);
     (2) the lines Tor will use by default: the config/defaults lines of <X>, or, where
         config/defaults has none, the values of the option __<X> (through which older Tors
         announce the built-in default of <X>).
   Reading (2) is a store in which <X> carries those lines.  Both readings agree as soon as an
   event or an acknowledged save gives <X> a value. *)
Definition dunder (cn : bytes) : bytes := bs "__" ++ cn.

Definition unset_or_auto (vals : list bytes) : bool :=
  match nonempty_values vals with [] => true | [v] => beqb v auto_word | _ => false end.

(* the lines reading (2) gives option o, where it differs from Tor's report *)
Definition eff_value (i : cfg_input) (o : bytes * kind) : option (list bytes) :=
  match snd o with
  | KPorts =>
      if unset_or_auto (store_get (i_store i) (fst o))
      then Some (if is_nil (default_lines (i_defaults i) (fst o))
                 then store_get (i_store i) (dunder (fst o)) else [])
      else None
  | _ => None
  end.

Definition eff_store (i : cfg_input) : store :=
  fold_left (fun (s : store) (o : bytes * kind) =>
               match eff_value i o with Some v => dset (fst o) v s | None => s end)
            (options (i_table i)) (i_store i).

Definition eff_ost (i : cfg_input) : ost := {| s_store := eff_store i; s_pend := [] |}.

Definition worlds (i : cfg_input) : list ost := [init_ost i; eff_ost i].

Definition cfg_oracle_from (i : cfg_input) (st0 : ost) (tr : list obs) : bool :=
  spec_run (options (i_table i)) (i_defaults i) st0 (i_ops i) tr.

Definition cfg_oracle (i : cfg_input) (tr : list obs) : bool :=
  existsb (fun st0 => cfg_oracle_from i st0 tr) (worlds i).

(* the view right after attaching: every option reads as Tor's value parsed by its type *)
Definition boot_oracle_from (i : cfg_input) (st0 : ost) (boot_ok : bool) (snap : list rres) : bool :=
  boot_ok && snap_ok (options (i_table i)) (i_defaults i) st0 (options (i_table i)) snap.

Definition boot_oracle (i : cfg_input) (boot_ok : bool) (snap : list rres) : bool :=
  existsb (fun st0 => boot_oracle_from i st0 boot_ok snap) (worlds i).

(* bootstrap and history, judged under one reading *)
Definition full_oracle (i : cfg_input) (boot_ok : bool) (snap : list rres) (tr : list obs) : bool :=
  existsb (fun st0 => boot_oracle_from i st0 boot_ok snap && cfg_oracle_from i st0 tr) (worlds i).

(* ================================================================== the envelope *)
(* printable ASCII *)
Definition printable (a : ascii) : bool := (32 <=? code a) && (code a <=? 126).
Definition name_char (a : ascii) : bool :=
  is_digit a || ((65 <=? code a) && (code a <=? 90)) || ((97 <=? code a) && (code a <=? 122)) || (code a =? 95).
Definition name_ok (n : bytes) : bool :=
  negb (is_nil n) && forallb name_char n && Nat.leb (length n) 48.

(* a text value as a user assigns it *)
Definition text_ok (s : bytes) : bool :=
  negb (is_nil s) && forallb printable s && beqb (strip s) s && negb (beqb s DEFAULT_word)
  && Nat.leb (length s) 64.
(* a text value as Tor reports it in GETCONF / config/defaults / CONF_CHANGED *)
Definition tor_value_ok (s : bytes) : bool :=
  text_ok s && match s with c :: _ => negb (Ascii.eqb c DQ || Ascii.eqb c (ch 39)) | [] => false end.

Definition small_Z (z : Z) : bool := ((-1000000 <=? z) && (z <=? 1000000))%Z.

Definition no_comma (s : bytes) : bool := negb (memb COMMA s).
Definition comma_text_ok (s : bytes) : bool :=
  text_ok s && forallb (fun e => negb (is_nil e)) (split_comma s).

Definition elem_ok (k : kind) (a : atom) : bool :=
  match a with
  | AStr [] => true    (* an empty line *)
  | AStr s => text_ok s && (match k with KComma => no_comma s | _ => true end)
  | AInt z => small_Z z   (* the integer style of the class docstring: conf.SOCKSPort = [9050, 1337]; 0 included *)
  | _ => false
  end.

Definition letters_only (s : bytes) : bool :=
  negb (is_nil s) && forallb (fun a => ((65 <=? code a) && (code a <=? 90)) || ((97 <=? code a) && (code a <=? 122))) s.
(* strings handed to int(): plain decimal (valid) or letters only (invalid); nothing exotic *)
Definition int_text_scope (s : bytes) : bool :=
  (match parse_int s with Some z => small_Z z | None => false end) || (letters_only s && negb (beqb s auto_word)).

Definition assign_ok (k : kind) (v : pyval) : bool :=
  match k, v with
  | KBool, PAtom (ABool _) => true
  | KBool, PAtom (AInt z) => small_Z z
  | KBoolAuto, PAtom (AInt z) => small_Z z
  | KBoolAuto, PAtom (AStr s) => int_text_scope s
  | KInt, PAtom (AInt z) => small_Z z
  | KInt, PAtom (AStr s) => int_text_scope s
  | KInt, PList l => forallb (elem_ok KLine) l
  | KFloat, PAtom (AFloat t) => match float_canon t with Some c => beqb c t | None => false end
  | KFloat, PAtom (AStr s) => match float_canon s with Some _ => true | None => false end
  | KStr, PAtom (AStr s) => text_ok s
  | KComma, PAtom (AStr s) => comma_text_ok s
  | KComma, PList l => forallb (elem_ok KComma) l
  | KLine, PList l => forallb (elem_ok KLine) l
  | KLine, PAtom (AStr s) => text_ok s
  | KLine, PAtom (AInt z) => small_Z z
  | KPorts, PList l => forallb (elem_ok KLine) l
  | _, _ => false
  end.

Definition lop_ok (k : kind) (o : lop) : bool :=
  match o with
  | LAppend a | LRemove a => elem_ok k a
  | LExtend l => forallb (elem_ok k) l
  | LInsert i a | LSetItem i a => small_Z i && elem_ok k a
  | LPop None => true
  | LPop (Some i) => small_Z i
  end.

Definition reserved_names : list bytes :=
  [bs "HiddenServiceOptions"; bs "HiddenServices"; bs "EphemeralOnionServices"; bs "DetachedOnionServices";
   bs "OK"].

Definition table_ok (table : list (bytes * bytes)) : bool :=
  forallb (fun r : bytes * bytes =>
             name_ok (fst r) && match kind_of_type (snd r) with Some _ => true | None => false end
             && negb (mem_ci (fst r) reserved_names)) table
  && nodup_ci (map fst table)
  && nodup_ci (map fst (options table))
  && forallb (fun o : bytes * kind => negb (mem_ci (fst o) reserved_names) && name_ok (fst o)) (options table).

(* values Tor can hold for an option of kind k *)
Definition tor_values_ok (k : kind) (vals : list bytes) : bool :=
  match k with
  | KLine | KPorts => forallb tor_value_ok vals
  | KComma => match vals with
              | [] => true
              | [v] => tor_value_ok v && comma_text_ok v
              | _ => false
              end
  | KStr => match vals with [] => true | [v] => is_nil v || tor_value_ok v | _ => false end
  | _ => match vals with
         | [v] => (match parse_scalar k v with Some _ => true | None => false end)
                  && (match k with KFloat => true | _ => match parse_int v with Some z => small_Z z | None => beqb v auto_word end end)
         | _ => false     (* numeric and boolean options always carry exactly one value *)
         end
  end.

Fixpoint nodup_keys {A} (d : list (bytes * A)) : bool :=
  match d with [] => true | (k, _) :: t => negb (mem_bytes k (map fst t)) && nodup_keys t end.

(* store keys are spelled as Tor spells them (exactly an option's name), or name rows of the
   table that carry no value of their own (e.g. __SocksPort) *)
Definition store_ok (table : list (bytes * bytes)) (st : store) : bool :=
  let opts := options table in
  forallb (fun o : bytes * kind => tor_values_ok (snd o) (store_get st (fst o))) opts
  && forallb (fun e : bytes * list bytes =>
                (mem_bytes (fst e) (map fst opts) || mem_bytes (fst e) (map fst table))
                && forallb (fun v => is_nil v || tor_value_ok v) (snd e)) st
  && nodup_keys st
  (* the option __<X> through which the default of a port list <X> is announced holds lines *)
  && forallb (fun o : bytes * kind =>
                match snd o with
                | KPorts => forallb tor_value_ok (store_get st (dunder (fst o)))
                | _ => true
                end) opts.

Definition defaults_ok (opts : list (bytes * kind)) (d : option (list (bytes * bytes))) : bool :=
  match d with
  | None => true
  | Some ls =>
      forallb (fun l : bytes * bytes => mem_bytes (fst l) (map fst opts) && tor_value_ok (snd l)) ls
      && forallb (fun o : bytes * kind =>
                    let dl := default_lines d (fst o) in
                    match snd o with
                    | KLine | KPorts => true
                    | KComma => match dl with [] => true | [v] => comma_text_ok v | _ => false end
                    | KStr => Nat.leb (length dl) 1
                    | k => match dl with
                           | [] => true
                           | [v] => tor_values_ok k [v]
                           | _ => false
                           end
                    end) opts
  end.

Definition event_item_ok (opts : list (bytes * kind)) (items : list (bytes * option bytes)) (it : bytes * option bytes) : bool :=
  match dfind_ci (fst it) opts with
  | None => false
  | Some (cn, k) =>
      beqb cn (fst it) &&
      match snd it with
      | Some v => tor_value_ok v
      | None => is_nil (values_of_key (fst it) items)     (* an option is announced as unset OR with values *)
      end
      (* an option reset to its default is announced by its keyword alone, whatever its type *)
      && (is_nil (values_of_key (fst it) items) || tor_values_ok k (values_of_key (fst it) items))
  end.

(* a list read from an option of kind ks can be assigned to an option of kind kd: the elements of a
   comma list contain no comma; lines are arbitrary texts *)
Definition copy_ok (kd ks : kind) : bool :=
  match kd with
  | KComma => match ks with KComma => true | _ => false end
  | KLine | KPorts => is_list_kind ks
  | _ => false
  end.

Definition op_ok_gen (flt : option N -> list dop -> bool) (opts : list (bytes * kind)) (o : op) : bool :=
  match o with
  | OpAssign name v =>
      match dfind_ci name opts with Some (_, k) => assign_ok k v | None => false end
  | OpListOp name lo =>
      match dfind_ci name opts with Some (_, k) => is_list_kind k && lop_ok k lo | None => false end
  | OpRead name => match dfind_ci name opts with Some _ => true | None => false end
  | OpSave (Some c) => (500 <=? c) && (c <=? 599)
  | OpSave None | OpNeedsSave => true
  | OpEvent items => negb (is_nil items) && forallb (event_item_ok opts items) items
  | OpSocks => match dfind_ci SocksPort_name opts with Some (_, k) => is_list_kind k | None => false end
  | OpCopy dst src =>
      match dfind_ci dst opts, dfind_ci src opts with
      | Some (_, kd), Some (_, ks) => copy_ok kd ks
      | _, _ => false
      end
  | OpSaveDuring rej ds => flt rej ds
  end.
Definition op_ok_base : list (bytes * kind) -> op -> bool := op_ok_gen (fun _ _ => false).
Definition op_ok (opts : list (bytes * kind)) : op -> bool :=
  op_ok_gen (fun rej ds =>
               (match rej with Some c => (500 <=? c) && (c <=? 599) | None => true end)
               && forallb (fun d => match op_of_dop d with Some o => op_ok_base opts o | None => true end) ds) opts.

(* names assigned before the attachment are option names, spelled as Tor spells them *)
Definition pre_ok (opts : list (bytes * kind)) (pre : option (list (bytes * pyval))) : bool :=
  match pre with
  | None => true
  | Some l => forallb (fun p : bytes * pyval => mem_bytes (fst p) (map fst opts)) l
  end.

Definition in_scope (i : cfg_input) : bool :=
  let opts := options (i_table i) in
  table_ok (i_table i) && store_ok (i_table i) (i_store i) && defaults_ok opts (i_defaults i)
  && pre_ok opts (i_pre i)
  && forallb (op_ok opts) (i_ops i).
