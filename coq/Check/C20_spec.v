From Coq Require Import List Bool Ascii NArith ZArith.
From TxVerif Require Import Lib.Bytes Lib.Verdict Spec.C20.
Import ListNotations.

Record case := { k_ops : list op; k_obs : list (list obs); k_flags : list bool }.

Definition check (k : case) : verdict :=
  if negb (in_scope (k_ops k)) then VSkip else
  mk_verdict None (oracle (k_ops k) (k_obs k)).
