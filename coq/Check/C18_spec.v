(* oracle-only verdict for C18 (used when Model/ or Gen/ does not build) *)
From Coq Require Import List Bool Ascii NArith String.
From TxVerif Require Import Lib.Bytes Lib.Words Lib.Verdict Spec.C18.
Import ListNotations.
Open Scope N_scope.

Record case := { k_scn : scenario;
                 k_picks : list endpoint;
                 k_obs : observation;
                 k_flag : bool;
                 k_final : reply }.

Definition check (k : case) : verdict :=
  if negb (wf (k_scn k)) then VSkip else
  mk_verdict None (oracle (k_scn k) (k_obs k)).
