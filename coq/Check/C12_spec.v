(* oracle-only verdict for C12 (used when Model/ or Gen/ does not build) *)
From Coq Require Import List Bool Ascii NArith ZArith.
From TxVerif Require Import Lib.Bytes Lib.Verdict Spec.TorGrammar Spec.C12.
Import ListNotations.

Record case := { k_ops : list op; k_obs : list (list ev) }.

Definition check (k : case) : verdict := mk_verdict None (oracle (k_ops k) (k_obs k)).
