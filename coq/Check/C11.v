(* per-case verdict for C11; used by the generated cases files *)
From Coq Require Import String.
From Coq Require Import List Bool Ascii NArith ZArith.
From TxVerif Require Import Lib.Bytes Lib.Verdict Lib.CfgLib Spec.CfgTypes Spec.TorStore Spec.CfgOracle Spec.C10 Spec.C11
  Model.Config.
Import ListNotations.

Record case := { k_in : cfg_input; k_boot_ok : bool; k_boot : list rres; k_obs : list obs; k_preds : list bool }.

Definition preds_of (i : cfg_input) : list bool :=
  [emptied_list_saved i; edit_while_detached i; odd_element_saved i].

Definition check (k : case) : verdict :=
  let i := settle (k_in k) in     (* announced values no type can read: Spec/C11.v *)
  if negb (c11_scope i) then VSkip else
  let o := oracle i (k_boot_ok k) (k_boot k) (k_obs k) in
  match model_run i with
  | None => mk_verdict None o
  | Some (b, snap, tr) =>
      mk_verdict (Some (Bool.eqb b (k_boot_ok k) && list_eqb rres_eqb snap (k_boot k)
                        && list_eqb obs_eqb tr (k_obs k)
                        && list_eqb Bool.eqb (preds_of i) (k_preds k))) o
  end.
