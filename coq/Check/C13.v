From Coq Require Import List Bool Ascii Arith NArith.
From TxVerif Require Import Lib.Bytes Lib.Verdict Spec.Ctl Spec.C13 Model.Keywords.
Import ListNotations.
Record case := { r_req : request; r_obs : obs13 }.
Definition obs13_eqb (a b : obs13) : bool :=
  match a, b with OResult x, OResult y => dict_eqb x y | OFailed, OFailed => true | _, _ => false end.
Definition check (k : case) : verdict :=
  if negb (wf_request_wide (r_req k)) then VSkip else
  mk_verdict (Some (obs13_eqb (model_obs (r_req k)) (r_obs k))) (oracle (r_req k) (r_obs k)).
