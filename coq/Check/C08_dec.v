(* decoding of the packed case files of C08 (trusted part of the correspondence tie); see Check/C07_dec.v *)
From Coq Require Import List Bool Ascii Arith NArith.
From TxVerif Require Import Lib.Bytes Lib.NList Spec.C07 Spec.C08 Check.C07_dec.
Import ListNotations.
Open Scope N_scope.

Definition fail_p {A} : P A := fun _ => None.

Definition op_p : P op :=
  tag <- num ;;
  if tag =? 0 then
    id <- num ;; st <- num ;; path <- many hop_p ;; kw <- many pair_p ;;
    match cstatus_of st with Some s => ret (OEv (ECirc id s path kw)) | None => fail_p end
  else if tag =? 1 then
    id <- num ;; st <- num ;; cid <- num ;; host <- num ;; port <- num ;; kw <- many pair_p ;;
    match sstatus_of st with Some s => ret (OEv (EStream id s cid host port kw)) | None => fail_p end
  else if tag =? 2 then l <- num ;; ret (OAddCL l)
  else if tag =? 3 then l <- num ;; ret (OAddSL l)
  else if tag =? 12 then ret OAck
  else if tag =? 13 then rs <- many num ;; w <- num ;; ret (OBuild rs w)
  else if tag =? 14 then id <- num ;; ret (OExtended id)
  else if tag =? 15 then ret OBuildErr
  else
    a <- num ;; b <- num ;;
    match tag with
    | 4 => ret (OCListen a b) | 5 => ret (OCUnlisten a b) | 6 => ret (OSListen a b) | 7 => ret (OSUnlisten a b)
    | 8 => ret (OWhenBuilt a b) | 9 => ret (OWhenClosed a b) | 10 => ret (OCClose a b) | 11 => ret (OSClose a b)
    | _ => fail_p
    end.

Definition wres_p : P wres :=
  tag <- num ;;
  match tag with
  | 0 => o <- num ;; ret (WOkC o)
  | 1 => o <- num ;; ret (WOkS o)
  | 2 => ret WOkNone
  | 3 => c <- num ;; a <- num ;; b <- num ;; ret (WFail c a b)
  | _ => fail_p
  end.

Definition nev_p : P nev :=
  tag <- num ;;
  match tag with
  | 0 => l <- num ;; m <- num ;; o <- num ;; a <- num ;; fl <- many pair_p ;; ret (NCirc l m o a fl)
  | 1 => l <- num ;; m <- num ;; o <- num ;; a <- num ;; fl <- many pair_p ;; ret (NStream l m o a fl)
  | 2 => w <- num ;; r <- wres_p ;; ret (NDone w r)
  | 3 => k <- num ;; i <- num ;; ret (NCmd k i)
  | 4 => k <- num ;; ret (NRaised k)
  | _ => fail_p
  end.

Definition input8_p : P (list (N * N) * list op) := rts <- many pair_p ;; ops <- many op_p ;; ret (rts, ops).
Definition decode_input8 (b : bytes) := all_of input8_p b.
Definition decode_obs8 (b : bytes) : option (list (list nev)) := all_of (many (many nev_p)) b.

Definition wres_eqb (a b : wres) : bool :=
  match a, b with
  | WOkC x, WOkC y | WOkS x, WOkS y => x =? y
  | WOkNone, WOkNone => true
  | WFail c1 a1 b1, WFail c2 a2 b2 => (c1 =? c2) && (a1 =? a2) && (b1 =? b2)
  | _, _ => false
  end.
Definition nev_eqb (a b : nev) : bool :=
  match a, b with
  | NCirc l1 m1 o1 a1 f1, NCirc l2 m2 o2 a2 f2 | NStream l1 m1 o1 a1 f1, NStream l2 m2 o2 a2 f2 =>
      (l1 =? l2) && (m1 =? m2) && (o1 =? o2) && (a1 =? a2) && kws_eqb f1 f2
  | NDone w1 r1, NDone w2 r2 => (w1 =? w2) && wres_eqb r1 r2
  | NCmd k1 i1, NCmd k2 i2 => (k1 =? k2) && (i1 =? i2)
  | NRaised k1, NRaised k2 => k1 =? k2
  | _, _ => false
  end.
