(* oracle-only verdict for C17 (used when Model/ does not build) *)
From Coq Require Import List Bool Arith NArith.
From TxVerif Require Import Lib.ListSet Lib.Verdict Spec.C15 Spec.C17.
Import ListNotations.

Record case := { k_cfg : cfg; k_ops : list lop; k_obs : list lrec; k_preds : list bool }.

Definition check (k : case) : verdict :=
  if negb (wf (k_cfg k) (k_ops k)) then VSkip else
  mk_verdict None (oracle (k_cfg k) (k_ops k) (k_obs k)).
