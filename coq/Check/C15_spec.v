(* oracle-only verdict for C15 (used when Model/ does not build) *)
From Coq Require Import List Bool Arith NArith.
From TxVerif Require Import Lib.ListSet Lib.Verdict Spec.C15.
Import ListNotations.

Record case := { k_cfg : cfg; k_ops : list op; k_obs : list rec; k_preds : list bool }.

Definition check (k : case) : verdict :=
  if negb (wf (k_ops k)) then VSkip else
  mk_verdict None (oracle_named (k_cfg k) (k_ops k) (k_obs k)).
