From Coq Require Import List Bool Ascii Arith NArith.
From TxVerif Require Import Lib.Bytes Lib.Verdict Spec.C16.
Import ListNotations.

Record case := { k_docs : list (doc * list bytes); k_f2 : bool; k_obs : list view;
                 k_codec : list cobs }.

Definition check (k : case) : verdict :=
  if negb (forallb input_ok (k_docs k)) then VSkip else
  mk_verdict None (oracle (map fst (k_docs k)) (k_obs k) && forallb codec_ok (k_codec k)).
