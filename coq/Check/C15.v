(* per-case verdict for C15; used by the generated cases files *)
From Coq Require Import List Bool Arith NArith.
From TxVerif Require Import Lib.Bytes Lib.ListSet Lib.Verdict Spec.C15 Model.DescUpload.
Import ListNotations.

(* k_preds: the finding predicates as evaluated by the Python mirror (drive_C15.finding_preds) *)
Record case := { k_cfg : cfg; k_ops : list op; k_obs : list rec; k_preds : list bool }.

Definition preds (k : case) : list bool :=
  [foreign_uploaded_shared_dir (k_cfg k) (canon (k_ops k)); own_event_before_reply (k_cfg k) (canon (k_ops k))].

Definition check (k : case) : verdict :=
  if negb (wf (k_ops k)) then VSkip else
  let m := trace_eqb (run_named (k_cfg k) (k_ops k)) (k_obs k)
           && list_eqb Bool.eqb (preds k) (k_preds k) in
  mk_verdict (Some m) (oracle_named (k_cfg k) (k_ops k) (k_obs k)).
