From Coq Require Import List Bool Ascii Arith NArith.
From TxVerif Require Import Lib.Bytes Lib.Verdict Spec.Ctl Spec.CtlOracle Model.CtlProto Spec.C03Cancel Model.CtlCancel.
From TxVerif Require Export Check.Ctl.
Import ListNotations.

(* two families of cases: byte-level sessions cut by a loss (shared with C01/C02), and command-level
   histories in which the caller cancels commands (Spec/C03Cancel.v) *)
Inductive case :=
| KSess (k : ccase)
| KCancel (ops : list qop) (obs : list (list qev)).

Definition qtr_eqb (a b : list (list qev)) : bool := list_eqb (list_eqb qev_eqb) a b.

Definition check (k : case) : verdict :=
  match k with
  | KSess c => check_with j_c03 c
  | KCancel ops obs =>
      match q_oracle ops obs with
      | None => VSkip
      | Some ok => mk_verdict (option_map (fun m => qtr_eqb m obs) (q_run ops)) ok
      end
  end.
