From Coq Require Import List Bool Ascii NArith.
From TxVerif Require Import Lib.Bytes Lib.Verdict Spec.C09.
Import ListNotations.

Record case := { k_ops : list op; k_obs : list (list ev) }.

Definition check (k : case) : verdict :=
  if negb (wf (k_ops k)) then mk_verdict None true else
  mk_verdict None (oracle (k_ops k) (k_obs k)).
