(* per-case verdict for C06; used by the generated cases files *)
From Coq Require Import String List Bool Ascii NArith.
From TxVerif Require Import Lib.Bytes Lib.Verdict Spec.Rfc1928 Spec.C06 Spec.C05 Model.SocksEnc Model.Socks.
Import ListNotations.

Record case := { c_ty : rtype; c_t : target; c_port : N; c_obs : obs; c_greet : bytes; c_method : list bytes }.

Definition obs_eqb (a b : obs) : bool :=
  match a, b with
  | OWrote x, OWrote y => beqb x y
  | ORefused, ORefused => true
  | _, _ => false
  end.

(* the model's view: run the SOCKS machine on the method-reply chunks, collect what it writes *)
Definition writes_of (es : list ev) : bytes :=
  List.concat (map (fun e => match e with EWrote b => b | _ => [] end) es).
Definition raised_in (es : list ev) : bool :=
  existsb (fun e => match e with ERaised _ => true | _ => false end) es.
Definition machine_obs (k : case) : bytes * obs :=
  match run {| Socks.c_ty := c_ty k; c_target := c_t k; Socks.c_port := c_port k |} (c_method k) false with
  | conn :: rest =>
      let w := writes_of (List.concat rest) in
      (writes_of conn,
       match w with
       | [] => if raised_in (List.concat rest) then ORefused else OWrote []
       | _ => OWrote w
       end)
  | [] => ([], ORefused)
  end.

Definition check (k : case) : verdict :=
  if negb (wf_targetb (c_t k)) then VSkip else
  let '(g, o) := machine_obs k in
  let m := obs_eqb o (c_obs k) && beqb g (c_greet k) in
  let o := oracle_full (c_ty k) (c_t k) (c_port k) (List.concat (c_method k)) (c_obs k) && beqb (c_greet k) greeting_noauth in
  mk_verdict (Some m) o.
