(* per-case verdict for C06; used by the generated cases files *)
From Coq Require Import List Bool Ascii NArith.
From TxVerif Require Import Lib.Bytes Lib.Verdict Spec.Rfc1928 Spec.C06 Model.SocksEnc.
Import ListNotations.

Record case := { c_ty : rtype; c_t : target; c_port : N; c_obs : obs; c_greet : bytes }.

Definition obs_eqb (a b : obs) : bool :=
  match a, b with
  | OWrote x, OWrote y => beqb x y
  | ORefused, ORefused => true
  | _, _ => false
  end.

Definition check (c : case) : verdict :=
  if negb (wf_targetb (c_t c)) then VSkip else
  let m := obs_eqb (model_obs (c_ty c) (c_t c) (c_port c)) (c_obs c)
           && option_eqb beqb version_bytes (Some (c_greet c)) in
  let o := oracle (c_ty c) (c_t c) (c_port c) (c_obs c) && beqb (c_greet c) greeting_noauth in
  mk_verdict (Some m) o.
