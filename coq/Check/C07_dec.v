(* decoding of the packed case files of C07/C08 (trusted part of the correspondence tie):
   numbers: b < 254 -> b ; 254 hi lo -> 16 bit ; 255 b3 b2 b1 b0 -> 32 bit ; lists are count-prefixed *)
From Coq Require Import List Bool Ascii Arith NArith.
From TxVerif Require Import Lib.Bytes Lib.NList Spec.C07.
Import ListNotations.
Open Scope N_scope.

Definition P (A : Type) := list N -> option (A * list N).
Definition ret {A} (x : A) : P A := fun l => Some (x, l).
Definition bind {A B} (p : P A) (f : A -> P B) : P B :=
  fun l => match p l with Some (x, l') => f x l' | None => None end.
Notation "x <- p ;; q" := (bind p (fun x => q)) (at level 61, p at next level, right associativity).

Definition num : P N := fun l =>
  match l with
  | b :: t =>
      if b <? 254 then Some (b, t)
      else if b =? 254 then match t with h :: lo :: t' => Some (h * 256 + lo, t') | _ => None end
      else match t with a :: b2 :: c :: d :: t' => Some (((a * 256 + b2) * 256 + c) * 256 + d, t') | _ => None end
  | [] => None
  end.

Fixpoint rep {A} (n : nat) (p : P A) : P (list A) :=
  match n with
  | O => ret []
  | S n' => x <- p ;; xs <- rep n' p ;; ret (x :: xs)
  end.
Definition many {A} (p : P A) : P (list A) := n <- num ;; rep (N.to_nat n) p.
Definition pair_p : P (N * N) := a <- num ;; b <- num ;; ret (a, b).
(* 0 = None, n+1 = Some n *)
Definition opt_p : P (option N) := n <- num ;; ret (if n =? 0 then None else Some (n - 1)).

Definition cstatus_of (n : N) : option cstatus :=
  match n with 0 => Some CLaunched | 1 => Some CBuilt | 2 => Some CGuardWait | 3 => Some CExtended
             | 4 => Some CFailed | 5 => Some CClosed | _ => None end.
Definition sstatus_of (n : N) : option sstatus :=
  match n with 0 => Some SNew | 1 => Some SRemap | 2 => Some SSentConnect | 3 => Some SSucceeded
             | 4 => Some SDetached | 5 => Some SFailed | 6 => Some SClosed | 7 => Some SNewResolve | 8 => Some SSentResolve
             | _ => None end.

Definition hop_p : P hop := a <- num ;; b <- num ;; ret {| h_rid := a; h_nick := b |}.

Definition event_p : P event :=
  tag <- num ;;
  if tag =? 0 then
    id <- num ;; st <- num ;; path <- many hop_p ;; kw <- many pair_p ;;
    match cstatus_of st with Some s => ret (ECirc id s path kw) | None => fun _ => None end
  else
    id <- num ;; st <- num ;; cid <- num ;; host <- num ;; port <- num ;; kw <- many pair_p ;;
    match sstatus_of st with Some s => ret (EStream id s cid host port kw) | None => fun _ => None end.

(* status as observed: 0 = attribute not one of the known words *)
Definition cobs_p : P cobs :=
  oid <- num ;; id <- num ;; st <- num ;; pu <- opt_p ;; bf <- many num ;; fl <- many pair_p ;;
  pa <- many pair_p ;;
  ret {| co_oid := oid; co_id := id; co_status := (if st =? 0 then None else cstatus_of (st - 1)); co_purpose := pu;
         co_bflags := bf; co_flags := fl; co_path := pa |}.
Definition sobs_p : P sobs :=
  oid <- num ;; id <- num ;; st <- num ;; h <- opt_p ;; po <- num ;; ad <- opt_p ;; sr <- opt_p ;; sp <- num ;;
  ci <- opt_p ;;
  ret {| so_oid := oid; so_id := id; so_status := (if st =? 0 then None else sstatus_of (st - 1)); so_host := h;
         so_port := po; so_addr := ad; so_src := sr; so_sport := sp; so_circ := ci |}.
Definition dead_p : P (N * list N) := oid <- num ;; l <- many num ;; ret (oid, l).
Definition obs_p : P obs :=
  r <- num ;; cs <- many cobs_p ;; ss <- many sobs_p ;; ds <- many dead_p ;;
  ret {| o_raised := r; o_circs := cs; o_streams := ss; o_heap := ds |}.

Definition all_of {A} (p : P A) (b : bytes) : option A :=
  match p (map code b) with Some (x, []) => Some x | _ => None end.

Definition stim_p : P stim :=
  tag <- num ;;
  if tag =? 0 then
    id <- num ;; st <- num ;; path <- many hop_p ;; kw <- many pair_p ;;
    match cstatus_of st with Some s => ret (SEv (ECirc id s path kw)) | None => fun _ => None end
  else if tag =? 1 then
    id <- num ;; st <- num ;; cid <- num ;; host <- num ;; port <- num ;; kw <- many pair_p ;;
    match sstatus_of st with Some s => ret (SEv (EStream id s cid host port kw)) | None => fun _ => None end
  else if tag =? 2 then rs <- many num ;; ret (SBuild rs)
  else if tag =? 3 then id <- num ;; ret (SExtended id)
  else if tag =? 4 then ret SBuildErr
  else fun _ => None.

(* consensus (relay number, nickname code), number of snapshot events, all events *)
Definition input_p : P (list (N * N) * list event * list event) :=
  rts <- many pair_p ;; nsnap <- num ;; evs <- many event_p ;;
  ret (rts, firstn (N.to_nat nsnap) evs, skipn (N.to_nat nsnap) evs).

Definition decode_input (b : bytes) := all_of input_p b.
(* consensus, snapshot, stimuli *)
Definition input2_p : P (list (N * N) * list event * list stim) :=
  rts <- many pair_p ;; snap <- many event_p ;; l <- many stim_p ;; ret (rts, snap, l).
Definition decode_input2 (b : bytes) := all_of input2_p b.
Definition obs2_p : P (obs * extra) := o <- obs_p ;; ex <- many pair_p ;; ret (o, ex).
Definition decode_obs2 (b : bytes) : option (list (obs * extra)) := all_of (many obs2_p) b.
Definition decode_obs (b : bytes) : option (list obs) := all_of (many obs_p) b.

(* equality of observations (model vs implementation) *)
Definition optc_eqb (a b : option cstatus) := option_eqb cstatus_eqb a b.
Definition opts_eqb (a b : option sstatus) := option_eqb sstatus_eqb a b.
Definition cobs_eqb (a b : cobs) : bool :=
  (co_oid a =? co_oid b) && (co_id a =? co_id b) && optc_eqb (co_status a) (co_status b) &&
  optN_eqb (co_purpose a) (co_purpose b) && listN_eqb (co_bflags a) (co_bflags b) &&
  kws_eqb (co_flags a) (co_flags b) && kws_eqb (co_path a) (co_path b).
Definition sobs_eqb (a b : sobs) : bool :=
  (so_oid a =? so_oid b) && (so_id a =? so_id b) && opts_eqb (so_status a) (so_status b) &&
  optN_eqb (so_host a) (so_host b) && (so_port a =? so_port b) && optN_eqb (so_addr a) (so_addr b) &&
  optN_eqb (so_src a) (so_src b) && (so_sport a =? so_sport b) && optN_eqb (so_circ a) (so_circ b).
Definition dead_eqb (a b : N * list N) : bool := (fst a =? fst b) && listN_eqb (snd a) (snd b).
Definition obs_eqb (a b : obs) : bool :=
  (o_raised a =? o_raised b) && list_eqb cobs_eqb (o_circs a) (o_circs b) &&
  list_eqb sobs_eqb (o_streams a) (o_streams b) && list_eqb dead_eqb (o_heap a) (o_heap b).
Definition obs2_eqb (a b : obs * extra) : bool := obs_eqb (fst a) (fst b) && extra_eqb (snd a) (snd b).
