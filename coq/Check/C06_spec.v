(* oracle-only verdict for C06 (used when Model/ or Gen/ does not build) *)
From Coq Require Import List Bool Ascii NArith.
From TxVerif Require Import Lib.Bytes Lib.Verdict Spec.Rfc1928 Spec.C06.
Import ListNotations.

Record case := { c_ty : rtype; c_t : target; c_port : N; c_obs : obs; c_greet : bytes; c_method : list bytes }.

Definition check (c : case) : verdict :=
  if negb (wf_targetb (c_t c)) then VSkip else
  mk_verdict None (oracle_full (c_ty c) (c_t c) (c_port c) (concat (c_method c)) (c_obs c) && beqb (c_greet c) greeting_noauth).
