(* oracle-only verdict for C11 (imports no Model/ or Gen/) *)
From Coq Require Import String.
From Coq Require Import List Bool Ascii NArith ZArith.
From TxVerif Require Import Lib.Bytes Lib.Verdict Lib.CfgLib Spec.CfgTypes Spec.TorStore Spec.CfgOracle Spec.C10 Spec.C11.
Import ListNotations.

Record case := { k_in : cfg_input; k_boot_ok : bool; k_boot : list rres; k_obs : list obs; k_preds : list bool }.

Definition check (k : case) : verdict :=
  let i := settle (k_in k) in     (* announced values no type can read: Spec/C11.v *)
  if negb (c11_scope i) then VSkip else
  mk_verdict None (oracle i (k_boot_ok k) (k_boot k) (k_obs k)).
