From Coq Require Import List Bool Ascii NArith.
From TxVerif Require Import Lib.Bytes Lib.NList Lib.Verdict Spec.C07 Model.State Check.C07_dec.
Import ListNotations.

Record case := { k_in : bytes; k_obs : bytes }.

(* an undecodable case file is a harness bug and must not pass silently: VDiff *)
Definition check (k : case) : verdict :=
  match decode_input2 (k_in k), decode_obs2 (k_obs k) with
  | Some (rts, snap, evs), Some tr =>
      if legal2 snap evs then
        mk_verdict (match run2 rts snap evs with
                    | Some m => Some (list_eqb obs2_eqb m tr)
                    | None => None
                    end) (oracle2 snap evs tr)
      else VSkip        (* not a history Tor can emit: outside the quantifier, never generated *)
  | _, _ => VDiff
  end.
