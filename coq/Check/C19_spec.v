From Coq Require Import List Bool Ascii NArith.
From TxVerif Require Import Lib.Bytes Lib.Verdict Spec.C19.
Import ListNotations.

Record case := { k_cfg : cfg; k_ops : list op; k_obs : list (list obs) }.

Definition check (k : case) : verdict :=
  if negb (wf (k_ops k)) then VSkip else
  mk_verdict None (oracle (k_cfg k) (k_ops k) (k_obs k)).
