(* per-case verdict for C04: model trace = implementation trace, and the oracle on the
   implementation's own trace *)
From Coq Require Import List Bool Ascii NArith.
From TxVerif Require Import Lib.Bytes Lib.Verdict Spec.C04 Spec.C04Oracle Model.Auth.
Import ListNotations.

Record case := { k_env : env; k_ops : list op; k_tab : list (bytes * bytes * bytes);
                 k_wire : option bytes;      (* the escaped COOKIEFILE text the harness sent *)
                 k_obs : list (list ev) }.

Definition check (k : case) : verdict :=
  let h := tab_hmac (k_tab k) in
  let o := oracle h (k_env k) (k_ops k) (k_obs k) in
  let wire_ok := option_eqb beqb (omap esc_for_log (pi_cookiefile (e_pi (k_env k)))) (k_wire k) in
  match run h (k_env k) (k_ops k) with
  | None => mk_verdict None o
  | Some tr => mk_verdict (Some (list_eqb (list_eqb ev_eqb) tr (k_obs k) && wire_ok)) o
  end.
