From Coq Require Import List Bool Ascii Arith NArith.
From TxVerif Require Import Lib.Bytes Lib.Verdict Spec.C16 Model.Consensus.
Import ListNotations.

(* k_f2: the harness's own evaluation of the finding predicate (mirror check) *)
Record case := { k_docs : list (doc * list bytes); k_f2 : bool; k_obs : list view;
                 k_codec : list cobs }.

Definition robs_eqb (a b : robs) : bool :=
  Nat.eqb (o_num a) (o_num b) && beqb (o_name a) (o_name b) && beqb (o_idhash a) (o_idhash b)
  && beqb (o_idhex a) (o_idhex b) && beqb (o_ip a) (o_ip b) && beqb (o_orport a) (o_orport b)
  && beqb (o_dirport a) (o_dirport b) && list_eqb beqb (o_v6 a) (o_v6 b)
  && list_eqb beqb (o_flags a) (o_flags b) && N.eqb (o_bw a) (o_bw b) && Bool.eqb (o_fromc a) (o_fromc b).
Definition lres_eqb (a b : lres) : bool :=
  match a, b with
  | LFound x, LFound y => Nat.eqb x y
  | LNoneVal, LNoneVal | LMissing, LMissing | LOther, LOther => true
  | _, _ => false
  end.
Definition pair_eqb {V} (f : V -> V -> bool) (a b : bytes * V) : bool := beqb (fst a) (fst b) && f (snd a) (snd b).
(* all_routers is a Python set: compared as a set; dicts are compared with their order *)
Definition view_eqb (a b : view) : bool :=
  list_eqb robs_eqb (v_objs a) (v_objs b) && same_set (v_all a) (v_all b)
  && list_eqb (pair_eqb (option_eqb Nat.eqb)) (v_routers a) (v_routers b)
  && list_eqb (pair_eqb (list_eqb Nat.eqb)) (v_byname a) (v_byname b)
  && list_eqb (pair_eqb Nat.eqb) (v_byhash a) (v_byhash b)
  && list_eqb (pair_eqb Nat.eqb) (v_guards a) (v_guards b)
  && list_eqb (pair_eqb Nat.eqb) (v_auths a) (v_auths b)
  && list_eqb (pair_eqb lres_eqb) (v_lookups a) (v_lookups b)
  && N.eqb (v_exn a) (v_exn b).

(* outside the envelope (VSkip, whatever the oracle says: such a case is not an input of C16):
   an ill-formed document or an extra key naming an unknown fingerprint; or the model leaves its envelope.
   The Python mirror of the finding predicate must agree with Spec.C16 (else VDiff). *)
Definition cobs_eqb (a b : cobs) : bool :=
  beqb (co_id a) (co_id b) && option_eqb beqb (co_hex a) (co_hex b) && option_eqb beqb (co_b64 a) (co_b64 b)
  && option_eqb beqb (co_b64n a) (co_b64n b).

Definition check (k : case) : verdict :=
  let o := oracle (map fst (k_docs k)) (k_obs k) && forallb codec_ok (k_codec k) in
  let preds := Bool.eqb (existsb (fun dx => doc_dup_authority_nick (fst dx)) (k_docs k)) (k_f2 k) in
  if negb (forallb input_ok (k_docs k)) then VSkip else
  match run (k_docs k) with
  | None => mk_verdict None o
  | Some vs => mk_verdict (Some (list_eqb view_eqb vs (k_obs k) && preds
                                 && list_eqb cobs_eqb (map (fun c => codec_run (co_id c)) (k_codec k)) (k_codec k))) o
  end.
