From Coq Require Import List Bool Ascii NArith.
From TxVerif Require Import Lib.Bytes Lib.NList Lib.Verdict Spec.C07 Check.C07_dec.
Import ListNotations.

Record case := { k_in : bytes; k_obs : bytes }.

Definition check (k : case) : verdict :=
  match decode_input2 (k_in k), decode_obs2 (k_obs k) with
  | Some (rts, snap, evs), Some tr =>
      if legal2 snap evs then mk_verdict None (oracle2 snap evs tr) else VSkip
  | _, _ => VSpec
  end.
