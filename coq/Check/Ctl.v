(* shared by Check/C01, C02, C03: running the model and the reference on a case *)
From Coq Require Import List Bool Ascii Arith NArith.
From TxVerif Require Import Lib.Bytes Lib.Verdict Spec.Ctl Spec.CtlOracle Model.CtlProto.
Import ListNotations.

Record ccase := { k_ops : list op; k_lbehs : list (N * lbeh); k_items : list item; k_obs : list (list obs) }.

Definition model_run (k : ccase) : list (list obs) := run (k_lbehs k) init (k_ops k).
Definition has_oos (tr : list (list obs)) : bool :=
  existsb (existsb (fun o => match o with OutOfScope => true | _ => false end)) tr.
Definition traces_eqb (a b : list (list obs)) : bool := list_eqb (list_eqb obs_eqb) a b.

Definition check_with (sel : judged -> bool) (k : ccase) : verdict :=
  let j := judge (k_lbehs k) (k_items k) (k_ops k) (k_obs k) in
  if j_skip j then VSkip else
  let m := model_run k in
  if has_oos m then VSkip else mk_verdict (Some (traces_eqb m (k_obs k))) (sel j).
