From Coq Require Import List Bool Ascii NArith.
From TxVerif Require Import Lib.Bytes Lib.Verdict Spec.C09 Model.Attach.
Import ListNotations.

Record case := { k_ops : list op; k_obs : list (list ev) }.

(* model vs implementation, and the oracle on the implementation's own trace;
   a history outside the envelope (Spec.C09.wf) or one that drives the model out of scope is skipped *)
Definition check (k : case) : verdict :=
  if negb (wf (k_ops k)) || run_oos (k_ops k) then mk_verdict None true else
  let m := list_eqb (list_eqb ev_eqb) (run (k_ops k)) (k_obs k) in
  mk_verdict (Some m) (oracle (k_ops k) (k_obs k)).
