(* per-case verdict for C17; used by the generated cases files *)
From Coq Require Import List Bool Arith NArith.
From TxVerif Require Import Lib.Bytes Lib.ListSet Lib.Verdict Spec.C15 Spec.C17 Model.DescUpload Model.Listen.
Import ListNotations.

(* k_preds: the finding predicates as evaluated by the Python mirror (drive_C17.finding_preds) *)
Record case := { k_cfg : cfg; k_ops : list lop; k_obs : list lrec; k_preds : list bool }.

Definition preds (k : case) : list bool :=
  [disconnect_while_waiting (k_cfg k) (k_ops k); stealth_several_clients (k_cfg k);
   directory_already_configured (k_cfg k)].

Definition check (k : case) : verdict :=
  if negb (wf (k_cfg k) (k_ops k)) then VSkip else
  let m := ltrace_eqb (lrun (k_cfg k) (k_ops k)) (k_obs k)
           && list_eqb Bool.eqb (preds k) (k_preds k) in
  mk_verdict (Some m) (oracle (k_cfg k) (k_ops k) (k_obs k)).
