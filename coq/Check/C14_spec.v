(* oracle-only verdict for C14 (used when Model/ or Gen/ does not build) *)
From Coq Require Import List Bool Ascii NArith.
From TxVerif Require Import Lib.Bytes Lib.Verdict Spec.TorGrammar Spec.C14.
Import ListNotations.

Record case := { k_q : request; k_reply : reply; k_obs : list (list ev);
                 k_hostile : bool (* the harness's own evaluation of the finding predicate *) }.

Definition check (k : case) : verdict := mk_verdict None (oracle (k_q k) (k_reply k) (k_obs k)).
