(* per-case verdict for C14; used by the generated cases files *)
From Coq Require Import List Bool Ascii NArith.
From TxVerif Require Import Lib.Bytes Lib.Verdict Spec.TorGrammar Spec.C14 Model.AddOnion.
Import ListNotations.

Record case := { k_q : request; k_reply : reply; k_obs : list (list ev);
                 k_hostile : bool (* the harness's own evaluation of the finding predicate *) }.

Definition check (k : case) : verdict :=
  let o := oracle (k_q k) (k_reply k) (k_obs k) in
  if negb (Bool.eqb (hostile_linebreak (k_q k)) (k_hostile k)) then mk_verdict (Some false) o else
  match run (k_q k) (k_reply k) with
  | None => mk_verdict None o
  | Some tr => mk_verdict (Some (list_eqb (list_eqb ev_eqb) tr (k_obs k))) o
  end.
