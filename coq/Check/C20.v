From Coq Require Import List Bool Ascii NArith ZArith.
From TxVerif Require Import Lib.Bytes Lib.Verdict Spec.C20 Model.AddrMap.
Import ListNotations.

(* k_flags: the two open finding predicates as computed by the Python mirror
   (key_collision, stale_lookup); a mirror that disagrees counts as a difference *)
Record case := { k_ops : list op; k_obs : list (list obs); k_flags : bool * bool }.

Definition flags_of (h : list op) : bool * bool := (key_collision h, stale_lookup h).
Definition flags_eqb (a b : bool * bool) : bool :=
  let '(a1, a2) := a in let '(b1, b2) := b in Bool.eqb a1 b1 && Bool.eqb a2 b2.

Definition check (k : case) : verdict :=
  if negb (in_scope (k_ops k)) then VSkip else
  let m := match run (k_ops k) with
           | Some tr => list_eqb chunk_eqb tr (k_obs k) && flags_eqb (flags_of (k_ops k)) (k_flags k)
           | None => false
           end in
  mk_verdict (Some m) (oracle (k_ops k) (k_obs k)).
