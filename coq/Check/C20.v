From Coq Require Import List Bool Ascii NArith ZArith.
From TxVerif Require Import Lib.Bytes Lib.Verdict Spec.C20 Model.AddrMap.
Import ListNotations.

(* k_flags: the two open finding predicates as computed by the Python mirror
   [key_collision; stale_lookup]; a mirror that disagrees counts as a difference *)
Record case := { k_ops : list op; k_obs : list (list obs); k_flags : list bool }.

Definition flags_of (h : list op) : list bool := [key_collision h; stale_lookup h].
Definition flags_eqb (a b : list bool) : bool := list_eqb Bool.eqb a b.

Definition check (k : case) : verdict :=
  if negb (in_scope (k_ops k)) then VSkip else
  let m := match run (k_ops k) with
           | Some tr => list_eqb chunk_eqb tr (k_obs k) && flags_eqb (flags_of (k_ops k)) (k_flags k)
           | None => false
           end in
  mk_verdict (Some m) (oracle (k_ops k) (k_obs k)).
