From Coq Require Import List Bool Ascii Arith NArith.
From TxVerif Require Import Lib.Bytes Lib.Verdict Spec.Ctl Spec.CtlOracle Spec.C03Cancel.
From TxVerif Require Export Check.CtlSpecOnly.
Import ListNotations.

Inductive case :=
| KSess (k : ccase)
| KCancel (ops : list qop) (obs : list (list qev)).

Definition check (k : case) : verdict :=
  match k with
  | KSess c => check_with j_c03 c
  | KCancel ops obs =>
      match q_oracle ops obs with
      | None => VSkip
      | Some ok => mk_verdict None ok
      end
  end.
