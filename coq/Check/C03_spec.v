From Coq Require Import List Bool Ascii Arith NArith.
From TxVerif Require Import Lib.Bytes Lib.Verdict Spec.Ctl Spec.CtlOracle.
From TxVerif Require Export Check.CtlSpecOnly.
Definition case := ccase.
Definition check (k : case) : verdict := check_with j_c03 k.
