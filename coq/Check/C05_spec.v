From Coq Require Import List Bool Ascii NArith.
From TxVerif Require Import Lib.Bytes Lib.Verdict Spec.Rfc1928 Spec.C06 Spec.C05.
Import ListNotations.

Record case := { k_ty : rtype; k_t : target; k_port : N; k_chunks : list bytes; k_lost : bool;
                 k_obs : list (list ev) }.

Definition check (k : case) : verdict :=
  mk_verdict None (oracle (k_ty k) (k_chunks k) (k_lost k) (k_obs k)).
