From Coq Require Import List Bool Ascii Arith NArith.
From TxVerif Require Import Lib.Bytes Lib.Verdict Spec.Ctl Spec.CtlOracle Model.CtlProto.
From TxVerif Require Export Check.Ctl.
Definition case := ccase.
Definition check (k : case) : verdict := check_with j_c01 k.
