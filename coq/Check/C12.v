(* per-case verdict for C12; used by the generated cases files *)
From Coq Require Import List Bool Ascii NArith ZArith.
From TxVerif Require Import Lib.Bytes Lib.Verdict Spec.TorGrammar Spec.C12 Model.SetConf.
Import ListNotations.

Record case := { k_ops : list op; k_obs : list (list ev) }.

Definition check (k : case) : verdict :=
  let o := oracle (k_ops k) (k_obs k) in
  match run (k_ops k) with
  | None => mk_verdict None o
  | Some tr => mk_verdict (Some (list_eqb (list_eqb ev_eqb) tr (k_obs k))) o
  end.
