(* oracle-only verdict for C04 (no Model/, no Gen/) *)
From Coq Require Import List Bool Ascii NArith.
From TxVerif Require Import Lib.Bytes Lib.Verdict Spec.C04 Spec.C04Oracle.
Import ListNotations.

Record case := { k_env : env; k_ops : list op; k_tab : list (bytes * bytes * bytes);
                 k_wire : option bytes; k_obs : list (list ev) }.

Definition check (k : case) : verdict :=
  mk_verdict None (oracle (tab_hmac (k_tab k)) (k_env k) (k_ops k) (k_obs k)).
