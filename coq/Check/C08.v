From Coq Require Import List Bool Ascii NArith.
From TxVerif Require Import Lib.Bytes Lib.NList Lib.Verdict Spec.C07 Spec.C08 Model.State Model.StateNotify Check.C07_dec Check.C08_dec.
Import ListNotations.

Record case := { k_in : bytes; k_obs : bytes }.

Definition check (k : case) : verdict :=
  match decode_input8 (k_in k), decode_obs8 (k_obs k) with
  | Some (rts, ops), Some tr =>
      if legal8 ops then
        mk_verdict (match xrun rts ops with
                    | Some m => Some (list_eqb (list_eqb nev_eqb) m tr)
                    | None => None
                    end) (oracle8 ops tr)
      else VSkip
  | _, _ => VDiff
  end.
