From Coq Require Import List Bool Ascii NArith.
From TxVerif Require Import Lib.Bytes Lib.Verdict Spec.Rfc1928 Spec.C06 Spec.C05 Model.Socks.
Import ListNotations.

Record case := { k_ty : rtype; k_t : target; k_port : N; k_chunks : list bytes; k_lost : bool;
                 k_obs : list (list ev) }.

Definition check (k : case) : verdict :=
  let m := list_eqb (list_eqb ev_eqb)
             (run {| c_ty := k_ty k; c_target := k_t k; c_port := k_port k |} (k_chunks k) (k_lost k)) (k_obs k) in
  mk_verdict (Some m) (oracle (k_ty k) (k_chunks k) (k_lost k) (k_obs k)).
