(* per-case verdict for C10; used by the generated cases files *)
From Coq Require Import String.
From Coq Require Import List Bool Ascii NArith ZArith.
From TxVerif Require Import Lib.Bytes Lib.Verdict Lib.CfgLib Spec.CfgTypes Spec.TorStore Spec.CfgOracle Spec.C10
  Model.Config.
Import ListNotations.

Record case := { k_in : cfg_input;
                 k_boot_ok : bool;            (* TorConfig.post_bootstrap fired with success *)
                 k_boot : list rres;          (* reads of every option right after bootstrap *)
                 k_obs : list obs;            (* one observation per operation *)
                 k_preds : list bool }.       (* the harness's mirror of the finding predicates *)

Definition preds_of (i : cfg_input) : list bool :=
  [emptied_list_saved i; edit_while_detached i; odd_element_saved i].

Definition check (k : case) : verdict :=
  if negb (c10_scope (k_in k)) then VSkip else
  let o := k_boot_ok k && oracle (k_in k) (k_obs k) in
  match model_run (k_in k) with
  | None => mk_verdict None o
  | Some (b, snap, tr) =>
      mk_verdict (Some (Bool.eqb b (k_boot_ok k) && list_eqb rres_eqb snap (k_boot k)
                        && list_eqb obs_eqb tr (k_obs k)
                        && list_eqb Bool.eqb (preds_of (k_in k)) (k_preds k))) o
  end.
