From Coq Require Import List Bool Ascii Arith NArith.
From TxVerif Require Import Lib.Bytes Lib.Verdict Spec.Ctl Spec.CtlOracle.
Import ListNotations.
Record ccase := { k_ops : list op; k_lbehs : list (N * lbeh); k_items : list item; k_obs : list (list obs) }.
Definition check_with (sel : judged -> bool) (k : ccase) : verdict :=
  let j := judge (k_lbehs k) (k_items k) (k_ops k) (k_obs k) in
  if j_skip j then VSkip else mk_verdict None (sel j).
