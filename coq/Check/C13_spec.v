From Coq Require Import List Bool Ascii Arith NArith.
From TxVerif Require Import Lib.Bytes Lib.Verdict Spec.Ctl Spec.C13.
Import ListNotations.
Record case := { r_req : request; r_obs : obs13 }.
Definition check (k : case) : verdict :=
  if negb (wf_request_wide (r_req k)) then VSkip else mk_verdict None (oracle (r_req k) (r_obs k)).
