(* per-case verdict for C18: model vs implementation, and the Spec oracle on the implementation's
   own observation.  Also cross-checks the harness: the finding-class flag computed in Python and
   the final SocksPort configuration of the scripted Tor must equal what Spec/C18.v derives from
   the observed SETCONF lines. *)
From Coq Require Import List Bool Ascii NArith String.
From TxVerif Require Import Lib.Bytes Lib.Words Lib.Verdict Spec.C18 Model.SocksPort.
Import ListNotations.
Open Scope N_scope.

Record case := { k_scn : scenario;
                 k_picks : list endpoint;     (* resolution hints for the model (the endpoints the implementation returned) *)
                 k_obs : observation;
                 k_flag : bool;               (* harness's evaluation of the finding predicate of C18-F4 *)
                 k_final : reply }.           (* SocksPort of the scripted Tor after the history *)

Definition outcome_eqb (a b : outcome) : bool :=
  match a, b with
  | OEp x, OEp y => ep_eqb x y
  | OErr x, OErr y => x =? y
  | _, _ => false
  end.

Definition opobs_eqb (a b : opobs) : bool :=
  list_eqb beqb (sent a) (sent b) && outcome_eqb (out a) (out b).

Definition reply_eqb (a b : reply) : bool :=
  match a, b with
  | RDefault, RDefault => true
  | RVals x, RVals y => list_eqb beqb x y
  | _, _ => false
  end.

Definition cobs_eqb (a b : cobs) : bool :=
  list_eqb ep_eqb (attempts a) (attempts b) && cres_eqb (cresult a) (cresult b).

Definition check (k : case) : verdict :=
  if negb (wf (k_scn k)) then VSkip else
  let m :=
    match k_scn k, k_obs k with
    | SHist t ops, BHist obs =>
        list_eqb opobs_eqb (run t ops (k_picks k)) obs
        && Bool.eqb (flagged t ops obs) (k_flag k)
        && reply_eqb (sp (final_tor t ops obs)) (k_final k)
    | SClient g outs, BClient c => cobs_eqb (client_run g outs) c
    | _, _ => false
    end in
  mk_verdict (Some m) (oracle (k_scn k) (k_obs k)).
