(* packed byte literals for the per-run case files (never imported by a theorem file) *)
From Coq Require Import List Bool Ascii NArith ZArith Uint63.
From TxVerif Require Import Lib.Bytes.
Import ListNotations.

(* ---- packed literals: first word = length, then 7 bytes per word, big-endian,
        last word left-aligned. Used only by generated case files. ---- *)
Definition word_bytes (w : int) : bytes :=
  map (fun k => ascii_of_N (Z.to_N (to_Z ((w >> k) land 255)%uint63)))
      [48; 40; 32; 24; 16; 8; 0]%uint63.

Fixpoint pk_go (rem : N) (ws : list int) : bytes :=
  match ws with
  | [] => []
  | w :: ws' => if (7 <=? rem)%N then word_bytes w ++ pk_go (rem - 7)%N ws'
                else firstn (N.to_nat rem) (word_bytes w)
  end.

Definition pk (l : list int) : bytes :=
  match l with
  | [] => []
  | n :: ws => pk_go (Z.to_N (to_Z n)) ws
  end.

