(* helpers for the TorConfig properties (C10, C11): ASCII case folding, white space, decimal
   text of integers (via the standard library's Decimal, so that the round trip is a library
   lemma), insertion-ordered dictionaries keyed by byte strings (= Python dict semantics).
   No proofs here (see Proofs/CfgLibProofs.v). *)
From Coq Require Import List Bool Ascii Arith NArith ZArith.
From Coq Require Decimal DecimalN.
From TxVerif Require Import Lib.Bytes.
Import ListNotations.
Open Scope N_scope.

(* ---- characters ---- *)
Definition is_upper (a : ascii) : bool := (65 <=? code a) && (code a <=? 90).
Definition is_digit (a : ascii) : bool := (48 <=? code a) && (code a <=? 57).
Definition lower1 (a : ascii) : ascii := if is_upper a then ch (code a + 32) else a.
Definition lower (b : bytes) : bytes := map lower1 b.
(* equal up to ASCII case: how Tor (and TorConfig._find_real_name) compares option names *)
Definition ci_eqb (a b : bytes) : bool := beqb (lower a) (lower b).

(* Python's str.isspace() on latin-1 text restricted to ASCII: \t \n \v \f \r FS GS RS US space *)
Definition is_space (a : ascii) : bool :=
  let c := code a in ((9 <=? c) && (c <=? 13)) || ((28 <=? c) && (c <=? 32)).

Fixpoint lstrip (b : bytes) : bytes :=
  match b with
  | c :: r => if is_space c then lstrip r else b
  | [] => []
  end.
Definition strip (b : bytes) : bytes := rev (lstrip (rev (lstrip b))).

(* ---- splitting on one separator character (Python's s.split(c)) ---- *)
Fixpoint split_on (sep : ascii) (b : bytes) : list bytes :=
  match b with
  | [] => [[]]
  | c :: r =>
      if Ascii.eqb c sep then [] :: split_on sep r
      else match split_on sep r with
           | h :: t => (c :: h) :: t
           | [] => [[c]]
           end
  end.

(* ---- decimal text ---- *)
Fixpoint uint_bytes (u : Decimal.uint) : bytes :=
  match u with
  | Decimal.Nil => []
  | Decimal.D0 u => ch 48 :: uint_bytes u | Decimal.D1 u => ch 49 :: uint_bytes u | Decimal.D2 u => ch 50 :: uint_bytes u
  | Decimal.D3 u => ch 51 :: uint_bytes u | Decimal.D4 u => ch 52 :: uint_bytes u | Decimal.D5 u => ch 53 :: uint_bytes u
  | Decimal.D6 u => ch 54 :: uint_bytes u | Decimal.D7 u => ch 55 :: uint_bytes u | Decimal.D8 u => ch 56 :: uint_bytes u
  | Decimal.D9 u => ch 57 :: uint_bytes u
  end.

Definition digit_cons (a : ascii) : option (Decimal.uint -> Decimal.uint) :=
  let c := code a in
  if c =? 48 then Some Decimal.D0 else if c =? 49 then Some Decimal.D1 else if c =? 50 then Some Decimal.D2
  else if c =? 51 then Some Decimal.D3 else if c =? 52 then Some Decimal.D4 else if c =? 53 then Some Decimal.D5
  else if c =? 54 then Some Decimal.D6 else if c =? 55 then Some Decimal.D7 else if c =? 56 then Some Decimal.D8
  else if c =? 57 then Some Decimal.D9 else None.

Fixpoint bytes_uint (b : bytes) : option Decimal.uint :=
  match b with
  | [] => Some Decimal.Nil
  | c :: r => match digit_cons c, bytes_uint r with
              | Some d, Some u => Some (d u)
              | _, _ => None
              end
  end.

Definition dec_of_N (n : N) : bytes := uint_bytes (N.to_uint n).
Definition dec_of_Z (z : Z) : bytes :=
  match z with
  | Z0 => dec_of_N 0
  | Zpos p => dec_of_N (Npos p)
  | Zneg p => DASH :: dec_of_N (Npos p)
  end.

(* one or more ASCII digits *)
Definition parse_nat (b : bytes) : option N :=
  match b with
  | [] => None
  | _ => option_map N.of_uint (bytes_uint b)
  end.
(* optional '-', then one or more ASCII digits *)
Definition parse_int (b : bytes) : option Z :=
  match b with
  | c :: r => if Ascii.eqb c DASH then option_map (fun n => Z.opp (Z.of_N n)) (parse_nat r)
              else option_map Z.of_N (parse_nat b)
  | [] => None
  end.

(* ---- dictionaries keyed by byte strings, insertion ordered ---- *)
Section Dict.
  Context {A : Type}.
  Fixpoint dget (k : bytes) (d : list (bytes * A)) : option A :=
    match d with
    | [] => None
    | (k', v) :: t => if beqb k' k then Some v else dget k t
    end.
  (* d[k] = v: replaces in place, or appends *)
  Fixpoint dset (k : bytes) (v : A) (d : list (bytes * A)) : list (bytes * A) :=
    match d with
    | [] => [(k, v)]
    | (k', v') :: t => if beqb k' k then (k', v) :: t else (k', v') :: dset k v t
    end.
  Definition dmem (k : bytes) (d : list (bytes * A)) : bool :=
    match dget k d with Some _ => true | None => false end.
  Fixpoint ddel (k : bytes) (d : list (bytes * A)) : list (bytes * A) :=
    match d with
    | [] => []
    | (k', v') :: t => if beqb k' k then t else (k', v') :: ddel k t
    end.
  (* first key equal to [k] up to case *)
  Fixpoint dfind_ci (k : bytes) (d : list (bytes * A)) : option (bytes * A) :=
    match d with
    | [] => None
    | (k', v) :: t => if ci_eqb k' k then Some (k', v) else dfind_ci k t
    end.
End Dict.

Fixpoint mem_bytes (k : bytes) (l : list bytes) : bool :=
  match l with [] => false | x :: t => beqb x k || mem_bytes k t end.
Fixpoint mem_ci (k : bytes) (l : list bytes) : bool :=
  match l with [] => false | x :: t => ci_eqb x k || mem_ci k t end.
Fixpoint nodup_ci (l : list bytes) : bool :=
  match l with [] => true | x :: t => negb (mem_ci x t) && nodup_ci t end.

(* does [b] end with [s]; the part before *)
Definition suffixb (s b : bytes) : bool := prefixb (rev s) (rev b).
Definition drop_last (n : nat) (b : bytes) : bytes := firstn (length b - n) b.

Definition str (s : list N) : bytes := map ch s.
