(* finite sets of N as duplicate-free lists in first-insertion order (Python `set` used only through
   add / in / len / == / | ), with the few lemmas the onion-service proofs need *)
From Coq Require Import List Bool Arith NArith Lia.
Import ListNotations.

Fixpoint smem (x : N) (l : list N) : bool :=
  match l with [] => false | y :: l' => N.eqb x y || smem x l' end.

Definition sadd (x : N) (l : list N) : list N := if smem x l then l else l ++ [x].

Definition ssub (a b : list N) : bool := forallb (fun x => smem x b) a.

Definition sseteq (a b : list N) : bool := ssub a b && ssub b a.

Fixpoint sunion (a b : list N) : list N :=
  match b with [] => a | x :: b' => sunion (sadd x a) b' end.

Definition snonempty (a : list N) : bool := match a with [] => false | _ => true end.

Definition sdisjoint (a b : list N) : bool := forallb (fun x => negb (smem x b)) a.

Lemma smem_In x l : smem x l = true <-> In x l.
Proof.
  induction l as [|y l IH]; cbn; [split; [discriminate | tauto]|].
  rewrite orb_true_iff, IH, N.eqb_eq. split; intros [H|H]; auto.
Qed.

Lemma smem_false x l : smem x l = false <-> ~ In x l.
Proof.
  rewrite <- smem_In. destruct (smem x l); split; intros H; try discriminate; auto.
  exfalso; now apply H.
Qed.

Lemma In_sadd x y l : In y (sadd x l) <-> y = x \/ In y l.
Proof.
  unfold sadd. destruct (smem x l) eqn:E.
  - apply smem_In in E. split; [auto | intros [->|H]; auto].
  - rewrite in_app_iff; cbn. split; [intros [H|[H|[]]]; auto | intros [H|H]; auto].
Qed.

Lemma smem_sadd x y l : smem y (sadd x l) = N.eqb y x || smem y l.
Proof.
  destruct (smem y (sadd x l)) eqn:E.
  - apply smem_In, In_sadd in E. destruct E as [->|H].
    + now rewrite N.eqb_refl.
    + apply smem_In in H. rewrite H. now rewrite orb_true_r.
  - symmetry. apply orb_false_iff. split.
    + apply N.eqb_neq. intros ->. apply smem_false in E. apply E, In_sadd. now left.
    + apply smem_false. apply smem_false in E. intros H. apply E, In_sadd. now right.
Qed.

Lemma NoDup_sadd x l : NoDup l -> NoDup (sadd x l).
Proof.
  intros H. unfold sadd. destruct (smem x l) eqn:E; [exact H|].
  apply smem_false in E. apply NoDup_rev in H. rewrite <- (rev_involutive (l ++ [x])).
  apply NoDup_rev. rewrite rev_app_distr. cbn. constructor; [|exact H].
  now rewrite <- in_rev.
Qed.

Lemma ssub_incl a b : ssub a b = true <-> incl a b.
Proof.
  unfold ssub. rewrite forallb_forall. unfold incl. split; intros H x Hx.
  - now apply smem_In, H.
  - now apply smem_In, H.
Qed.

Lemma ssub_refl a : ssub a a = true.
Proof. apply ssub_incl, incl_refl. Qed.

Lemma In_sunion x a b : In x (sunion a b) <-> In x a \/ In x b.
Proof.
  revert a; induction b as [|y b IH]; intros a; cbn; [tauto|].
  rewrite IH, In_sadd. split; intros H; intuition (subst; auto).
Qed.

Lemma NoDup_sunion a b : NoDup a -> NoDup (sunion a b).
Proof.
  revert a; induction b as [|y b IH]; intros a H; cbn; [exact H|].
  now apply IH, NoDup_sadd.
Qed.

Lemma sdisjoint_spec a b : sdisjoint a b = true <-> (forall x, In x a -> ~ In x b).
Proof.
  unfold sdisjoint. rewrite forallb_forall. split; intros H x Hx.
  - apply smem_false. specialize (H x Hx). now apply negb_true_iff in H.
  - apply negb_true_iff, smem_false. now apply H.
Qed.

Lemma snonempty_In a : snonempty a = true <-> exists x, In x a.
Proof.
  destruct a as [|x a]; cbn; split; try discriminate.
  - intros [x []].
  - intros _. exists x. now left.
  - reflexivity.
Qed.

Lemma NoDup_app_disj {A} (f c : list A) :
  NoDup f -> NoDup c -> (forall x, In x f -> ~ In x c) -> NoDup (f ++ c).
Proof.
  induction f as [|x f IH]; cbn; intros Nf Nc D; [exact Nc|].
  inversion Nf as [|? ? Hx Nf']; subst. constructor.
  - rewrite in_app_iff. intros [H|H]; [now apply Hx|]. apply (D x); auto.
  - apply IH; auto.
Qed.

(* pigeonhole: two disjoint duplicate-free subsets of [a] whose sizes add up to |a| cover [a] *)
Lemma cover_by_count (a f c : list N) :
  NoDup f -> NoDup c -> incl f a -> incl c a ->
  (forall x, In x f -> ~ In x c) ->
  length f + length c = length a ->
  incl a (f ++ c).
Proof.
  intros Nf Nc If Ic D L.
  apply NoDup_length_incl.
  - apply NoDup_app_disj; auto.
  - rewrite app_length. lia.
  - intros x Hx. apply in_app_iff in Hx as [H|H]; auto.
Qed.
