(* a few Python str operations on strings of code points 0..255 *)
From Coq Require Import List Bool Ascii NArith.
From TxVerif Require Import Lib.Bytes.
Import ListNotations.
Open Scope N_scope.

(* str.isspace() of one character *)
Definition py_isspace (c : ascii) : bool :=
  let n := code c in
  ((9 <=? n) && (n <=? 13)) || ((28 <=? n) && (n <=? 32)) || (n =? 133) || (n =? 160).

Fixpoint py_lstrip (s : bytes) : bytes :=
  match s with
  | c :: r => if py_isspace c then py_lstrip r else s
  | [] => []
  end.

(* s.strip() *)
Definition py_strip (s : bytes) : bytes := rev (py_lstrip (rev (py_lstrip s))).

(* `p in s` for strings *)
Fixpoint infixb (p s : bytes) : bool :=
  prefixb p s || match s with [] => false | _ :: r => infixb p r end.
