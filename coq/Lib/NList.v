(* small executable helpers on lists of N and on lists of records keyed by an N
   (insertion-ordered: Python dict semantics).  No proofs here (see Proofs/NListProofs.v). *)
From Coq Require Import List Bool Arith NArith.
Import ListNotations.
Open Scope N_scope.

Fixpoint memN (x : N) (l : list N) : bool :=
  match l with [] => false | y :: t => (x =? y) || memN x t end.

Fixpoint countN (x : N) (l : list N) : nat :=
  match l with [] => O | y :: t => if x =? y then S (countN x t) else countN x t end.

Fixpoint nodupN (l : list N) : bool :=
  match l with [] => true | x :: t => negb (memN x t) && nodupN t end.

(* Python list.remove: the first occurrence *)
Fixpoint remove1 (x : N) (l : list N) : list N :=
  match l with [] => [] | y :: t => if x =? y then t else y :: remove1 x t end.

Fixpoint prefixN (p l : list N) : bool :=
  match p, l with
  | [], _ => true
  | x :: p', y :: l' => (x =? y) && prefixN p' l'
  | _ :: _, [] => false
  end.

Definition pair_eqb (a b : N * N) : bool := (fst a =? fst b) && (snd a =? snd b).

Section Keyed.
  Context {A : Type} (key : A -> N).
  Fixpoint kfind (k : N) (l : list A) : option A :=
    match l with [] => None | x :: t => if key x =? k then Some x else kfind k t end.
  (* dict[k] = x : replace in place, or append *)
  Fixpoint kset (x : A) (l : list A) : list A :=
    match l with
    | [] => [x]
    | y :: t => if key y =? key x then x :: t else y :: kset x t
    end.
  (* del dict[k] *)
  Fixpoint kdel (k : N) (l : list A) : list A :=
    match l with [] => [] | y :: t => if key y =? k then t else y :: kdel k t end.
  Definition kmem (k : N) (l : list A) : bool :=
    match kfind k l with Some _ => true | None => false end.
End Keyed.

Definition sum_nat (l : list nat) : nat := fold_right Nat.add O l.

(* tables keyed by a number (insertion ordered, first entry wins) *)
Section Tables.
  Context {V : Type}.
  Definition tget (d : V) (t : list (N * V)) (k : N) : V := match kfind fst k t with Some p => snd p | None => d end.
  Definition tfind (t : list (N * V)) (k : N) : option V := option_map snd (kfind fst k t).
  Definition tset (t : list (N * V)) (k : N) (v : V) : list (N * V) := kset fst (k, v) t.
  Definition tdel (t : list (N * V)) (k : N) : list (N * V) := kdel fst k t.
End Tables.
