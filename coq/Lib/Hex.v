(* hexadecimal text <-> bytes (binascii.hexlify / b2a_hex / base64.b16encode / b16decode) *)
From Coq Require Import List Bool Ascii NArith Lia.
From TxVerif Require Import Lib.Bytes.
Import ListNotations.
Open Scope N_scope.

(* one hex digit, lower / upper case *)
Definition hexdig (upper : bool) (n : N) : ascii :=
  if n <? 10 then ch (48 + n) else if upper then ch (55 + n) else ch (87 + n).

Definition hex_byte (upper : bool) (a : ascii) : bytes :=
  [hexdig upper (code a / 16); hexdig upper (code a mod 16)].

Fixpoint hex (upper : bool) (b : bytes) : bytes :=
  match b with
  | [] => []
  | a :: b' => hex_byte upper a ++ hex upper b'
  end.

Definition hex_lower := hex false.     (* hexlify, b2a_hex *)
Definition hex_upper := hex true.      (* base64.b16encode *)

(* value of a hex digit; [strict] = upper case only (base64.b16decode without casefold) *)
Definition unhexdig (strict : bool) (a : ascii) : option N :=
  let c := code a in
  if (48 <=? c) && (c <=? 57) then Some (c - 48)
  else if (65 <=? c) && (c <=? 70) then Some (c - 55)
  else if negb strict && (97 <=? c) && (c <=? 102) then Some (c - 87)
  else None.

Fixpoint unhex (strict : bool) (t : bytes) : option bytes :=
  match t with
  | [] => Some []
  | [_] => None
  | h :: l :: t' =>
      match unhexdig strict h, unhexdig strict l, unhex strict t' with
      | Some x, Some y, Some r => Some (ch (16 * x + y) :: r)
      | _, _, _ => None
      end
  end.

Definition unhex_ci := unhex false.     (* either case: what Tor accepts *)
Definition b16decode := unhex true.     (* Python's base64.b16decode(s) *)

Lemma unhex_hex_byte : forall u s a, (s = true -> u = true) ->
  forall r, unhex s (hex_byte u a ++ r) =
            match unhex s r with Some r' => Some (a :: r') | None => None end.
Proof.
  intros u s a Hs r.
  assert (H : forall a, (unhexdig s (hexdig u (code a / 16)) = Some (code a / 16)
                   /\ unhexdig s (hexdig u (code a mod 16)) = Some (code a mod 16))
                   /\ ch (16 * (code a / 16) + code a mod 16) = a).
  { destruct u, s; try (specialize (Hs eq_refl); discriminate);
      intros [[] [] [] [] [] [] [] []]; vm_compute; repeat split; reflexivity. }
  destruct (H a) as [[H1 H2] H3].
  change (hex_byte u a ++ r) with (hexdig u (code a / 16) :: hexdig u (code a mod 16) :: r).
  cbn [unhex]. rewrite H1, H2, H3. reflexivity.
Qed.

Lemma unhex_hex : forall u s b, (s = true -> u = true) -> unhex s (hex u b) = Some b.
Proof.
  intros u s b Hs. induction b as [|a b IH]; [reflexivity|].
  cbn [hex]. rewrite (unhex_hex_byte u s a Hs). rewrite IH. reflexivity.
Qed.

Lemma unhex_ci_lower b : unhex_ci (hex_lower b) = Some b.
Proof. apply unhex_hex. discriminate. Qed.
Lemma unhex_ci_upper b : unhex_ci (hex_upper b) = Some b.
Proof. apply unhex_hex. discriminate. Qed.
Lemma b16decode_upper b : b16decode (hex_upper b) = Some b.
Proof. apply unhex_hex. reflexivity. Qed.

Lemma hex_length u b : length (hex u b) = (2 * length b)%nat.
Proof. induction b as [|a b IH]; cbn [hex hex_byte app length]; lia. Qed.
