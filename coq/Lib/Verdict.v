(* verdict tokens printed by the per-run case files and read back by the harness *)
From Coq Require Import List Bool.
Import ListNotations.

Inductive verdict := VOk | VDiff | VSpec | VBoth | VSkip.

(* model_agrees: None = model out of scope on this case *)
Definition mk_verdict (model_agrees : option bool) (oracle_ok : bool) : verdict :=
  match model_agrees, oracle_ok with
  | None, true => VSkip
  | None, false => VSpec
  | Some true, true => VOk
  | Some true, false => VSpec
  | Some false, true => VDiff
  | Some false, false => VBoth
  end.
