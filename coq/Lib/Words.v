(* small text helpers on bytes: first word of a line, splitting at a character, decimal digits.
   Plain string-library functions (used by Spec/C18.v and Model/SocksPort.v). *)
From Coq Require Import List Bool Ascii NArith Lia.
From TxVerif Require Import Lib.Bytes.
Import ListNotations.
Open Scope N_scope.

Definition is_sp (c : ascii) : bool := Ascii.eqb c SP.

Fixpoint drop_sp (l : bytes) : bytes :=
  match l with
  | c :: l' => if is_sp c then drop_sp l' else l
  | [] => []
  end.

(* the characters before the first space *)
Fixpoint until_sp (l : bytes) : bytes :=
  match l with
  | c :: l' => if is_sp c then [] else c :: until_sp l'
  | [] => []
  end.

(* Python: l.split()[0] for a line whose only whitespace is the space character
   (the empty word stands for "no word at all") *)
Definition first_word (l : bytes) : bytes := until_sp (drop_sp l).

Definition has_char (c : ascii) (l : bytes) : bool := memb c l.

(* Python: l.split(c, 1) when c occurs in l: text before and after the first c *)
Fixpoint split_at (c : ascii) (l : bytes) : option (bytes * bytes) :=
  match l with
  | [] => None
  | x :: l' => if Ascii.eqb x c then Some ([], l')
               else match split_at c l' with
                    | Some (a, b) => Some (x :: a, b)
                    | None => None
                    end
  end.

Definition is_digit (c : ascii) : bool := (48 <=? code c) && (code c <=? 57).

(* non-empty and only 0..9 *)
Definition all_digits (l : bytes) : bool :=
  match l with [] => false | _ => forallb is_digit l end.

Definition digits_val (l : bytes) : N :=
  fold_left (fun acc c => acc * 10 + (code c - 48)) l 0.

(* decimal text as Tor (and Python's str) prints a number: no sign, no leading zero *)
Definition canonical_dec (l : bytes) : bool :=
  all_digits l && match l with
                  | c :: _ :: _ => negb (Ascii.eqb c (ch 48))
                  | _ => true
                  end.

Definition isnil {A} (l : list A) : bool := match l with [] => true | _ => false end.

Definition to_lower (c : ascii) : ascii :=
  if (65 <=? code c) && (code c <=? 90) then ch (code c + 32) else c.
Definition lower (l : bytes) : bytes := map to_lower l.

(* ---- lemmas ---- *)
Lemma memb_sp_cons c l : memb SP (c :: l) = is_sp c || memb SP l.
Proof. cbn [memb]. unfold is_sp. now rewrite (Ascii.eqb_sym SP c). Qed.

Lemma until_sp_no_sp l : memb SP (until_sp l) = false.
Proof.
  induction l as [|c l IH]; [reflexivity|].
  cbn [until_sp]. destruct (is_sp c) eqn:E; [reflexivity|].
  rewrite memb_sp_cons, E. exact IH.
Qed.

Lemma first_word_no_sp l : memb SP (first_word l) = false.
Proof. apply until_sp_no_sp. Qed.

Lemma until_sp_id l : memb SP l = false -> until_sp l = l.
Proof.
  induction l as [|c l IH]; [reflexivity|].
  rewrite memb_sp_cons. cbn [until_sp]. destruct (is_sp c); cbn; [discriminate|].
  intros H. now rewrite IH.
Qed.

Lemma drop_sp_id l : memb SP l = false -> drop_sp l = l.
Proof.
  destruct l as [|c l]; [reflexivity|].
  rewrite memb_sp_cons. cbn [drop_sp]. destruct (is_sp c); cbn; [discriminate|reflexivity].
Qed.

Lemma first_word_id l : memb SP l = false -> first_word l = l.
Proof. intros H. unfold first_word. rewrite drop_sp_id by exact H. now apply until_sp_id. Qed.

Lemma first_word_idem l : first_word (first_word l) = first_word l.
Proof. apply first_word_id, first_word_no_sp. Qed.
