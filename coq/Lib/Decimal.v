(* decimal text of integers, as Python's str(int) prints them *)
From Coq Require Import List Bool Ascii NArith ZArith.
From TxVerif Require Import Lib.Bytes.
Import ListNotations.
Open Scope N_scope.

Fixpoint dec_go (fuel : nat) (n : N) (acc : bytes) : bytes :=
  match fuel with
  | O => acc
  | S f => let acc' := ch (48 + n mod 10) :: acc in
           if n <? 10 then acc' else dec_go f (n / 10) acc'
  end.

(* a number has at most as many decimal digits as binary digits *)
Definition dec_of_N (n : N) : bytes := dec_go (S (N.to_nat (N.size n))) n [].

Definition dec_of_Z (z : Z) : bytes :=
  match z with
  | Z0 => dec_of_N 0
  | Zpos p => dec_of_N (Npos p)
  | Zneg p => DASH :: dec_of_N (Npos p)
  end.
