(* bytes = list ascii; small list helpers *)
From Coq Require Import List Bool Ascii NArith Lia.
Import ListNotations.

Definition bytes := list ascii.
Definition ch (n : N) : ascii := ascii_of_N n.
Definition code (a : ascii) : N := N_of_ascii a.

Definition CR : ascii := ch 13.
Definition LF : ascii := ch 10.
Definition SP : ascii := ch 32.
Definition TAB : ascii := ch 9.
Definition DQ : ascii := ch 34.
Definition BSL : ascii := ch 92.
Definition EQC : ascii := ch 61.
Definition DOT : ascii := ch 46.
Definition DASH : ascii := ch 45.
Definition PLUS : ascii := ch 43.
Definition COMMA : ascii := ch 44.
Definition COLON : ascii := ch 58.

Fixpoint beqb (a b : bytes) : bool :=
  match a, b with
  | [], [] => true
  | x :: a', y :: b' => Ascii.eqb x y && beqb a' b'
  | _, _ => false
  end.

Lemma beqb_eq a b : beqb a b = true <-> a = b.
Proof.
  revert b; induction a as [|x a IH]; intros [|y b]; cbn; split; intros H; try congruence; try discriminate.
  - apply andb_true_iff in H as [H1 H2]. apply Ascii.eqb_eq in H1. apply IH in H2. congruence.
  - injection H as -> ->. rewrite Ascii.eqb_refl. cbn. now apply IH.
Qed.

Lemma beqb_refl a : beqb a a = true.
Proof. now apply beqb_eq. Qed.

Section ListEq.
  Context {A : Type} (eqA : A -> A -> bool).
  Fixpoint list_eqb (a b : list A) : bool :=
    match a, b with
    | [], [] => true
    | x :: a', y :: b' => eqA x y && list_eqb a' b'
    | _, _ => false
    end.
  Definition option_eqb (a b : option A) : bool :=
    match a, b with
    | Some x, Some y => eqA x y
    | None, None => true
    | _, _ => false
    end.
End ListEq.

Definition nlen {A} (l : list A) : N := N.of_nat (length l).

(* does [p] occur as a prefix of [l] *)
Fixpoint prefixb (p l : bytes) : bool :=
  match p, l with
  | [], _ => true
  | x :: p', y :: l' => Ascii.eqb x y && prefixb p' l'
  | _ :: _, [] => false
  end.

Fixpoint memb (a : ascii) (l : bytes) : bool :=
  match l with [] => false | x :: l' => Ascii.eqb a x || memb a l' end.

(* join with separator *)
Fixpoint join (sep : bytes) (ls : list bytes) : bytes :=
  match ls with
  | [] => []
  | [x] => x
  | x :: ls' => x ++ sep ++ join sep ls'
  end.
