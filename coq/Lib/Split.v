(* splitting byte strings on one character: Python's s.split(c) and s.split(c, 1) *)
From Coq Require Import List Bool Ascii NArith.
From TxVerif Require Import Lib.Bytes.
Import ListNotations.
Open Scope N_scope.

(* s.split(c): always at least one piece *)
Fixpoint split_all (c : ascii) (s : bytes) : list bytes :=
  match s with
  | [] => [[]]
  | x :: r =>
      if Ascii.eqb x c then [] :: split_all c r
      else match split_all c r with
           | h :: t => (x :: h) :: t
           | [] => [[x]]
           end
  end.

(* s.split(c, 1) when c occurs: (before the first c, after it) *)
Fixpoint split_first (c : ascii) (s : bytes) : option (bytes * bytes) :=
  match s with
  | [] => None
  | x :: r =>
      if Ascii.eqb x c then Some ([], r)
      else match split_first c r with
           | Some (a, b) => Some (x :: a, b)
           | None => None
           end
  end.

Definition is_digit (c : ascii) : bool := (48 <=? code c) && (code c <=? 57).

(* decimal number: one or more ASCII digits *)
Definition parse_dec (s : bytes) : option N :=
  match s with
  | [] => None
  | _ => fold_left (fun acc c => match acc with
                                 | Some n => if is_digit c then Some (n * 10 + (code c - 48)) else None
                                 | None => None
                                 end) s (Some 0)
  end.
