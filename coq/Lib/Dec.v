(* decimal rendering of N (what Python's str(int)/"%d" print) and the reader Tor applies to it *)
From Coq Require Import List Bool Ascii Arith NArith Lia.
From TxVerif Require Import Lib.Bytes.
Import ListNotations.
Open Scope N_scope.

Definition digit (d : N) : ascii := ch (48 + d).

Fixpoint dec_go (fuel : nat) (n : N) (acc : bytes) : bytes :=
  match fuel with
  | O => acc
  | S f => if n <? 10 then digit n :: acc else dec_go f (n / 10) (digit (n mod 10) :: acc)
  end.

(* n < 2^(size n), and every division by 10 at least halves *)
Definition dec (n : N) : bytes := dec_go (S (N.to_nat (N.size n))) n [].

Definition is_digit (a : ascii) : bool := (48 <=? code a) && (code a <=? 57).

Definition rd_step (acc : option N) (a : ascii) : option N :=
  match acc with
  | Some v => if is_digit a then Some (v * 10 + (code a - 48)) else None
  | None => None
  end.

(* a non-empty string of ASCII digits, read in base ten *)
Definition parse_dec (b : bytes) : option N :=
  match b with
  | [] => None
  | _ => fold_left rd_step b (Some 0)
  end.

Lemma code_digit d : d < 10 -> code (digit d) = 48 + d.
Proof.
  intros H. unfold code, digit, ch. rewrite N_ascii_embedding; [reflexivity | lia].
Qed.

Lemma is_digit_digit d : d < 10 -> is_digit (digit d) = true.
Proof.
  intros H. unfold is_digit. rewrite code_digit by exact H.
  apply andb_true_iff; split; apply N.leb_le; lia.
Qed.

Lemma rd_step_digit v d : d < 10 -> rd_step (Some v) (digit d) = Some (v * 10 + d).
Proof.
  intros H. unfold rd_step. rewrite is_digit_digit by exact H. rewrite code_digit by exact H.
  replace (48 + d - 48) with d by lia. reflexivity.
Qed.

Lemma dec_go_spec : forall fuel n acc, n < 2 ^ N.of_nat fuel -> (n <> 0 \/ fuel <> O) ->
  exists ds, dec_go fuel n acc = ds ++ acc /\ ds <> [] /\
             forall v, fold_left rd_step ds (Some v) = Some (v * 10 ^ N.of_nat (List.length ds) + n).
Proof.
  induction fuel as [|f IH]; intros n acc Hn Hnz.
  - cbn in Hn. assert (n = 0) by lia. subst. exfalso. destruct Hnz; congruence.
  - cbn [dec_go]. destruct (n <? 10) eqn:E.
    + apply N.ltb_lt in E. exists [digit n]. split; [reflexivity|]. split; [discriminate|].
      intros v. cbn [fold_left List.length]. rewrite rd_step_digit by exact E.
      change (N.of_nat 1) with 1. rewrite N.pow_1_r. reflexivity.
    + apply N.ltb_ge in E.
      assert (Hd : n / 10 < 2 ^ N.of_nat f).
      { rewrite Nat2N.inj_succ, N.pow_succ_r' in Hn.
        apply N.div_lt_upper_bound; lia. }
      assert (Hq : n / 10 <> 0).
      { intros Hz. apply N.div_small_iff in Hz; lia. }
      destruct (IH (n / 10) (digit (n mod 10) :: acc) Hd (or_introl Hq)) as (ds & Heq & Hne & Hval).
      exists (ds ++ [digit (n mod 10)]). split.
      { rewrite Heq, <- app_assoc. reflexivity. }
      split. { destruct ds; discriminate. }
      intros v. rewrite fold_left_app, Hval. cbn [fold_left].
      assert (Hm : n mod 10 < 10) by (apply N.mod_lt; lia).
      rewrite rd_step_digit by exact Hm. f_equal.
      rewrite app_length. cbn [List.length]. rewrite Nat.add_1_r, Nat2N.inj_succ, N.pow_succ_r'.
      pose proof (N.div_mod n 10 ltac:(lia)) as Hdm. lia.
Qed.

Theorem parse_dec_dec : forall n, parse_dec (dec n) = Some n.
Proof.
  intros n. unfold dec.
  assert (Hn : n < 2 ^ N.of_nat (S (N.to_nat (N.size n)))).
  { rewrite Nat2N.inj_succ, N2Nat.id, N.pow_succ_r'.
    destruct n as [|p]; [cbn; lia|].
    pose proof (N.size_gt (N.pos p)). lia. }
  destruct (dec_go_spec _ n [] Hn (or_intror (Nat.neq_succ_0 _))) as (ds & Heq & Hne & Hval).
  rewrite Heq, app_nil_r. unfold parse_dec. destruct ds as [|d ds']; [congruence|].
  rewrite Hval, N.mul_0_l. reflexivity.
Qed.

(* the rendering contains digits only (in particular no space, CR or LF) *)
Lemma dec_go_digits : forall fuel n acc, forallb is_digit acc = true -> forallb is_digit (dec_go fuel n acc) = true.
Proof.
  induction fuel as [|f IH]; intros n acc H; cbn [dec_go]; [exact H|].
  destruct (n <? 10) eqn:E.
  - apply N.ltb_lt in E. cbn [forallb]. rewrite is_digit_digit by exact E. exact H.
  - apply IH. cbn [forallb]. rewrite is_digit_digit; [exact H | apply N.mod_lt; lia].
Qed.

Lemma dec_digits n : forallb is_digit (dec n) = true.
Proof. apply dec_go_digits. reflexivity. Qed.

Lemma dec_nonempty n : dec n <> [].
Proof.
  intros H. pose proof (parse_dec_dec n) as P. rewrite H in P. discriminate.
Qed.
