from twisted.internet import defer


class FakeCP(object):
    "just enough of TorControlProtocol for _create_socks_endpoint"
    def __init__(self, socks_lines):
        self.socks_lines = socks_lines
        self.setconfs = []

    def get_conf(self, key):
        if not self.socks_lines:
            return defer.succeed({})
        v = self.socks_lines if len(self.socks_lines) > 1 else self.socks_lines[0]
        return defer.succeed({'SocksPort': v})

    def get_conf_single(self, key):
        return defer.succeed('9050')

    def set_conf(self, *args):
        self.setconfs.append(args)
        return defer.succeed('OK')


def result_of(d):
    res = []
    d.addBoth(res.append)
    assert len(res) == 1, 'Deferred did not fire'
    if hasattr(res[0], 'raiseException'):
        res[0].raiseException()
    return res[0]
