# D20a-e: AddrMap expiry handling
import sys, os, datetime
sys.path.insert(0, os.getcwd())
from twisted.internet import task
from twisted.internet.interfaces import IReactorTime
from txtorcon.addrmap import AddrMap

fmt = '%Y-%m-%d %H:%M:%S'
bad = []


def fresh():
    clock = task.Clock()
    am = AddrMap()
    am.scheduler = IReactorTime(clock)
    return clock, am


def line(name, ip, delta):
    if delta == 'NEVER':
        return '%s %s "NEVER"' % (name, ip)
    t = (datetime.datetime.utcnow() + datetime.timedelta(seconds=delta)).strftime(fmt)
    return '%s %s "%s" EXPIRES="%s"' % (name, ip, t, t)


# a: expiry two days ahead must not fire after one day
clock, am = fresh()
am.update(line('a.example.com', '10.0.0.1', 2 * 86400))
clock.advance(86400 + 60)
if 'a.example.com' not in am.addr:
    bad.append('a: 2-day mapping gone after 1 day')

# b: shortening update must shorten
clock, am = fresh()
am.update(line('b.example.com', '10.0.0.2', 3600))
am.update(line('b.example.com', '10.0.0.2', 1800))
clock.advance(1900)
if 'b.example.com' in am.addr:
    bad.append('b: mapping shortened to 30min still present after 1900s')

# c: after expiry neither key resolves
clock, am = fresh()
am.update(line('c.example.com', '10.0.0.3', 10))
clock.advance(20)
if 'c.example.com' in am.addr or '10.0.0.3' in am.addr:
    bad.append('c: keys left after expiry: %r' % (sorted(am.addr.keys()),))

# d: update to NEVER keeps the mapping
clock, am = fresh()
am.update(line('d.example.com', '10.0.0.4', 10))
am.update(line('d.example.com', '10.0.0.4', 'NEVER'))
clock.advance(20)
if 'd.example.com' not in am.addr:
    bad.append('d: mapping updated to NEVER vanished')

# e: <error> leaves nothing behind
clock, am = fresh()
am.update('e.invalid <error> "2013-04-03 08:28:52" error=yes EXPIRES="2013-04-03 06:28:52" CACHE="NO"')
if am.addr:
    bad.append('e: keys left after <error>: %r' % (sorted(am.addr.keys()),))
# e2: an <error> for an existing mapping drops it and its timer
clock, am = fresh()
am.update(line('e.example.com', '10.0.0.5', 100))
am.update('e.example.com <error> "2013-04-03 08:28:52" error=yes EXPIRES="2013-04-03 06:28:52"')
if am.addr or clock.getDelayedCalls():
    bad.append('e2: after <error> update keys=%r timers=%d' % (sorted(am.addr.keys()), len(clock.getDelayedCalls())))
else:
    try:
        clock.advance(200)
    except Exception as e:
        bad.append('e2: stale timer raised %r' % (e,))

for b in bad:
    print(b)
sys.exit(1 if bad else 0)
