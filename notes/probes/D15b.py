# D15b: await-all mode: UPLOAD D1, UPLOAD D2, UPLOADED D1, FAILED D2 must complete
import sys, os
sys.path.insert(0, os.getcwd())
from zope.interface import implementer
from txtorcon.onion import _await_descriptor_upload, IOnionService
from txtorcon.testutil import FakeControlProtocol


@implementer(IOnionService)
class Onion(object):
    hostname = 'service.onion'


proto = FakeControlProtocol([])
onion = Onion()
res = []
d = _await_descriptor_upload(proto, onion, None, True)
d.addBoth(res.append)
ev = proto.events['HS_DESC']
ev('UPLOAD service UNKNOWN D1 desc')
ev('UPLOAD service UNKNOWN D2 desc')
ev('UPLOADED service UNKNOWN D1')
if res:
    print('completed before every upload was settled: %r' % (res,))
    sys.exit(1)
ev('FAILED service UNKNOWN D2 desc REASON=UPLOAD_REJECTED')
if len(res) != 1 or hasattr(res[0], 'trap'):
    print('after UPLOADED D1 + FAILED D2 the wait gave: %r (expected completion)' % (res,))
    sys.exit(1)
sys.exit(0)
