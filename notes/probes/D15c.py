# D15c: all uploads fail -> HS_DESC listener must be removed again
import sys, os
sys.path.insert(0, os.getcwd())
from zope.interface import implementer
from txtorcon.onion import _await_descriptor_upload, IOnionService
from txtorcon.testutil import FakeControlProtocol


@implementer(IOnionService)
class Onion(object):
    hostname = 'service.onion'


proto = FakeControlProtocol([])
res = []
d = _await_descriptor_upload(proto, Onion(), None, False)
d.addBoth(res.append)
ev = proto.events['HS_DESC']
ev('UPLOAD service UNKNOWN D1 desc')
ev('FAILED service UNKNOWN D1 desc REASON=UPLOAD_REJECTED')
if len(res) != 1 or not hasattr(res[0], 'trap'):
    print('expected a failure, got %r' % (res,))
    sys.exit(1)
if 'HS_DESC' in proto.events:
    print('all uploads failed; HS_DESC listener still subscribed: %r' % (proto.events,))
    sys.exit(1)
sys.exit(0)
