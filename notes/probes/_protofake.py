from twisted.test import proto_helpers
from txtorcon import TorControlProtocol


def connected(events='NS STREAM CIRC DESCCHANGED CONF_CHANGED'):
    "a TorControlProtocol on a StringTransport, bootstrap skipped"
    proto = TorControlProtocol()
    proto.connectionMade = lambda: None
    transport = proto_helpers.StringTransport()
    proto.makeConnection(transport)
    proto._set_valid_events(events)
    return proto, transport


def listen(proto, transport, name, cb):
    "subscribe and answer the SETEVENTS (if one was needed)"
    d = proto.add_event_listener(name, cb)
    if not d.called:
        proto.dataReceived(b'250 OK\r\n')
    assert d.called
    transport.clear()
