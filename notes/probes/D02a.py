# D02a: multi-line / data-block event while a per-line-callback command is in flight
import sys, os
sys.path.insert(0, os.getcwd())
from _protofake import connected, listen

bad = []


# in a real Tor events can't interleave *inside* a reply; they arrive
# between replies, i.e. while the command is in flight but before its
# first reply line
def reference(event_bytes, evname):
    "what listeners get when a command without line callback is in flight"
    proto, transport = connected()
    got = []
    listen(proto, transport, evname, got.append)
    proto.get_info_raw('version')
    proto.dataReceived(event_bytes)
    assert len(got) == 1, got
    return got[0]


def scenario_before(event_bytes, evname, label):
    want_event = reference(event_bytes, evname)
    proto, transport = connected()
    got_events = []
    listen(proto, transport, evname, got_events.append)
    lines = []
    res = []
    d = proto.get_info_incremental('ns/all', lines.append)
    d.addBoth(res.append)
    proto.dataReceived(event_bytes)
    proto.dataReceived(b'250+ns/all=\r\nr one\r\nr two\r\n.\r\n250 OK\r\n')
    if got_events != [want_event]:
        bad.append('%s: event listeners got %r' % (label, got_events))
    if lines != ['ns/all=', 'r one', 'r two']:
        bad.append('%s: command line callback got %r' % (label, lines))
    if len(res) != 1:
        bad.append('%s: command result %r' % (label, res))


scenario_before(b'650+NS\r\nr relay A\r\ns Fast\r\n.\r\n650 OK\r\n', 'NS',
                'data-block event')
scenario_before(b'650-CONF_CHANGED\r\n650-Log=debug\r\n650 OK\r\n', 'CONF_CHANGED',
                'multi-line event')
scenario_before(b'650 STREAM 1 NEW 0 example.com:80\r\n', 'STREAM',
                'single-line event')

for b in bad:
    print(b)
sys.exit(1 if bad else 0)
