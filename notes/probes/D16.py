# D16a-c: a second consensus must replace, not accumulate, what we know of a relay
import sys, os
sys.path.insert(0, os.getcwd())
from txtorcon import TorState
from _protofake import connected

R1 = 'r relayone 2CGDscCeHXeV/y1xFrq1EGqj5g4 QX7NVLwx7pwCuk6s8sxB4rdaCKI 2011-12-20 08:34:19 84.19.178.6 9001 0'
R2 = 'r relaytwo YkkmgCNRV1/35OPWDvo7+1bmfoo tanLV/4ZfzpYQW0xtGFqAa46foo 2011-12-12 16:29:16 12.45.56.78 443 80'

first = '\n'.join([
    'ns/all=',
    R1, 'a [2001:db8::1]:4321', 's Authority Fast Guard Running Stable Valid', 'w Bandwidth=51500', 'p reject 1-65535',
    R2, 's Fast Guard Running Valid', 'w Bandwidth=100', 'p reject 1-65535',
])
# relayone: same 'a' line, lost Guard and Authority, no 'w' line; relaytwo left
second = '\n'.join([
    'ns/all=',
    R1, 'a [2001:db8::1]:4321', 's Fast Running Stable Valid',
])

proto, transport = connected()
state = TorState(proto, bootstrap=False)
state._update_network_status(first)
r1 = state.routers_by_name['relayone'][0]
assert r1.ip_v6 == ['[2001:db8::1]:4321'] and r1.bandwidth == 51500
assert sorted(r.name for r in state.guards.values()) == ['relayone', 'relaytwo']
assert list(state.authorities.keys()) == ['relayone']

state._update_network_status(second)
bad = []
r1b = state.routers_by_name['relayone'][0]
if r1b.ip_v6 != ['[2001:db8::1]:4321']:
    bad.append('a: ip_v6 after second consensus: %r' % (r1b.ip_v6,))
g = sorted(r.name for r in state.guards.values())
if g:
    bad.append('b: guards after second consensus: %r (expected none)' % (g,))
if state.authorities:
    bad.append('b: authorities after second consensus: %r (expected none)' % (sorted(state.authorities.keys()),))
if r1b.bandwidth != 0:
    bad.append('c: bandwidth with no w line in new consensus: %r (expected 0)' % (r1b.bandwidth,))

for b in bad:
    print(b)
sys.exit(1 if bad else 0)
