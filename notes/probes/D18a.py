# D18a: re-issued SETCONF must keep the flags of existing SocksPort lines
import sys, os
sys.path.insert(0, os.getcwd())
from unittest.mock import Mock
from txtorcon.endpoints import _create_socks_endpoint
from _socksfake import FakeCP, result_of

cp = FakeCP(['9150 IPv6Traffic PreferIPv6', 'unix:/tmp/s WorldWritable'])
ep = result_of(_create_socks_endpoint(Mock(), cp, socks_config='9999'))
want = ('SOCKSPort', '9150 IPv6Traffic PreferIPv6',
        'SOCKSPort', 'unix:/tmp/s WorldWritable',
        'SOCKSPort', '9999')
if cp.setconfs != [want]:
    print('SETCONF issued: %r\n       expected: %r' % (cp.setconfs, [want]))
    sys.exit(1)
if ep._port != 9999:
    print('endpoint port %r' % (ep._port,))
    sys.exit(1)
sys.exit(0)
