# D18c: create_socks_endpoint tests membership by substring
import sys, os
sys.path.insert(0, os.getcwd())
from unittest.mock import Mock
from _conffake import make_config

bad = []


def run(existing, ask):
    proto, cfg = make_config('SocksPort LineList', values=[{'SocksPort': existing}])
    res = []
    cfg.create_socks_endpoint(Mock(), ask).addBoth(res.append)
    assert len(res) == 1 and not hasattr(res[0], 'trap'), res
    return proto.sets, list(cfg.SocksPort)


sets, ports = run(['9050'], '90')
if ('SocksPort', '90') not in sets:
    bad.append("asked for '90' with '9050' configured: SETCONF %r, SocksPort %r" % (sets, ports))

# an existing port (with or without its options) is still recognised
sets, ports = run(['9150 IPv6Traffic PreferIPv6', '9155'], '9150')
if sets:
    bad.append("asked for existing '9150': SETCONF %r" % (sets,))
sets, ports = run(['9150', '9155'], '9155')
if sets:
    bad.append("asked for existing '9155': SETCONF %r" % (sets,))

for b in bad:
    print(b)
sys.exit(1 if bad else 0)
