# D08a: Stream.close() twice before CLOSED: both Deferreds must fire
import sys, os
sys.path.insert(0, os.getcwd())
from txtorcon import Stream
from _streamfake import Container

container = Container()
s = Stream(container)
s.update('9 NEW 0 example.com:80 SOURCE_ADDR=127.0.0.1:1234 PURPOSE=USER'.split())
r1, r2 = [], []


def note(lst):
    def cb(arg):
        lst.append(arg)
        return arg
    return cb


s.close().addBoth(note(r1))
s.close().addBoth(note(r2))
container.answer_closes()  # "250 OK" for CLOSESTREAM
if r1 or r2:
    print('close() fired before CLOSED: %r %r' % (r1, r2))
    sys.exit(1)
s.update('9 CLOSED 0 example.com:80 REASON=DONE'.split())
if len(r1) != 1 or len(r2) != 1:
    print('after CLOSED: first close() fired %d times, second %d times' % (len(r1), len(r2)))
    sys.exit(1)
if r1[0] is not s or r2[0] is not s:
    print('close() results: %r %r' % (r1, r2))
    sys.exit(1)
sys.exit(0)
