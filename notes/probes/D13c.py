# D13c: data-block lines: dot un-stuffing, and " ." is data, not the terminator
import sys, os
sys.path.insert(0, os.getcwd())
from _protofake import connected

bad = []

# a: a data line beginning with '.' is sent dot-stuffed by Tor
proto, transport = connected()
res = []
proto.get_info_raw('x').addBoth(res.append)
proto.dataReceived(b'250+x=\r\n..hidden\r\nplain\r\n...\r\n.\r\n250 OK\r\n')
if res != ['x=\n.hidden\nplain\n..']:
    bad.append('a: dot-stuffed lines: result %r' % (res,))

# b: the data line " ." does not end the block
proto, transport = connected()
res = []
proto.get_info_raw('x').addBoth(res.append)
try:
    proto.dataReceived(b'250+x=\r\nfirst\r\n .\r\nsecond\r\n.\r\n250 OK\r\n')
except Exception as e:
    bad.append('b: data line " ." then "second": raised %r' % (e,))
else:
    if res != ['x=\nfirst\n .\nsecond']:
        bad.append('b: data line " .": result %r' % (res,))

# c: same through the per-line callback
proto, transport = connected()
lines = []
proto.get_info_incremental('x', lines.append)
try:
    proto.dataReceived(b'250+x=\r\n..a\r\n .\r\nb\r\n.\r\n250 OK\r\n')
except Exception as e:
    bad.append('c: incremental: raised %r' % (e,))
else:
    if lines != ['x=', '.a', ' .', 'b']:
        bad.append('c: incremental: line callback got %r' % (lines,))

for b in bad:
    print(b)
sys.exit(1 if bad else 0)
