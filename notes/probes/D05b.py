# D05b: RESOLVE answered with an IPv6 address
import sys, os
sys.path.insert(0, os.getcwd())
from socket import inet_pton, AF_INET6
from txtorcon import socks

sm = socks._SocksMachine('RESOLVE', u'ipv6.example.com', 0)
res = []
sm.when_done().addBoth(res.append)
sm.connection()
sm.feed_data(b'\x05\x00')
try:
    sm.feed_data(b'\x05\x00\x00\x04' + inet_pton(AF_INET6, '2001:db8::1') + b'\x00\x00')
except Exception as e:
    print('RESOLVE answered with IPv6 raised %r' % (e,))
    sys.exit(1)
if res != ['2001:db8::1']:
    print('RESOLVE answered with IPv6 gave %r' % (res,))
    sys.exit(1)
sys.exit(0)
