# D06c: RESOLVE of a non-ASCII hostname must be refused (as CONNECT does)
import sys, os
sys.path.insert(0, os.getcwd())
from txtorcon import socks

sent = []
sm = socks._SocksMachine('RESOLVE', u'b\xfccher.example', 0, on_data=sent.append)
sm.connection()
try:
    sm.feed_data(b'\x05\x00')
except UnicodeEncodeError:
    sys.exit(0)
print('RESOLVE of non-ASCII name sent %r' % (sent[-1],))
sys.exit(1)
