#!/bin/sh
# usage: _step.sh <probe-id>   -> run probe on /tmp/fixwt and the suite
cd /tmp/fixwt && /venv/bin/python -W ignore /tmp/fixprobes/$1.py; echo "probe $1 exit $?"
git -C /tmp/fixwt diff --stat | tail -1
/tmp/fixprobes/_suite.sh | tail -4
