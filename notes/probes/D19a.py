# D19a: "Opening Control listener" split across two stdout chunks
import sys, os
sys.path.insert(0, os.getcwd())
from twisted.internet.defer import Deferred
from txtorcon.controller import TorProcessProtocol

calls = []


def creator():
    calls.append(1)
    return Deferred()


tpp = TorProcessProtocol(creator)
tpp.outReceived(b'Sep 30 00:00:00.000 [notice] Opening Contr')
tpp.outReceived(b'ol listener on 127.0.0.1:9151\n')
if len(calls) != 1:
    print('connection attempts after split line: %d (expected 1)' % len(calls))
    sys.exit(1)
# more output must not cause a second attempt
tpp.outReceived(b'Sep 30 00:00:01.000 [notice] Bootstrapped 5%\n')
if len(calls) != 1:
    print('connection attempts after further output: %d (expected 1)' % len(calls))
    sys.exit(1)
sys.exit(0)
