# D17a: ADD_ONION rejected during listen() must not leak the local listener
import sys, os
sys.path.insert(0, os.getcwd())
from zope.interface import implementer
from twisted.internet import defer
from twisted.internet.interfaces import IReactorTCP, IReactorCore, IListeningPort
from twisted.internet.address import IPv4Address
from twisted.internet.protocol import Factory, Protocol
from txtorcon import TorConfig, TCPHiddenServiceEndpoint
from txtorcon.testutil import FakeControlProtocol

ports = []


@implementer(IListeningPort)
class FakePort(object):
    def __init__(self, port, factory):
        self.port = port
        self.factory = factory
        self.listening = False

    def startListening(self):
        self.listening = True

    def stopListening(self):
        self.listening = False
        return defer.succeed(None)

    def getHost(self):
        return IPv4Address('TCP', '127.0.0.1', self.port)


@implementer(IReactorTCP, IReactorCore)
class FakeReactor(object):
    def listenTCP(self, port, factory, **kw):
        p = FakePort(4321 if port == 0 else port, factory)
        p.startListening()
        ports.append(p)
        return p

    def addSystemEventTrigger(self, *a):
        pass


def make_config():
    proto = FakeControlProtocol([])
    proto.answers.append('config/names=\nHiddenServiceOptions Virtual\nControlPort LineList\nSOCKSPort LineList')
    proto.answers.append('config/defaults=')
    proto.answers.append('HiddenServiceOptions')
    proto.answers.append({'ControlPort': '37337'})
    proto.answers.append({'SOCKSPort': '9050'})
    proto.answers.append({'onions/detached': ''})
    proto.answers.append({'onions/current': ''})
    cfg = TorConfig(proto)
    assert cfg.post_bootstrap.called
    return proto, cfg


class F(Factory):
    protocol = Protocol


bad = []

# case 1: ADD_ONION is rejected
proto, cfg = make_config()
ep = TCPHiddenServiceEndpoint(FakeReactor(), cfg, 80, ephemeral=True, version=3)
res = []
d = ep.listen(F())
d.addBoth(res.append)
assert len(ports) == 1 and ports[0].listening
cmd, cmd_d = proto.commands[-1]
assert cmd.startswith('ADD_ONION'), cmd
cmd_d.errback(RuntimeError('512 Bad arguments to ADD_ONION'))
if not res or not hasattr(res[0], 'trap'):
    bad.append('listen() did not fail after ADD_ONION error: %r' % (res,))
if ports[0].listening:
    bad.append('ADD_ONION rejected: local listener on port %d still open' % ports[0].port)

# case 2: every descriptor upload fails
del ports[:]
proto, cfg = make_config()
ep = TCPHiddenServiceEndpoint(FakeReactor(), cfg, 80, ephemeral=True, version=3)
res = []
d = ep.listen(F())
d.addBoth(res.append)
cmd, cmd_d = proto.commands[-1]
cmd_d.callback("ServiceID=service\nPrivateKey=ED25519-V3:deadbeef")
proto.events['HS_DESC']("UPLOAD service UNKNOWN dir0 desc0")
proto.events['HS_DESC']("FAILED service UNKNOWN dir0 desc0 REASON=UPLOAD_REJECTED")
if not res or not hasattr(res[0], 'trap'):
    bad.append('listen() did not fail after all uploads failed: %r' % (res,))
elif ports[0].listening:
    bad.append('all uploads failed: local listener on port %d still open' % ports[0].port)

for b in bad:
    print(b)
sys.exit(1 if bad else 0)
