# D02c: an event without arguments ("650 DESCCHANGED") must be delivered
import sys, os
sys.path.insert(0, os.getcwd())
from _protofake import connected, listen

proto, transport = connected()
got = []
listen(proto, transport, 'DESCCHANGED', got.append)
proto.dataReceived(b'650 DESCCHANGED\r\n')
if got != ['']:
    print('650 DESCCHANGED delivered %r to the listener (expected one call with "")' % (got,))
    sys.exit(1)
sys.exit(0)
