# D05a: SOCKS replies / application bytes coalesced in one chunk
import sys, os
sys.path.insert(0, os.getcwd())
from txtorcon import socks

bad = []


class Sender(object):
    def __init__(self):
        self.got = b''

    def dataReceived(self, d):
        self.got += d

    def connectionLost(self, reason):
        pass


OK4 = b'\x05\x00\x00\x01\x01\x02\x03\x04\x00\x50'


def machine():
    senders = []

    def create(addr, port):
        s = Sender()
        senders.append(s)
        return s
    sm = socks._SocksMachine('CONNECT', u'1.2.3.4', 80, create_connection=create)
    sm.connection()
    return sm, senders


# 1: success reply and application bytes in one chunk
sm, senders = machine()
sm.feed_data(b'\x05\x00')
sm.feed_data(OK4 + b'HELLO')
if len(senders) != 1:
    bad.append('1: no connection made')
elif senders[0].got != b'HELLO':
    bad.append('1: reply+HELLO in one chunk: application received %r' % (senders[0].got,))

# 2: method reply and request reply in one chunk
sm, senders = machine()
sm.feed_data(b'\x05\x00' + OK4)
if len(senders) != 1:
    bad.append('2: method reply + request reply in one chunk: request reply not parsed (connections=%d)' % len(senders))

# 3: all three in one chunk
sm, senders = machine()
sm.feed_data(b'\x05\x00' + OK4 + b'HELLO')
if len(senders) != 1 or senders[0].got != b'HELLO':
    bad.append('3: everything in one chunk: connections=%d received=%r' % (
        len(senders), senders[0].got if senders else None))

# 4: later data still flows, in order, no duplication
sm, senders = machine()
sm.feed_data(b'\x05\x00')
sm.feed_data(OK4 + b'HE')
sm.feed_data(b'LLO')
if not senders or senders[0].got != b'HELLO':
    bad.append('4: split application data: received %r' % (senders[0].got if senders else None,))

for b in bad:
    print(b)
sys.exit(1 if bad else 0)
