from twisted.python.failure import Failure
from txtorcon import TorConfig
from txtorcon.testutil import FakeControlProtocol


def make_config(names, defaults='', values=()):
    """
    names: 'Option Type' lines; defaults: body of config/defaults;
    values: answers to the GETCONF of each non-virtual option, in order
    """
    proto = FakeControlProtocol([])
    proto.answers.append('config/names=\n' + names)
    proto.answers.append('config/defaults=' + defaults)
    for v in values:
        proto.answers.append(v)
    cfg = TorConfig(proto)
    assert cfg.post_bootstrap.called, 'bootstrap incomplete'
    res = []
    cfg.post_bootstrap.addBoth(res.append)
    assert not isinstance(res[0], Failure), res[0]
    return proto, cfg
