# D10b: assign 'a,b' to a comma-list option, save, then append -> edit must be saved
import sys, os
sys.path.insert(0, os.getcwd())
from _conffake import make_config

proto, cfg = make_config('ExitNodes RouterList', values=[{'ExitNodes': 'x'}])
cfg.ExitNodes = 'a,b'
cfg.save()
if list(cfg.ExitNodes) != ['a', 'b']:
    print('after save ExitNodes reads back as %r' % (cfg.ExitNodes,))
    sys.exit(1)
del proto.sets[:]
cfg.ExitNodes.append('c')
if not cfg.needs_save():
    print('append on the value read back (%s) did not mark the config unsaved'
          % type(cfg.ExitNodes).__name__)
    sys.exit(1)
cfg.save()
if ('ExitNodes', 'c') not in proto.sets:
    print('second save issued %r' % (proto.sets,))
    sys.exit(1)
sys.exit(0)
