# D06b: RESOLVE_PTR of an IPv6 literal
import sys, os
sys.path.insert(0, os.getcwd())
from socket import inet_pton, inet_aton, AF_INET6
from txtorcon import socks

bad = []
sent = []
sm = socks._SocksMachine('RESOLVE_PTR', u'2001:db8::1', 0, on_data=sent.append)
sm.connection()
try:
    sm.feed_data(b'\x05\x00')
except Exception as e:
    bad.append('RESOLVE_PTR 2001:db8::1 raised %r' % (e,))
else:
    want = b'\x05\xf1\x00\x04' + inet_pton(AF_INET6, '2001:db8::1') + b'\x00\x00'
    if sent[-1] != want:
        bad.append('RESOLVE_PTR 2001:db8::1 sent %r, expected %r' % (sent[-1], want))

sent = []
sm = socks._SocksMachine('RESOLVE_PTR', u'1.2.3.4', 0, on_data=sent.append)
sm.connection()
sm.feed_data(b'\x05\x00')
want = b'\x05\xf1\x00\x01' + inet_aton('1.2.3.4') + b'\x00\x00'
if sent[-1] != want:
    bad.append('RESOLVE_PTR 1.2.3.4 sent %r, expected %r' % (sent[-1], want))

for b in bad:
    print(b)
sys.exit(1 if bad else 0)
