# D02b: a listener removing itself during delivery must not make the next one miss the event
import sys, os
sys.path.insert(0, os.getcwd())
from _protofake import connected, listen

proto, transport = connected()
got = []


def l1(data):
    got.append('l1')
    proto.remove_event_listener('STREAM', l1)


def l2(data):
    got.append('l2')


def l3(data):
    got.append('l3')


for cb in (l1, l2, l3):
    listen(proto, transport, 'STREAM', cb)
proto.dataReceived(b'650 STREAM 1 NEW 0 example.com:80\r\n')
if got != ['l1', 'l2', 'l3']:
    print('first event delivered to %r (expected l1, l2, l3)' % (got,))
    sys.exit(1)
del got[:]
proto.dataReceived(b'650 STREAM 2 NEW 0 example.com:80\r\n')
if got != ['l2', 'l3']:
    print('second event delivered to %r (expected l2, l3)' % (got,))
    sys.exit(1)
sys.exit(0)
