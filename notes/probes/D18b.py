# D18b: "SocksPort 0" means disabled; it is not a usable endpoint
import sys, os
sys.path.insert(0, os.getcwd())
from unittest.mock import Mock, patch
from txtorcon.endpoints import _create_socks_endpoint
from _socksfake import FakeCP, result_of

cp = FakeCP(['0'])
with patch('txtorcon.endpoints.available_tcp_port', return_value=9999):
    ep = result_of(_create_socks_endpoint(Mock(), cp))
port = getattr(ep, '_port', None)
if port != 9999 or len(cp.setconfs) != 1:
    print('SocksPort=0: got endpoint %r (port %r), SETCONFs: %r' % (ep, port, cp.setconfs))
    sys.exit(1)
# Tor refuses a zero port listed together with a non-zero one
if '0' in cp.setconfs[0]:
    print('SETCONF re-lists the disabled port: %r' % (cp.setconfs[0],))
    sys.exit(1)
sys.exit(0)
