# D11d: single config/defaults line for an unset LineList option
import sys, os
sys.path.insert(0, os.getcwd())
from txtorcon.torcontrolprotocol import DEFAULT_VALUE
from _conffake import make_config

bad = []
proto, cfg = make_config('SocksPort LineList',
                         defaults='\nSocksPort 9050',
                         values=[{'SocksPort': DEFAULT_VALUE}])
if list(cfg.SocksPort) != ['9050']:
    bad.append('one default line: SocksPort is %r, expected [\'9050\']' % (list(cfg.SocksPort),))

proto, cfg = make_config('SocksPort LineList',
                         defaults='\nSocksPort 9050\nSocksPort 9051',
                         values=[{'SocksPort': DEFAULT_VALUE}])
if list(cfg.SocksPort) != ['9050', '9051']:
    bad.append('two default lines: SocksPort is %r' % (list(cfg.SocksPort),))

for b in bad:
    print(b)
sys.exit(1 if bad else 0)
