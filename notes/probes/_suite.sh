#!/bin/sh
# run full suite in /tmp/fixwt; print summary line + failures
cd /tmp/fixwt && /venv/bin/python -m pytest -q -p no:cacheprovider --timeout=900 --continue-on-collection-errors 2>&1 | grep -E '^(FAILED|ERROR)|passed|failed' 
