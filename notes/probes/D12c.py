# D12c: a SETCONF key containing CR/LF, whitespace or '=' must be refused
import sys, os
sys.path.insert(0, os.getcwd())
from twisted.python.failure import Failure
from _protofake import connected

bad = []
for key in ['Log\r\nSIGNAL HALT\r\nSETCONF x', 'Log notice', 'Log=1 SocksPort', 'a\tb', 'a\nb', '']:
    proto, transport = connected()
    res = []
    try:
        d = proto.set_conf(key, 'v')
    except Exception as e:
        bad.append('key %r: set_conf raised %r instead of returning a failed Deferred' % (key, e))
        continue
    d.addBoth(res.append)
    if transport.value():
        bad.append('key %r: wrote %r' % (key, transport.value()))
    elif len(res) != 1 or not isinstance(res[0], Failure) or not res[0].check(ValueError):
        bad.append('key %r: result %r (expected a ValueError failure)' % (key, res))

# ordinary keys still work
proto, transport = connected()
proto.set_conf('SocksPort', '9050', '__OwningControllerProcess', '123')
if transport.value() != b'SETCONF SocksPort=9050 __OwningControllerProcess=123\r\n':
    bad.append('ordinary keys: wrote %r' % (transport.value(),))

for b in bad:
    print(b)
sys.exit(1 if bad else 0)
