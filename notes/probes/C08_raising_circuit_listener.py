from zope.interface import implementer
from txtorcon.circuit import Circuit
from txtorcon.interface import ICircuitListener
from txtorcon.interface import IRouterContainer
@implementer(IRouterContainer)
class RC:
    def router_from_id(self, i): return i
@implementer(ICircuitListener)
class L:
    def __init__(s,bad): s.bad=bad; s.seen=[]
    def circuit_new(s,c): s.seen.append('new')
    def circuit_launched(s,c): s.seen.append('launched')
    def circuit_extend(s,c,r): s.seen.append('extend')
    def circuit_built(s,c):
        s.seen.append('built')
        if s.bad: raise RuntimeError('listener bug')
    def circuit_closed(s,c,**kw): s.seen.append('closed')
    def circuit_failed(s,c,**kw): s.seen.append('failed')
c=Circuit(RC()); a=L(True); b=L(False); c.listen(a); c.listen(b)
c.update('1 LAUNCHED'.split())
got=[]; c.when_built().addBoth(got.append)
try:
    c.update('1 BUILT $AAAAAAAAAAAAAAAAAAAAAAAAAAAAAAAAAAAAAAAA~x'.split())
except Exception as e: print('update raised', type(e).__name__)
print('second listener saw', b.seen, '| when_built fired:', bool(got))
