# D03a: after connectionLost every queue_command must fail promptly
import sys, os
sys.path.insert(0, os.getcwd())
from twisted.python.failure import Failure
from twisted.internet.error import ConnectionDone
from _protofake import connected

proto, transport = connected()
proto.connectionLost(Failure(ConnectionDone()))
results = []
for i in range(3):
    r = []
    try:
        proto.queue_command('GETINFO version').addBoth(r.append)
    except Exception as e:
        print('queue_command #%d after loss raised %r' % (i + 1, e))
        sys.exit(1)
    results.append(r)
fired = [len(r) == 1 and isinstance(r[0], Failure) for r in results]
if fired != [True, True, True]:
    print('post-loss queue_command calls failed promptly: %r (expected all True)' % (fired,))
    sys.exit(1)
if transport.value():
    print('wrote %r to a dead transport' % (transport.value(),))
    sys.exit(1)
sys.exit(0)
