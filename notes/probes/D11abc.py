# D11a-c: CONF_CHANGED must keep list options tracked, map "unset" to the
# default per option, and one unset integer must not lose the rest of the event
import sys, os
sys.path.insert(0, os.getcwd())
from txtorcon.torcontrolprotocol import DEFAULT_VALUE
from _conffake import make_config

bad = []
NAMES = 'Log LineList\nNumCPUs Integer\nSocksPort LineList'
VALUES = [{'Log': 'notice stdout'}, {'NumCPUs': '2'}, {'SocksPort': '9999'}]

# a: list option stays a tracked list (one value and many values)
for event, want in (('Log=debug stdout', ['debug stdout']),
                    ('Log=debug stdout\nLog=info file /tmp/x', ['debug stdout', 'info file /tmp/x'])):
    proto, cfg = make_config(NAMES, defaults='\nSocksPort 9050\nNumCPUs 0', values=VALUES)
    proto.events['CONF_CHANGED'](event)
    if list(cfg.Log) != want:
        bad.append('a: after %r Log is %r' % (event, cfg.Log))
    cfg.Log.append('err stderr')
    if not cfg.needs_save():
        bad.append('a: after %r Log is an untracked %s: append not noticed' % (event, type(cfg.Log).__name__))
    else:
        cfg.save()
        if ('Log', 'err stderr') not in proto.sets:
            bad.append('a: save after append issued %r' % (proto.sets,))

# b: keyword only (unset) list option -> its default, not ['DEFAULT']
proto, cfg = make_config(NAMES, defaults='\nSocksPort 9050\nNumCPUs 0', values=VALUES)
proto.events['CONF_CHANGED']('SocksPort')
if list(cfg.SocksPort) != ['9050']:
    bad.append('b: unset SocksPort (default 9050) is %r' % (cfg.SocksPort,))
proto, cfg = make_config(NAMES, values=VALUES)
proto.events['CONF_CHANGED']('SocksPort')
if list(cfg.SocksPort) != []:
    bad.append('b: unset SocksPort (no default known) is %r' % (cfg.SocksPort,))

# c: unset integer first, then another option in the same event
proto, cfg = make_config(NAMES, defaults='\nSocksPort 9050\nNumCPUs 0', values=VALUES)
try:
    proto.events['CONF_CHANGED']('NumCPUs\nLog=debug stdout')
except Exception as e:
    bad.append('c: unset integer raised %r' % (e,))
if list(cfg.Log) != ['debug stdout']:
    bad.append('c: rest of the event lost: Log is %r' % (cfg.Log,))
if cfg.NumCPUs != 0:
    bad.append('c: unset NumCPUs (default 0) is %r' % (cfg.NumCPUs,))
proto, cfg = make_config(NAMES, values=VALUES)
try:
    proto.events['CONF_CHANGED']('NumCPUs\nLog=debug stdout')
except Exception as e:
    bad.append('c: unset integer (no default known) raised %r' % (e,))
if list(cfg.Log) != ['debug stdout']:
    bad.append('c: (no default known) rest of the event lost: Log is %r' % (cfg.Log,))

# a really invalid value is still reported, but after the rest was applied
proto, cfg = make_config(NAMES, values=VALUES)
try:
    proto.events['CONF_CHANGED']('NumCPUs=bogus\nLog=debug stdout')
except (ValueError, TypeError):
    if list(cfg.Log) != ['debug stdout']:
        bad.append('c: invalid integer: rest of the event lost: Log is %r' % (cfg.Log,))
else:
    bad.append('c: invalid integer not reported')

for b in bad:
    print(b)
sys.exit(1 if bad else 0)
