# D07a: stream first seen in a non-NEW state has no target_host/target_port
import sys, os
sys.path.insert(0, os.getcwd())
from txtorcon import Stream
from _streamfake import Container

bad = []
s = Stream(Container())
s.update('7 SENTCONNECT 0 example.com:80'.split())
if (s.target_host, s.target_port) != ('example.com', 80):
    bad.append('7 SENTCONNECT 0 example.com:80 -> target %r:%r' % (s.target_host, s.target_port))

# the usual life-cycle is unchanged
s = Stream(Container())
s.update('8 NEW 0 www.example.org:443 SOURCE_ADDR=127.0.0.1:1234 PURPOSE=USER'.split())
s.update('8 SENTCONNECT 5 www.example.org:443'.split())
s.update('8 REMAP 5 10.0.0.1:443 SOURCE=EXIT'.split())
s.update('8 SUCCEEDED 5 10.0.0.1:443'.split())
if (s.target_host, s.target_port) != ('www.example.org', 443):
    bad.append('normal life-cycle -> target %r:%r' % (s.target_host, s.target_port))

for b in bad:
    print(b)
sys.exit(1 if bad else 0)
