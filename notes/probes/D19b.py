# D19b: when_connected() after the launch already failed (timeout)
import sys, os
sys.path.insert(0, os.getcwd())
from twisted.internet import task, error
from twisted.internet.defer import Deferred
from twisted.python.failure import Failure
from txtorcon.controller import TorProcessProtocol


class FakeTransport(object):
    def signalProcess(self, sig):
        pass

    def loseConnection(self):
        pass


clock = task.Clock()
tpp = TorProcessProtocol(lambda: Deferred(), ireactortime=clock, timeout=10)
tpp.transport = FakeTransport()
early = tpp.when_connected()
early_results = []
early.addBoth(early_results.append)
clock.advance(11)
assert len(early_results) == 1 and isinstance(early_results[0], Failure), early_results

late = tpp.when_connected()
late_results = []
late.addBoth(late_results.append)
if len(late_results) != 1 or not isinstance(late_results[0], Failure):
    print('when_connected() after timeout failure gave: %r' % (late_results,))
    sys.exit(1)

# and the success case still succeeds with the protocol
tpp2 = TorProcessProtocol(lambda: Deferred())
tpp2._maybe_notify_connected(tpp2)
res = []
tpp2.when_connected().addBoth(res.append)
if res != [tpp2]:
    print('when_connected() after success gave: %r' % (res,))
    sys.exit(1)
sys.exit(0)
