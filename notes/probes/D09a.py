# D09a: an attacher returning DO_NOT_ATTACH must not cause any ATTACHSTREAM
import sys, os
sys.path.insert(0, os.getcwd())
from zope.interface import implementer
from txtorcon import TorState, IStreamAttacher
from _protofake import connected


@implementer(IStreamAttacher)
class Attacher(object):
    def __init__(self, answer):
        self.answer = answer
        self.asked = []

    def attach_stream(self, stream, circuits):
        self.asked.append(stream.id)
        return self.answer


def run(answer):
    proto, transport = connected()
    state = TorState(proto, bootstrap=False)
    state._attacher_error = lambda f: f
    att = Attacher(answer)
    state._attacher = att   # as set_attacher does, minus the SETCONF/SETEVENTS traffic
    state._stream_update('7 NEW 0 example.com:80 SOURCE_ADDR=127.0.0.1:4321 PURPOSE=USER')
    assert att.asked == [7], att.asked
    return transport.value()


bad = []
wire = run(TorState.DO_NOT_ATTACH)
if wire != b'':
    bad.append('DO_NOT_ATTACH: sent %r' % (wire,))
wire = run(None)
if wire != b'ATTACHSTREAM 7 0\r\n':
    bad.append('None (let Tor choose): sent %r' % (wire,))

for b in bad:
    print(b)
sys.exit(1 if bad else 0)
