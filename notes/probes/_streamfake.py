from zope.interface import implementer
from twisted.internet import defer
from txtorcon import ICircuitContainer


class FakeCircuit(object):
    def __init__(self, id):
        self.id = id
        self.streams = []


@implementer(ICircuitContainer)
class Container(object):
    def __init__(self):
        self.circuits = {}
        self.closes = []

    def find_circuit(self, id):
        return self.circuits.setdefault(id, FakeCircuit(id))

    def close_circuit(self, circuit, **kw):
        raise NotImplementedError()

    def close_stream(self, stream, **kw):
        # like the real thing: answered later (see answer_closes)
        d = defer.Deferred()
        self.closes.append(d)
        return d

    def answer_closes(self):
        for d in self.closes:
            d.callback('OK')
