# D03b: commands queued behind an in-flight one, loss, then queue_command
import sys, os
sys.path.insert(0, os.getcwd())
from twisted.python.failure import Failure
from twisted.internet.error import ConnectionDone
from _protofake import connected

proto, transport = connected()
res = [[], [], []]
proto.queue_command('GETINFO a').addBoth(res[0].append)   # in flight
proto.queue_command('GETINFO b').addBoth(res[1].append)   # queued
proto.queue_command('GETINFO c').addBoth(res[2].append)   # queued
proto.connectionLost(Failure(ConnectionDone()))
if [len(r) for r in res] != [1, 1, 1] or not all(isinstance(r[0], Failure) for r in res):
    print('outstanding commands after loss: %r' % (res,))
    sys.exit(1)
late = []
try:
    proto.queue_command('GETINFO d').addBoth(late.append)
except Exception as e:
    print('queue_command after loss raised %r' % (e,))
    sys.exit(1)
if len(late) != 1 or not isinstance(late[0], Failure):
    print('queue_command after loss gave %r' % (late,))
    sys.exit(1)
sys.exit(0)
