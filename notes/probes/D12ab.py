# D12a/b: SETCONF values must be emitted so that Tor's kvline grammar reads back the same value
import sys, os
sys.path.insert(0, os.getcwd())
from _protofake import connected

WS = ' \t\r\v\n'
ESC = {'n': '\n', 't': '\t', 'r': '\r', '"': '"', '\\': '\\', "'": "'"}


def kvline_parse(line):
    "like tor's kvline_parse(KV_QUOTED): [(key, value)] or None if malformed"
    out = []
    i = 0
    while True:
        while i < len(line) and line[i] in WS:
            i += 1
        if i >= len(line):
            return out
        j = i
        while j < len(line) and line[j] not in WS + '=':
            j += 1
        key = line[i:j]
        if j >= len(line) or line[j] != '=':
            return None
        i = j + 1
        if i < len(line) and line[i] == '"':
            i += 1
            val = ''
            while True:
                if i >= len(line):
                    return None
                c = line[i]
                if c == '"':
                    i += 1
                    break
                if c == '\\':
                    if i + 1 >= len(line) or line[i + 1] not in ESC:
                        return None
                    val += ESC[line[i + 1]]
                    i += 2
                    continue
                if c == '\n':
                    return None
                val += c
                i += 1
            if i < len(line) and line[i] not in WS:
                return None
        else:
            j = i
            while j < len(line) and line[j] not in WS:
                j += 1
            val = line[i:j]
            if '"' in val:
                return None
            i = j
        out.append((key, val))


bad = []
values = ['plain', 'two words', 'a "b" c', '"x', 'a\\ b', 'a\tb', 'x"y', 'back\\slash',
          'a\r\nSIGNAL HALT', 'a\nb']
for v in values:
    proto, transport = connected()
    proto.set_conf('Nickname', v, 'ContactInfo', 'z')
    wire = transport.value().decode('ascii')
    lines = wire.split('\r\n')
    if lines[-1] != '' or len(lines) != 2 or '\n' in lines[0] or '\r' in lines[0]:
        bad.append('value %r: wrote %d command line(s): %r' % (v, len(lines) - 1, wire))
        continue
    if not lines[0].startswith('SETCONF '):
        bad.append('value %r: wrote %r' % (v, wire))
        continue
    back = kvline_parse(lines[0][len('SETCONF '):])
    if back != [('Nickname', v), ('ContactInfo', 'z')]:
        bad.append('value %r: %r parses back as %r' % (v, lines[0], back))

for b in bad:
    print(b)
sys.exit(1 if bad else 0)
